#!/bin/bash
# usage: tools/confirm_seed.sh C14 A   -- independently confirms a seeded change in a scratch worktree and files it under /verif/seeded/
set -u
ID=$1; V=$2
SRC=/tmp/seedout/$ID/$V
WT=/tmp/confirm_$ID$V
export GOFLAGS=-mod=mod GOPROXY=off GOSUMDB=off GOTOOLCHAIN=local
[ -f $SRC/patch.diff ] || { echo "$ID$V: no patch"; exit 1; }
rm -rf $WT; git -C /repo worktree add --detach $WT HEAD -q || exit 1
res() { echo "$ID$V: $*"; }
DEST=$(python3 -c "import json;print(json.load(open('$SRC/meta.json'))['demo_dest'].split()[0])")
RUN=$(python3 -c "import json;print(json.load(open('$SRC/meta.json'))['demo_run'])")
ok=1
git -C $WT apply $SRC/patch.diff || { res "patch does not apply"; ok=0; }
if [ $ok = 1 ]; then
  (cd $WT/v8 && go build ./... ) >/tmp/confirm_$ID$V.log 2>&1 || { res "build fails"; ok=0; }
fi
if [ $ok = 1 ]; then
  (cd $WT/v8 && go test -vet=off -count=1 ./... ) >>/tmp/confirm_$ID$V.log 2>&1 || { res "suite FAILS with change"; ok=0; }
fi
if [ $ok = 1 ]; then
  cp $SRC/demo_test.go $WT/$DEST
  if (cd $WT/v8 && timeout 300 $RUN) >>/tmp/confirm_$ID$V.log 2>&1; then res "demo PASSES with change (bad)"; ok=0; fi
  git -C $WT checkout -- . 
  if ! (cd $WT/v8 && timeout 300 $RUN) >>/tmp/confirm_$ID$V.log 2>&1; then res "demo FAILS without change (bad)"; ok=0; fi
fi
git -C /repo worktree remove --force $WT; git -C /repo worktree prune
if [ $ok = 1 ]; then
  D=/verif/seeded/$ID-$V; mkdir -p $D
  cp $SRC/patch.diff $D/patch.diff; cp $SRC/demo_test.go $D/demo_test.go
  python3 - <<PY
import json
m=json.load(open('$SRC/meta.json'))
m['confirmed_by_me']={'worktree':'scratch git worktree of /repo HEAD under /tmp (removed)','ran':['git apply patch.diff','go build ./...','go test -vet=off -count=1 ./... (all ok with change)','demo_run with change: FAIL','git checkout -- . ; demo_run without change: PASS']}
json.dump(m,open('$D/meta.json','w'),indent=1)
PY
  res "confirmed -> $D"
fi
