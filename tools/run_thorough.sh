#!/bin/bash
# usage: tools/run_thorough.sh [props...]  -- runs thorough checks one after another, one summary line each (no evidence written)
cd "$(dirname "$0")/.." || exit 2
props="$@"; [ -z "$props" ] && props="C01 C02 C03 C04 C05 C06 C07 C08 C09 C10 C11 C12 C13 C14 C15 C16 C17 C18 C19 C20"
for p in $props; do
  ./check $p thorough -no-evidence 2>&1 | grep -E "^(VIOLATION|UNCONFIRMED|INCONCLUSIVE|RESULT)" | cut -c1-200 | awk '{k=$1" "$3; if(!(k in s)){s[k]=1; print}}' | head -12
done
