#!/usr/bin/env python3
"""Regenerates /verif/MANIFEST.json from the tables below (kept in one place so the manifest is always valid)."""
import json, os
HERE = os.path.dirname(os.path.dirname(os.path.abspath(__file__)))

TECH = "bounded symbolic execution of go/ssa + SMT (z3 5.1.0), counterexamples replayed natively"
BASE_NOTE = ("Trusted base: Go front end + go/ssa (x/tools v0.29.0), the gosym interpreter (validated by native replay and concrete self-tests), "
             "z3 5.1.0; stubs/intrinsics and bounds per instance are listed in the evidence file. ")

# property -> (level text, level note, design ref)   (only claimed properties)
CLAIMED = {
 "C13": ("Helper and framing clauses only: for every length in [0,2^31) MarshalLengthBytes is the minimal DER definite length and GetLengthFromASN/GetNumberBytesInLengthHeader invert it; "
         "SetFlag/UnsetFlag/IsFlagSet use RFC 4120 MSB-first numbering for all 32x32 index pairs and all flag words. Decided by the solver over all values, not sampled. "
         "Round-trip/RFC conformance of the reflection-driven ASN.1 codec itself is outside the claim (DESIGN.md section 7).",
         BASE_NOTE + "The gofork asn1 codec (reflection) is not executed.", "6 (C13), 7"),
}

NOT_APPLICABLE = {
}
for i in range(1, 21):
    pid = "C%02d" % i
    if pid not in CLAIMED and pid not in NOT_APPLICABLE:
        NOT_APPLICABLE[pid] = "check not registered yet in this revision (engine and harnesses under construction; see DESIGN.md section 10 build order)"

checks = []
for pid in sorted(CLAIMED):
    text, note, ref = CLAIMED[pid]
    checks.append({
        "property_id": pid,
        "quick_cmd": "./check %s quick" % pid,
        "thorough_cmd": "./check %s thorough" % pid,
        "evidence_file": "/verif/evidence/%s.json" % pid,
        "replay_cmd_template": "./check %s quick   # replays are regenerated: the check re-derives the counterexample and replays it natively; recorded inputs are in {path}" % pid,
        "engine": "gosym",
        "level_claimed": {"category": "model_checking", "text": text, "design_ref": "DESIGN.md section " + ref},
        "level_note": note,
        "technique": TECH,
    })

m = {
 "version": 1,
 "setup_cmd": "cd /verif/engine && GOFLAGS=-mod=mod GOPROXY=off GOSUMDB=off GOTOOLCHAIN=local go build -o /verif/bin/gosym .",
 "hooks": {
   "guard": "verif",
   "enable": "no hooks are compiled into /repo: harnesses and the zzverif runtime package are injected by overlay only (packages.Config.Overlay for the encoder, go test -overlay for native replay)",
   "baseline_off_cmd": "cd /repo/v8 && GOFLAGS=-mod=mod GOPROXY=off go test -vet=off -count=1 -timeout 25m ./...",
   "source_commits": [],
   "add_only": True,
 },
 "engines": [{"name": "gosym", "path": "/verif/engine", "serves_properties": sorted(CLAIMED), "kind_free_text": "symbolic interpreter for go/ssa written for this task; SMT-LIB2 over a pipe to z3 5.1.0; stateless re-execution with decision vectors; native replay through go test -overlay"}],
 "checks": checks,
 "not_applicable": [{"property_id": k, "reason": v} for k, v in sorted(NOT_APPLICABLE.items())],
 "notes": "All checks exit 0 = held within the stated bounds, 1 = VIOLATION (replayed natively), 2 = INCONCLUSIVE (never reported as success). Known findings: /verif/KNOWN_FINDINGS.txt.",
}
json.dump(m, open(os.path.join(HERE, "MANIFEST.json"), "w"), indent=1)
print("wrote MANIFEST.json with", len(checks), "checks,", len(NOT_APPLICABLE), "not applicable")
