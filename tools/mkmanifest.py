#!/usr/bin/env python3
"""Regenerates /verif/MANIFEST.json from the tables below (kept in one place so the manifest is always valid)."""
import json, os
HERE = os.path.dirname(os.path.dirname(os.path.abspath(__file__)))

TECH = "bounded symbolic execution of go/ssa + SMT (z3 5.1.0), counterexamples replayed natively"
BASE_NOTE = ("Trusted base: Go front end + go/ssa (x/tools v0.29.0), the gosym interpreter (validated by native replay and concrete self-tests), "
             "z3 5.1.0; stubs/intrinsics and bounds per instance are listed in the evidence file. ")

# property -> (level text, level note, design ref)   (only claimed properties)
CLAIMED = {
 "C01": ("service.VerifyAPREQ executed symbolically on an AP-REQ whose decoded content is ARBITRARY: crypto.DecryptEncPart is an uninterpreted authenticity predicate over (ciphertext, key, usage), the ASN.1 decoders return any value of their Go types (all field values, 0..2 name components, flags of 0..4 bytes, optional addresses, 0..1 authorization data), the clock and all time fields are symbolic 64-bit instants, the keytab holds symbolic entries, settings (skew, host address requirement, client address, keytab principal override, PAC decoding) symbolic. Asserted both ways: accepted => every RFC 4120 3.2.3 clause holds (ticket authentic under the keytab key selected by realm/kvno/etype/sname or override, now within [start-skew, end+skew], authenticator authentic under the ticket session key with usage 11, cname/crealm equal, ctime within skew, address rules, invalid flag clear, not a replay, PAC verified when enabled); every clause holds => accepted; and the reported identity/expiry are the ticket's sealed values. Time-window boundaries are decided exactly by the solver (no sampling of instants).",
         BASE_NOTE + "Decrypt/unmarshal/PAC verification are stubs (sets decryptstub, asn1havoc, pacstub, lineartime); their real code is covered under C06 (decrypt rejects tampering) and C19 (PAC); the ASN.1 reflection codec is not executed. Name components <= 2, string lengths per mask. Cipher-level defects (flipped ciphertext bit) appear as 'authentic=false'.", "6 (C01)"),
 "C02": ("service.Cache (replay cache) run symbolically: sequential forms (exact repeat rejected; different client, instant or service accepted; names differing only in '/' splitting are distinct); EVERY history of k<=4 operations (thorough 5) over {present a1, present a2, clean-up} from the empty cache with the clock advancing by arbitrary symbolic amounts between operations - an authenticator accepted before and still inside the skew window is a replay, a never-presented one is accepted; clean-up drops only entries that can no longer pass the skew check; a client with n tracked authenticators; concurrent forms: 2 goroutines (thorough 3) presenting the same authenticator under EVERY interleaving at lock/atomic granularity - at most one accepted, distinct ones all accepted, concurrent clean-up harmless, with vector-clock data-race detection on every memory access.",
         BASE_NOTE + "Interleavings are enumerated as schedule decisions of the same symbolic executor (cooperative threads, context switch before every sync operation and shared access); histories beyond k operations, more than 3 goroutines are outside the bound. Go memory-model weak behaviours are represented only through the race detector (a race is reported as a violation).", "6 (C02)"),
 "C04": ("No input makes a parser panic, hang or allocate out of proportion: every implicit obligation the executor tracks (index, slice bounds, nil dereference, division, type assertion, explicit panic, loop unwinding, allocation > 1 MiB from an n-byte input) is checked on EVERY byte string of the registered lengths for keytab.Unmarshal (n<=14 quick, 22 thorough), ccache Unmarshal v1-4, PAC Unmarshal and the PAC info buffers, gssapi Wrap/MIC token Unmarshal, kadmin Reply/response parsing, asn1tools length helpers, DecryptMessage for all six etypes and every ciphertext length 0..40 (+48,64,80), krb5.conf realm-block lines; and on every DECODED SHAPE (post-ASN.1 struct with empty/short sequences) for AP-REQ verification, GetPACType, GetKeyFromPassword; client.sendTCP with an arbitrary peer-announced length.",
         BASE_NOTE + "The reflection-driven ASN.1/NDR decoders themselves are not executed (DESIGN 7): their outputs are havoc values of the Go types. 7 ccache reader sites that still panic on truncated files are recorded as known findings (KNOWN_FINDINGS.txt) and printed as KNOWN-FINDING; any other site is a VIOLATION. Inputs longer than the registered lengths are outside the claim.", "6 (C04)"),
 "C09": ("Reply verification executed symbolically with arbitrary decoded replies: KDCRep.Verify for AS-REP (password and keytab credentials) and the TGS-REP checks accept only when the encrypted part is authentic under the expected key and usage, the nonce equals the request's, cname/crealm and sname/srealm answer the request, times are consistent with the request within skew; on acceptance the key/ticket stored come from the authenticated part. Any KRB-ERROR reply other than those the client is specified to act on surfaces as an error; in the transport layer a KRB-ERROR from a KDC is surfaced as such for every size preference and endpoint behaviour (scripted endpoints).",
         BASE_NOTE + "Stubs as for C01 (decryptstub, asn1havoc, lineartime, kdcstub, netstub). Bounds: one reply per exchange, names <= 2 components.", "6 (C09)"),
 "C10": ("Client ticket acquisition against a scripted adversarial KDC: a cached service ticket is returned only while now is inside [start, end] (symbolic instants, boundaries exact), is renewed when renewable and otherwise re-requested; TGS and AS referral chains of length k in {0,1,6..9} terminate within the fixed bound of requests and end with the ticket or an error, never a loop.",
         BASE_NOTE + "KDC replies are stub outputs (kdcstub/ScriptStub) - any decodable reply; the request-field clauses (NewASReq/NewTGSReq contents) are not covered in this revision.", "6 (C10)"),
 "C11": ("Every pair of operations on one client ticket cache (15 pairs) and one TGT session (28 pairs), and two concurrent GetKDCs on a shared Config, executed under EVERY interleaving at lock/atomic granularity with vector-clock race detection on every access: no data race, no deadlock, and tgtDetails returns a (TGT, session key) pair that a single update wrote.",
         BASE_NOTE + "Two goroutines, one operation each; longer concurrent histories and the auto-renewal goroutine timing are outside the bound. Weak-memory behaviours are represented only by reporting races.", "6 (C11)"),
 "C12": ("Client.sendToKDC with n<=2 KDCs (thorough 3) and every combination of endpoint behaviours (each (KDC, transport) answers / refuses / closes silently / closes mid-reply) and every udp_preference_limit class: if some configured KDC answers on a transport the preference permits, the call succeeds with that KDC's complete reply; a truncated TCP reply is never returned as success; KRB-ERROR replies surface. KDC order is every outcome of math/rand.",
         BASE_NOTE + "Sockets are scripted stubs (netstub); counterexamples are replayed natively against real loopback listeners. DNS SRV lookup not covered.", "6 (C12)"),
 "C16": ("krb5.conf semantics kernels: ResolveRealm returns the most specific mapping for EVERY subset of candidate domain_realm entries and decoys for hostnames of depth 1..3 (thorough 5); GetKDCs/GetKpasswdServers return exactly the configured servers (kpasswd_server, else admin_server with port 464) under every math/rand outcome and never mutate the Config; parseBoolean accepts exactly the MIT spellings for EVERY string of 0..3 bytes (thorough 5); realm-block kdc/admin_server lines: port defaulting and final-value '*' handling for symbolic values.",
         BASE_NOTE + "Whole-file parsing (sections, includes, libdefaults keys, durations) is outside the claim of this revision.", "6 (C16)"),
 "C19": ("pac.PACType.ProcessPACInfoBuffers/verify on a PAC with all contents symbolic: accepted => the server signature equals the declared checksum type's RFC checksum (usage 17, service key) of the PAC with both signature fields zeroed; a correctly signed PAC is accepted; any change of signed bytes, signature, key or declared type is rejected (idealised MAC); a PAC lacking a mandatory buffer is rejected whatever it contains.",
         BASE_NOTE + "NDR decoding of KerbValidationInfo etc. is a stub returning arbitrary structs (ndrhavoc). The KDC signature cannot be verified by a service (no krbtgt key) - not in the statement.", "6 (C19)"),
 "C05": ("For each of the six etypes and each registered plaintext length (quick: 0,1,7,8,9,15,16,17,31,32,33; thorough adds 47..130) the real EncryptMessage/DecryptMessage/GetEncryptedData code is executed symbolically with key, confounder (= what crypto/rand returned), plaintext and ALL non-zero 32-bit key usages symbolic and shown equal, byte for byte, to an RFC 3961/3962/8009/4757 reference model written over the same uninterpreted primitives; the library decrypts the reference's ciphertext for any confounder. One solver verdict covers all keys/usages/contents of a length; lengths are enumerated.",
         BASE_NOTE + "AES/DES/RC4/SHA/MD5/HMAC/PBKDF2 are uninterpreted functions (block ciphers with D(E(x))=x); n-fold and des3 random-to-key are summarised by one symbol on both sides here and proved against their RFC definitions under C08. The reference model is validated natively when counterexamples are replayed. Lengths not registered are outside the claim.", "6 (C05), 3.2"),
 "C06": ("General form, no adversary model: for EVERY byte string x of the length of an RFC ciphertext (plaintext lengths 0,1,15,16,17,33; thorough more), every key and non-zero usage, if DecryptMessage accepts x and returns p then x is exactly the RFC encryption of p. Constructive forms in the idealised-MAC model: every non-zero mask confined to the body, or to the tag, every other key, every other non-aliased usage is rejected; plus a history form (key buffer refilled in place between calls).",
         BASE_NOTE + "Idealised model: HMAC tags / block-cipher outputs / n-fold of distinct operands differ (no collisions); simultaneous change of body and tag is a MAC forgery excluded by assumption (DESIGN 3.2). rc4 tag-only tampering is covered by the general form only. des3 keys are compared modulo DES parity bits.", "6 (C06), 3.2"),
 "C07": ("GetChecksumHash equals the RFC definition (RFC 3961/3962 simplified profile, RFC 8009 KDF form, RFC 4757 HMAC-MD5) for all keys, usages and data contents at data lengths 0,1,64,65,200 (thorough adds 5,63,128); VerifyChecksum accepts exactly that value against fully symbolic candidates of length L-1, L, L+1 and rejects truncation, extension and every changed bit; other data/key/usage rejected (idealised MAC); GetChksumEtype/GetEtype equal the IANA table for ALL 2^32 ids; history form across etypes sharing key bytes.",
         BASE_NOTE + "Primitives uninterpreted as for C05; idealised MAC for the rejection clauses.", "6 (C07)"),
 "C08": ("Compositional: (1) the bit-serial onesComplementAddition equals end-around-carry addition for ALL operand pairs of 1,2,8 bytes (thorough 16, 21) by if-conversion; rotateRight equals bit rotation; Nfold equals the RFC 3961 5.1 construction for every content at the registered (input length, output size) pairs (thorough: every input length 1..64 x {64,128,168}); (2) des3 random-to-key incl. parity and all 16 weak-key corrections for ALL 2^56 group seeds; (3) DR/DK, RFC 8009 KDF-HMAC-SHA2 with the RFC key lengths, rc4 HMAC; (4) string-to-key for des3, aes-sha1, aes-sha2 for all byte contents of passwords/salts of the registered lengths and ALL 2^32 iteration parameters; default parameters; (5) generated keys and subkeys have the etype's key length and encrypt/decrypt.",
         BASE_NOTE + "PBKDF2/HMAC/hash internals are uninterpreted (iteration count is an argument). PA-DATA precedence (GetKeyFromPassword) and rc4 UTF-16 conversion are not yet covered in this revision. Password lengths above the bound are outside the claim.", "6 (C08)"),
 "C13": ("Helper and framing clauses only: for every length in [0,2^31) MarshalLengthBytes is the minimal DER definite length and GetLengthFromASN/GetNumberBytesInLengthHeader invert it; "
         "SetFlag/UnsetFlag/IsFlagSet use RFC 4120 MSB-first numbering for all 32x32 index pairs and all flag words. Decided by the solver over all values, not sampled. "
         "Round-trip/RFC conformance of the reflection-driven ASN.1 codec itself is outside the claim (DESIGN.md section 7).",
         BASE_NOTE + "The gofork asn1 codec (reflection) is not executed.", "6 (C13), 7"),
 "C14": ("Lookup: for every keytab of 0..2 entries (thorough 3) with 0..2 components, symbolic names, full-range kvno/etype/timestamps, and every query: success implies the returned key/kvno belong to an entry matching realm, every component, etype and kvno (any if 0) that no matching entry is newer than; no match implies error; variable-length component strings (empty components, separators inside components) in a separate instance. Round trip Marshal/Unmarshal for versions 1 and 2. A file written by an independent writer from the MIT format text (holes, with/without 32-bit kvno) parses to exactly the model.",
         BASE_NOTE + "Bounds: entry/component counts and string/key lengths as registered; Load from disk not covered.", "6 (C14)"),
 "C15": ("A ccache file rendered by an independent writer (harness, from the MIT format text) for versions 1-4 from a symbolic model (principals, key, times, is_skey, flags, 0..1 addresses/authdata, tickets, v4 header field, configuration entry) parses to exactly the model; GetEntry/Contains return the first credential whose server name equals the query, GetEntries drops exactly the X-CACHECONF entries in order and the accessors do not disturb the parsed list.",
         BASE_NOTE + "Counts/lengths as registered (quick: <=2 credentials); client.NewFromCCache (ASN.1 ticket decoding) not covered in this revision.", "6 (C15)"),
 "C17": ("Layout: Wrap/MIC Marshal produce the RFC 4121 4.2.6 layout byte for byte for symbolic flags/EC/RRC/64-bit sequence numbers and Unmarshal inverts it; Unmarshal errors exactly when token id, filler, direction flag or EC is unacceptable, for EVERY token of the registered lengths and both expected directions. Checksum: SetCheckSum/SetChecksum store the RFC checksum of payload|header(EC=RRC=0) for all six etypes, keys, usages, payload contents (payload lengths 0,1,2,17; thorough 100,300); Verify accepts exactly that value; any change of payload, flags, sequence number, key or usage fails (idealised MAC); initiator constructors use usages 24/25.",
         BASE_NOTE + "Primitives uninterpreted as for C05/C07. RRC is not protected for unsealed tokens by RFC 4121 (not in the statement).", "6 (C17)"),
}

NOT_APPLICABLE = {
 "C03": "check not registered yet in this revision: the SPNEGO HTTP wrapper needs net/http request/response stubs (planned as stub set httpstub); the AP-REQ acceptance it delegates to is covered by C01",
 "C18": "check not registered yet in this revision: spnego.Client.Do drives net/http.Client; a scripted RoundTripper stub is planned",
 "C20": "check not registered yet in this revision: needs a self-composition (two-secret) taint harness over fmt/json formatting, which the encoder does not execute symbolically",
}
for i in range(1, 21):
    pid = "C%02d" % i
    if pid not in CLAIMED and pid not in NOT_APPLICABLE:
        NOT_APPLICABLE[pid] = "check not registered yet in this revision (engine and harnesses under construction; see DESIGN.md section 10 build order)"

checks = []
for pid in sorted(CLAIMED):
    text, note, ref = CLAIMED[pid]
    checks.append({
        "property_id": pid,
        "quick_cmd": "./check %s quick" % pid,
        "thorough_cmd": "./check %s thorough" % pid,
        "evidence_file": "/verif/evidence/%s.json" % pid,
        "replay_cmd_template": "./check %s quick   # replays are regenerated: the check re-derives the counterexample and replays it natively; recorded inputs are in {path}" % pid,
        "engine": "gosym",
        "level_claimed": {"category": "model_checking", "text": text, "design_ref": "DESIGN.md section " + ref},
        "level_note": note,
        "technique": TECH,
    })

m = {
 "version": 1,
 "setup_cmd": "cd /verif/engine && GOFLAGS=-mod=mod GOPROXY=off GOSUMDB=off GOTOOLCHAIN=local go build -o /verif/bin/gosym .",
 "hooks": {
   "guard": "verif",
   "enable": "no hooks are compiled into /repo: harnesses and the zzverif runtime package are injected by overlay only (packages.Config.Overlay for the encoder, go test -overlay for native replay)",
   "baseline_off_cmd": "cd /repo/v8 && GOFLAGS=-mod=mod GOPROXY=off go test -vet=off -count=1 -timeout 25m ./...",
   "source_commits": [],
   "add_only": True,
 },
 "engines": [{"name": "gosym", "path": "/verif/engine", "serves_properties": sorted(CLAIMED), "kind_free_text": "symbolic interpreter for go/ssa written for this task; SMT-LIB2 over a pipe to z3 5.1.0; stateless re-execution with decision vectors; native replay through go test -overlay"}],
 "checks": checks,
 "not_applicable": [{"property_id": k, "reason": v} for k, v in sorted(NOT_APPLICABLE.items())],
 "notes": "All checks exit 0 = held within the stated bounds, 1 = VIOLATION (replayed natively), 2 = INCONCLUSIVE (never reported as success). Known findings: /verif/KNOWN_FINDINGS.txt.",
}
json.dump(m, open(os.path.join(HERE, "MANIFEST.json"), "w"), indent=1)
print("wrote MANIFEST.json with", len(checks), "checks,", len(NOT_APPLICABLE), "not applicable")
