#!/usr/bin/env python3
"""Regenerates /verif/MANIFEST.json from the tables below (kept in one place so the manifest is always valid)."""
import json, os
HERE = os.path.dirname(os.path.dirname(os.path.abspath(__file__)))

TECH = "bounded symbolic execution of go/ssa + SMT (z3 5.1.0), counterexamples replayed natively"
BASE_NOTE = ("Trusted base: Go front end + go/ssa (x/tools v0.29.0), the gosym interpreter (validated by native replay and concrete self-tests), "
             "z3 5.1.0; stubs/intrinsics and bounds per instance are listed in the evidence file. ")

# property -> (level text, level note, design ref)   (only claimed properties)
CLAIMED = {
 "C05": ("For each of the six etypes and each registered plaintext length (quick: 0,1,7,8,9,15,16,17,31,32,33; thorough adds 47..130) the real EncryptMessage/DecryptMessage/GetEncryptedData code is executed symbolically with key, confounder (= what crypto/rand returned), plaintext and ALL non-zero 32-bit key usages symbolic and shown equal, byte for byte, to an RFC 3961/3962/8009/4757 reference model written over the same uninterpreted primitives; the library decrypts the reference's ciphertext for any confounder. One solver verdict covers all keys/usages/contents of a length; lengths are enumerated.",
         BASE_NOTE + "AES/DES/RC4/SHA/MD5/HMAC/PBKDF2 are uninterpreted functions (block ciphers with D(E(x))=x); n-fold and des3 random-to-key are summarised by one symbol on both sides here and proved against their RFC definitions under C08. The reference model is validated natively when counterexamples are replayed. Lengths not registered are outside the claim.", "6 (C05), 3.2"),
 "C06": ("General form, no adversary model: for EVERY byte string x of the length of an RFC ciphertext (plaintext lengths 0,1,15,16,17,33; thorough more), every key and non-zero usage, if DecryptMessage accepts x and returns p then x is exactly the RFC encryption of p. Constructive forms in the idealised-MAC model: every non-zero mask confined to the body, or to the tag, every other key, every other non-aliased usage is rejected; plus a history form (key buffer refilled in place between calls).",
         BASE_NOTE + "Idealised model: HMAC tags / block-cipher outputs / n-fold of distinct operands differ (no collisions); simultaneous change of body and tag is a MAC forgery excluded by assumption (DESIGN 3.2). rc4 tag-only tampering is covered by the general form only. des3 keys are compared modulo DES parity bits.", "6 (C06), 3.2"),
 "C07": ("GetChecksumHash equals the RFC definition (RFC 3961/3962 simplified profile, RFC 8009 KDF form, RFC 4757 HMAC-MD5) for all keys, usages and data contents at data lengths 0,1,64,65,200 (thorough adds 5,63,128); VerifyChecksum accepts exactly that value against fully symbolic candidates of length L-1, L, L+1 and rejects truncation, extension and every changed bit; other data/key/usage rejected (idealised MAC); GetChksumEtype/GetEtype equal the IANA table for ALL 2^32 ids; history form across etypes sharing key bytes.",
         BASE_NOTE + "Primitives uninterpreted as for C05; idealised MAC for the rejection clauses.", "6 (C07)"),
 "C08": ("Compositional: (1) the bit-serial onesComplementAddition equals end-around-carry addition for ALL operand pairs of 1,2,8 bytes (thorough 16, 21) by if-conversion; rotateRight equals bit rotation; Nfold equals the RFC 3961 5.1 construction for every content at the registered (input length, output size) pairs (thorough: every input length 1..64 x {64,128,168}); (2) des3 random-to-key incl. parity and all 16 weak-key corrections for ALL 2^56 group seeds; (3) DR/DK, RFC 8009 KDF-HMAC-SHA2 with the RFC key lengths, rc4 HMAC; (4) string-to-key for des3, aes-sha1, aes-sha2 for all byte contents of passwords/salts of the registered lengths and ALL 2^32 iteration parameters; default parameters; (5) generated keys and subkeys have the etype's key length and encrypt/decrypt.",
         BASE_NOTE + "PBKDF2/HMAC/hash internals are uninterpreted (iteration count is an argument). PA-DATA precedence (GetKeyFromPassword) and rc4 UTF-16 conversion are not yet covered in this revision. Password lengths above the bound are outside the claim.", "6 (C08)"),
 "C13": ("Helper and framing clauses only: for every length in [0,2^31) MarshalLengthBytes is the minimal DER definite length and GetLengthFromASN/GetNumberBytesInLengthHeader invert it; "
         "SetFlag/UnsetFlag/IsFlagSet use RFC 4120 MSB-first numbering for all 32x32 index pairs and all flag words. Decided by the solver over all values, not sampled. "
         "Round-trip/RFC conformance of the reflection-driven ASN.1 codec itself is outside the claim (DESIGN.md section 7).",
         BASE_NOTE + "The gofork asn1 codec (reflection) is not executed.", "6 (C13), 7"),
 "C14": ("Lookup: for every keytab of 0..2 entries (thorough 3) with 0..2 components, symbolic names, full-range kvno/etype/timestamps, and every query: success implies the returned key/kvno belong to an entry matching realm, every component, etype and kvno (any if 0) that no matching entry is newer than; no match implies error; variable-length component strings (empty components, separators inside components) in a separate instance. Round trip Marshal/Unmarshal for versions 1 and 2. A file written by an independent writer from the MIT format text (holes, with/without 32-bit kvno) parses to exactly the model.",
         BASE_NOTE + "Bounds: entry/component counts and string/key lengths as registered; Load from disk not covered.", "6 (C14)"),
 "C15": ("A ccache file rendered by an independent writer (harness, from the MIT format text) for versions 1-4 from a symbolic model (principals, key, times, is_skey, flags, 0..1 addresses/authdata, tickets, v4 header field, configuration entry) parses to exactly the model; GetEntry/Contains return the first credential whose server name equals the query, GetEntries drops exactly the X-CACHECONF entries in order and the accessors do not disturb the parsed list.",
         BASE_NOTE + "Counts/lengths as registered (quick: <=2 credentials); client.NewFromCCache (ASN.1 ticket decoding) not covered in this revision.", "6 (C15)"),
 "C17": ("Layout: Wrap/MIC Marshal produce the RFC 4121 4.2.6 layout byte for byte for symbolic flags/EC/RRC/64-bit sequence numbers and Unmarshal inverts it; Unmarshal errors exactly when token id, filler, direction flag or EC is unacceptable, for EVERY token of the registered lengths and both expected directions. Checksum: SetCheckSum/SetChecksum store the RFC checksum of payload|header(EC=RRC=0) for all six etypes, keys, usages, payload contents (payload lengths 0,1,2,17; thorough 100,300); Verify accepts exactly that value; any change of payload, flags, sequence number, key or usage fails (idealised MAC); initiator constructors use usages 24/25.",
         BASE_NOTE + "Primitives uninterpreted as for C05/C07. RRC is not protected for unsealed tokens by RFC 4121 (not in the statement).", "6 (C17)"),
}

NOT_APPLICABLE = {
}
for i in range(1, 21):
    pid = "C%02d" % i
    if pid not in CLAIMED and pid not in NOT_APPLICABLE:
        NOT_APPLICABLE[pid] = "check not registered yet in this revision (engine and harnesses under construction; see DESIGN.md section 10 build order)"

checks = []
for pid in sorted(CLAIMED):
    text, note, ref = CLAIMED[pid]
    checks.append({
        "property_id": pid,
        "quick_cmd": "./check %s quick" % pid,
        "thorough_cmd": "./check %s thorough" % pid,
        "evidence_file": "/verif/evidence/%s.json" % pid,
        "replay_cmd_template": "./check %s quick   # replays are regenerated: the check re-derives the counterexample and replays it natively; recorded inputs are in {path}" % pid,
        "engine": "gosym",
        "level_claimed": {"category": "model_checking", "text": text, "design_ref": "DESIGN.md section " + ref},
        "level_note": note,
        "technique": TECH,
    })

m = {
 "version": 1,
 "setup_cmd": "cd /verif/engine && GOFLAGS=-mod=mod GOPROXY=off GOSUMDB=off GOTOOLCHAIN=local go build -o /verif/bin/gosym .",
 "hooks": {
   "guard": "verif",
   "enable": "no hooks are compiled into /repo: harnesses and the zzverif runtime package are injected by overlay only (packages.Config.Overlay for the encoder, go test -overlay for native replay)",
   "baseline_off_cmd": "cd /repo/v8 && GOFLAGS=-mod=mod GOPROXY=off go test -vet=off -count=1 -timeout 25m ./...",
   "source_commits": [],
   "add_only": True,
 },
 "engines": [{"name": "gosym", "path": "/verif/engine", "serves_properties": sorted(CLAIMED), "kind_free_text": "symbolic interpreter for go/ssa written for this task; SMT-LIB2 over a pipe to z3 5.1.0; stateless re-execution with decision vectors; native replay through go test -overlay"}],
 "checks": checks,
 "not_applicable": [{"property_id": k, "reason": v} for k, v in sorted(NOT_APPLICABLE.items())],
 "notes": "All checks exit 0 = held within the stated bounds, 1 = VIOLATION (replayed natively), 2 = INCONCLUSIVE (never reported as success). Known findings: /verif/KNOWN_FINDINGS.txt.",
}
json.dump(m, open(os.path.join(HERE, "MANIFEST.json"), "w"), indent=1)
print("wrote MANIFEST.json with", len(checks), "checks,", len(NOT_APPLICABLE), "not applicable")
