#!/usr/bin/env python3
"""Prints a markdown table of the numbers in /verif/evidence/*.json (used for DESIGN.md 11.8)."""
import json, glob, os
HERE = os.path.dirname(os.path.dirname(os.path.abspath(__file__)))
print('| property | tier | instances | symbolic paths | SSA instructions | SMT queries | obligations decided | native runs agreeing | solver s | wall s |')
print('|---|---|---|---|---|---|---|---|---|---|')
for f in sorted(glob.glob(os.path.join(HERE, 'evidence', 'C*.json'))):
    e = json.load(open(f)); c = e['coverage']
    print('| %s | %s | %d | %s | %s | %s | %s | %s | %s | %s |' % (e['property_id'], e.get('tier'), len(c.get('instances', [])), c.get('states'), c.get('transitions'),
          c.get('evaluations'), c.get('distinct_nontrivial'), c.get('traces_validated_against_impl'), c.get('solver_s'), e.get('wall_s')))
