#!/bin/bash
# usage: tools/try_seed.sh C05-A C05 [tier] [nlines]  -- apply a seeded change to a scratch clone of /repo, run the check against it, remove the clone
S=$1; P=$2; T=${3:-quick}
R=$(mktemp -d /tmp/try_seed.XXXXXX)
git clone -q /repo $R/repo || exit 1
git -C $R/repo apply --3way /verif/seeded/$S/patch.diff >/dev/null 2>&1 || { echo "patch does not apply"; rm -rf $R; exit 1; }
cd /verif && ./check $P $T -no-evidence -witness 0 -repo $R/repo/v8 2>&1 | grep -E "^(VIOLATION|UNCONFIRMED|INCONCLUSIVE|RESULT|KNOWN)" | cut -c1-260 | awk '{k=$1" "$4" "$5; if(!(k in s)){s[k]=1; print}}' | head -${4:-8}
rm -rf $R
