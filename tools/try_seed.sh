#!/bin/bash
# usage: tools/try_seed.sh C05-A C05 [tier]   -- apply a seeded change to /repo, run the check, undo
S=$1; P=$2; T=${3:-quick}
git -C /repo apply --3way /verif/seeded/$S/patch.diff >/dev/null 2>&1 || { echo "patch does not apply"; git -C /repo reset -q --hard HEAD; exit 1; }
./check $P $T -no-evidence 2>&1 | grep -E "^(VIOLATION|UNCONFIRMED|INCONCLUSIVE|RESULT|KNOWN)" | cut -c1-260 | awk '{k=$1" "$4" "$5; if(!(k in s)){s[k]=1; print}}' | head -${4:-8}
git -C /repo reset -q --hard HEAD
