#!/bin/bash
# usage: tools/seed_matrix.sh [seed...]  -- applies each seeded change to /repo, runs the quick check of its property
# (and of the extra properties listed below), undoes it; writes one line per (seed, property) to stdout.
cd /verif
R=${SEED_REPO:-/repo}
declare -A EXTRA=( [C03-B]="C01" [C04-A]="C17" [C09-B]="C12" [C11-B]="C10" [C13-A]="C20" [C13-B]="C20" [C05-C]="C08" [C07-C]="C08" [C07-D]="C08" [C09-D]="C12" [C02-D]="C01" [C19-C]="C07" [C11-C]="C10" )
seeds="$@"
[ -z "$seeds" ] && seeds=$(ls seeded | sort)
for S in $seeds; do
  P=${S%%-*}
  for Q in $P ${EXTRA[$S]}; do
    git -C $R reset -q --hard HEAD
    if ! git -C $R apply --3way /verif/seeded/$S/patch.diff >/dev/null 2>&1; then echo "$S $Q PATCH-DOES-NOT-APPLY"; git -C $R reset -q --hard HEAD; continue; fi
    out=$(timeout 1500 ./check $Q quick -no-evidence -witness 0 -repo $R/v8 2>&1 | grep -E "^(VIOLATION|UNCONFIRMED|INCONCLUSIVE|RESULT)")
    git -C $R reset -q --hard HEAD
    ex=$(echo "$out" | grep -o "exit=[0-9]*" | head -1)
    key=$(echo "$out" | grep "^VIOLATION" | head -1 | grep -o "key=[^ ]*" | cut -c1-110)
    nv=$(echo "$out" | grep -c "^VIOLATION")
    echo "$S $Q $ex violations=$nv $key"
  done
done
git -C $R reset -q --hard HEAD
