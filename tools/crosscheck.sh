#!/bin/bash
# usage: tools/crosscheck.sh <PROP> <instance-substring> [tier]
# Solver diff: runs the instances on ONE worker with the complete SMT-LIB session logged, replays that session through
# z3 4.8.12 (/usr/bin/z3) and cvc5 (--incremental) and compares the sequence of check-sat answers with z3 5.1.0's.
# Any "(error" line of any solver, or any differing answer, is reported as DISAGREE.
cd "$(dirname "$0")/.." || exit 2
P=$1; F=$2; T=${3:-quick}
D=$(mktemp -d /tmp/crosscheck.XXXXXX)
./check $P $T -no-evidence -witness 0 -only "$F" -workers 1 -smtlog $D/s.smt2 > $D/check.out 2>&1
n=$(grep -c "(check-sat)" $D/s.smt2)
ans() { grep -E "^(sat|unsat|unknown)$" "$1" | tr '\n' ' '; }
timeout 1800 z3-new -in < $D/s.smt2 > $D/znew.out 2>&1
timeout 1800 z3 -in < $D/s.smt2 > $D/zold.out 2>&1
grep -v "set-option :timeout\|(set-option :" $D/s.smt2 > $D/s_cvc5.smt2
timeout 1800 cvc5 --incremental --lang smt2 --produce-models < $D/s_cvc5.smt2 > $D/cvc5.out 2>&1
A=$(ans $D/znew.out); B=$(ans $D/zold.out); C=$(ans $D/cvc5.out)
errs=$(cat $D/znew.out $D/zold.out $D/cvc5.out | grep -c "(error")
unk=$(echo "$A $B $C" | tr ' ' '\n' | grep -c unknown)
verdict=AGREE
cmp2() { # $1 reference answers, $2 other answers, $3 solver name: equal, or a proper prefix when the solver ran out of time
  if [ "$1" = "$2" ]; then return; fi
  case "$1" in "$2"*) verdict="$verdict PREFIX-ONLY($3 answered $(echo $2 | wc -w) of $(echo $1 | wc -w), all agreeing; it ran out of time)";; *) verdict="$verdict DISAGREE($3)";; esac
}
cmp2 "$A" "$B" z3-4.8.12
cmp2 "$A" "$C" cvc5
[ "$errs" != "0" ] && verdict="$verdict ERRORS=$errs"
echo "CROSSCHECK property=$P instances~$F queries=$n answers: z3-5.1.0=$(echo $A | wc -w) z3-4.8.12=$(echo $B | wc -w) cvc5=$(echo $C | wc -w) unknown=$unk verdict=$verdict"
case "$verdict" in *DISAGREE*|*ERRORS*) echo "  kept: $D";; *) rm -rf $D;; esac
