package types

import (
	"github.com/jcmturner/gofork/encoding/asn1"
	"github.com/jcmturner/gokrb5/v8/zzverif"
)

// VH_C13_Flags: RFC 4120 5.2.8 bit numbering (bit 0 is the most significant bit of the first octet).
func VH_C13_Flags() {
	i := zzverif.Int()
	j := zzverif.Int()
	zzverif.Assume(i >= 0 && i < 32 && j >= 0 && j < 32)
	f := NewKrbFlags()
	zzverif.Assert("newflags-32-zero-bits", f.BitLength == 32 && len(f.Bytes) == 4 && f.Bytes[0] == 0 && f.Bytes[1] == 0 && f.Bytes[2] == 0 && f.Bytes[3] == 0)
	for k := range f.Bytes {
		f.Bytes[k] = zzverif.Byte()
	}
	before := IsFlagSet(&f, j)
	spec := f.Bytes[j/8]&(0x80>>(uint(j)%8)) != 0
	zzverif.Assert("isflagset-msb-first", before == spec)
	SetFlag(&f, i)
	zzverif.Assert("set-then-isset", IsFlagSet(&f, i))
	if i != j {
		zzverif.Assert("set-leaves-others", IsFlagSet(&f, j) == before)
	}
	UnsetFlag(&f, i)
	zzverif.Assert("unset-then-clear", !IsFlagSet(&f, i))
	if i != j {
		zzverif.Assert("unset-leaves-others", IsFlagSet(&f, j) == before)
	}
	zzverif.Assert("bitlength-32", f.BitLength == 32 && len(f.Bytes) == 4)
	zzverif.Reach("done")
}

// VH_C13_FlagsFromZeroValue: flags assembled on a zero-value (or short) BIT STRING still come out as
// KerberosFlags ::= BIT STRING (SIZE (32..MAX)) with the flag at its RFC 4120 position.
func VH_C13_FlagsFromZeroValue() {
	i := zzverif.Int()
	j := zzverif.Int()
	zzverif.Assume(i >= 0 && i < 32 && j >= 0 && j < 32)
	var f asn1.BitString
	n := zzverif.Choose(0, 3) // a bit string of 0..3 octets, e.g. as decoded from a peer
	for k := 0; k < n; k++ {
		f.Bytes = append(f.Bytes, zzverif.Byte())
	}
	f.BitLength = 8 * n
	before := j/8 < n && f.Bytes[j/8]&(0x80>>(uint(j)%8)) != 0
	SetFlag(&f, i)
	zzverif.Assert("at-least-32-bits-after-set", f.BitLength >= 32 && len(f.Bytes)*8 >= f.BitLength)
	zzverif.Assert("set-then-isset", IsFlagSet(&f, i))
	zzverif.Assert("flag-at-rfc-position", len(f.Bytes) > i/8 && f.Bytes[i/8]&(0x80>>(uint(i)%8)) != 0)
	if i != j {
		zzverif.Assert("set-leaves-others", IsFlagSet(&f, j) == before)
	}
	var g asn1.BitString
	UnsetFlag(&g, i)
	zzverif.Assert("at-least-32-bits-after-unset", g.BitLength >= 32 && len(g.Bytes)*8 >= g.BitLength)
	zzverif.Reach("done")
}
