package asn1tools

import "github.com/jcmturner/gokrb5/v8/zzverif"

// VH_C13_LengthRoundTrip: MarshalLengthBytes is the DER definite length (minimal octets) and
// GetLengthFromASN / GetNumberBytesInLengthHeader invert it, for every l in [0, 2^31).
func VH_C13_LengthRoundTrip() {
	l := zzverif.Int()
	zzverif.Assume(l >= 0 && l < 1<<31)
	lb := MarshalLengthBytes(l)
	b := append([]byte{0x30}, lb...)
	zzverif.Reach("marshalled")
	zzverif.Assert("length-roundtrip", GetLengthFromASN(b) == l)
	zzverif.Assert("length-header-size", GetNumberBytesInLengthHeader(b) == len(lb))
	if l <= 127 {
		zzverif.Reach("short-form")
		zzverif.Assert("der-short-form", len(lb) == 1 && int(lb[0]) == l)
	} else {
		zzverif.Reach("long-form")
		n := len(lb) - 1
		zzverif.Assert("der-long-form-first-octet", int(lb[0]) == 128+n)
		zzverif.Assert("der-minimal-octets", lb[1] != 0)
		// big-endian value of the following octets is l
		v := 0
		for _, x := range lb[1:] {
			v = v<<8 | int(x)
		}
		zzverif.Assert("der-long-form-value", v == l)
	}
}


// VH_C04_LengthHelpers: arbitrary bytes into the length-octet helpers.
func VH_C04_LengthHelpers() {
	n := zzverif.Param("n")
	b := zzverif.Bytes(n)
	GetLengthFromASN(b)
	GetNumberBytesInLengthHeader(b)
	zzverif.Reach("returned")
}
