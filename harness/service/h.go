package service

import (
	"time"

	"github.com/jcmturner/gokrb5/v8/iana/flags"
	"github.com/jcmturner/gokrb5/v8/keytab"
	"github.com/jcmturner/gokrb5/v8/messages"
	"github.com/jcmturner/gokrb5/v8/types"
	"github.com/jcmturner/gokrb5/v8/zzverif"
)

func vhName(n, slen int) types.PrincipalName {
	var pn types.PrincipalName
	pn.NameType = zzverif.Int32()
	for i := 0; i < n; i++ {
		pn.NameString = append(pn.NameString, zzverif.String(slen))
	}
	return pn
}

func vhNameEq(a, b types.PrincipalName) bool {
	if len(a.NameString) != len(b.NameString) {
		return false
	}
	ok := true
	for i := range a.NameString {
		ok = zzverif.And(ok, a.NameString[i] == b.NameString[i])
	}
	return ok
}

func vhAddrIn(l []types.HostAddress, h types.HostAddress) bool {
	in := false
	for _, a := range l {
		in = zzverif.Or(in, zzverif.And(a.AddrType == h.AddrType, zzverif.EqBytes(a.Address, h.Address)))
	}
	return in
}

func vhErrCode(err error) int32 {
	if k, ok := err.(messages.KRBError); ok {
		return k.ErrorCode
	}
	return -1
}

// VH_C01_VerifyAPREQ: service.VerifyAPREQ accepts an AP-REQ exactly when RFC 4120 3.2.3 says so.
// Decryption is an uninterpreted authenticity predicate, the ASN.1 decoders return arbitrary values
// of their Go types (what an attacker can make them return), the clock is symbolic.
func VH_C01_VerifyAPREQ() {
	nEntries, override, pacOn, prepop := zzverif.Param("entries"), zzverif.Param("override"), zzverif.Param("pac"), zzverif.Param("prepopulated")
	kt := keytab.New()
	for i := 0; i < nEntries; i++ {
		kt.VHAddEntry(zzverif.String(1), []string{zzverif.String(1)}, zzverif.Int32(), zzverif.Uint32(), zzverif.Bytes(1), time.Unix(int64(zzverif.Int32()), 0))
	}
	var a messages.APReq
	a.Ticket.Realm = zzverif.String(1)
	a.Ticket.SName = vhName(zzverif.Choose(1, 2), 1)
	a.Ticket.EncPart = types.EncryptedData{EType: zzverif.Int32(), KVNO: zzverif.Int(), Cipher: zzverif.Bytes(1)}
	a.EncryptedAuthenticator = types.EncryptedData{EType: zzverif.Int32(), KVNO: zzverif.Int(), Cipher: zzverif.Bytes(1)}
	if prepop == 1 {
		// fields that are never on the wire may nevertheless arrive non-zero (the decoder fills optional trailing fields)
		a.Ticket.DecryptedEncPart.Key = types.EncryptionKey{KeyType: zzverif.Int32(), KeyValue: zzverif.Bytes(1)}
		a.Ticket.DecryptedEncPart.CName = vhName(1, 1)
		a.Ticket.DecryptedEncPart.CRealm = zzverif.String(1)
		a.Ticket.DecryptedEncPart.EndTime = zzverif.AnyTime()
		// ... including elements that are OPTIONAL in the sealed part (a decoder leaves them alone when absent)
		a.Ticket.DecryptedEncPart.StartTime = zzverif.AnyTime()
		a.Ticket.DecryptedEncPart.RenewTill = zzverif.AnyTime()
		a.Ticket.DecryptedEncPart.CAddr = types.HostAddresses{{AddrType: zzverif.Int32(), Address: zzverif.Bytes(1)}}
		a.Authenticator.CName = vhName(1, 1)
		a.Authenticator.CRealm = zzverif.String(1)
	}
	d := time.Duration(zzverif.Int64())
	zzverif.Assume(d > 0 && d < 1<<50)
	cAddr := types.HostAddress{AddrType: zzverif.Int32(), Address: zzverif.Bytes(1)}
	reqAddr := zzverif.Bool()
	opts := []func(*Settings){MaxClockSkew(d), ClientAddress(cAddr), RequireHostAddr(reqAddr), DecodePAC(pacOn == 1)}
	snameEff := a.Ticket.SName
	if override == 1 {
		ov := zzverif.String(1)
		opts = append(opts, KeytabPrincipal(ov))
		snameEff = types.PrincipalName{NameString: []string{ov}}
	}
	s := NewSettings(kt, opts...)
	wireRealm, wireSName, wireEnc, wireAuth := a.Ticket.Realm, a.Ticket.SName, a.Ticket.EncPart, a.EncryptedAuthenticator

	ok, creds, err := VerifyAPREQ(&a, s)
	now := zzverif.Now()

	// ---- the RFC 4120 3.2.3 conditions, recomputed from what the code was given -----------------------
	key, _, kerr := kt.GetEncryptionKey(snameEff, wireRealm, wireEnc.KVNO, wireEnc.EType) // semantics: C14
	nDec := zzverif.CallCount("crypto.DecryptEncPart")
	tktAuth, tktDecoded, authAuth, authDecoded := false, false, false, false
	var tktKeyOK, tktUsageOK, authKeyOK, authUsageOK bool
	if nDec >= 1 {
		tktAuth = zzverif.CallOK("crypto.DecryptEncPart", 0)
		ed := zzverif.CallArg("crypto.DecryptEncPart", 0, 0).(types.EncryptedData)
		k := zzverif.CallArg("crypto.DecryptEncPart", 0, 1).(types.EncryptionKey)
		u := zzverif.CallArg("crypto.DecryptEncPart", 0, 2).(uint32)
		tktKeyOK = zzverif.All(kerr == nil, k.KeyType == key.KeyType, zzverif.EqBytes(k.KeyValue, key.KeyValue), ed.EType == wireEnc.EType, zzverif.EqBytes(ed.Cipher, wireEnc.Cipher))
		tktUsageOK = u == 2
	}
	if zzverif.CallCount("EncTicketPart).Unmarshal") >= 1 {
		tktDecoded = zzverif.CallOK("EncTicketPart).Unmarshal", 0)
	}
	tk := a.Ticket.DecryptedEncPart
	if tktDecoded {
		// what the KDC sealed: the plaintext the verifier decoded, decoded once more into a fresh value
		// (the same bytes decode to the same value; nothing the request brought along can show through)
		var sealed messages.EncTicketPart
		if sealed.Unmarshal(zzverif.CallArg("EncTicketPart).Unmarshal", 0, 1).([]byte)) == nil {
			tk = sealed
		}
	}
	if nDec >= 2 {
		authAuth = zzverif.CallOK("crypto.DecryptEncPart", 1)
		ed := zzverif.CallArg("crypto.DecryptEncPart", 1, 0).(types.EncryptedData)
		k := zzverif.CallArg("crypto.DecryptEncPart", 1, 1).(types.EncryptionKey)
		u := zzverif.CallArg("crypto.DecryptEncPart", 1, 2).(uint32)
		authKeyOK = zzverif.All(k.KeyType == tk.Key.KeyType, zzverif.EqBytes(k.KeyValue, tk.Key.KeyValue), ed.EType == wireAuth.EType, zzverif.EqBytes(ed.Cipher, wireAuth.Cipher))
		want := uint32(11) // AP-REQ authenticator
		if wireSName.NameString[0] == "krbtgt" {
			want = 7 // TGS-REQ PA-TGS-REQ AP-REQ authenticator
		}
		authUsageOK = u == want
	}
	if zzverif.CallCount("Authenticator).Unmarshal") >= 1 {
		authDecoded = zzverif.CallOK("Authenticator).Unmarshal", 0)
	}
	au := a.Authenticator
	pacFailed := false
	if zzverif.CallCount("Ticket).GetPACType") >= 1 {
		pacFailed = !zzverif.CallOK("Ticket).GetPACType", 0)
	}

	if ok {
		zzverif.Reach("accepted")
		zzverif.Assert("accept-no-error", err == nil)
		zzverif.Assert("accept-key-selected-by-sname-realm-kvno-etype", tktKeyOK)
		zzverif.Assert("accept-ticket-decrypted-authentic-usage-2", zzverif.All(nDec >= 1, tktAuth, tktUsageOK, tktDecoded))
		zzverif.Assert("accept-not-before-start", tk.StartTime.Sub(now) <= d)
		zzverif.Assert("accept-not-invalid", !types.IsFlagSet(&tk.Flags, flags.Invalid))
		zzverif.Assert("accept-not-after-end", now.Sub(tk.EndTime) <= d)
		zzverif.Assert("accept-authenticator-decrypted-with-session-key", zzverif.All(nDec >= 2, authAuth, authKeyOK, authDecoded))
		zzverif.Assert("accept-authenticator-key-usage", authUsageOK)
		zzverif.Assert("accept-cname-match", vhNameEq(au.CName, tk.CName))
		zzverif.Assert("accept-crealm-match", au.CRealm == tk.CRealm)
		ct := au.CTime.Add(time.Duration(au.Cusec) * time.Microsecond)
		zzverif.Assert("accept-authenticator-within-skew", zzverif.And(now.Sub(ct) <= d, ct.Sub(now) <= d))
		zzverif.Assert("accept-address-listed", zzverif.Or(len(tk.CAddr) == 0, vhAddrIn(tk.CAddr, cAddr)))
		zzverif.Assert("accept-required-host-address-present", zzverif.Or(!reqAddr, len(tk.CAddr) > 0))
		zzverif.Assert("accept-pac-not-failed", !pacFailed)
		// identity handed to the application: sealed in the ticket by the KDC
		zzverif.Assert("identity-cname-from-ticket", vhNameEq(creds.CName(), tk.CName))
		zzverif.Assert("identity-realm-from-ticket", creds.Domain() == tk.CRealm)
		zzverif.Assert("identity-expiry-from-ticket", creds.ValidUntil().Equal(tk.EndTime))
		zzverif.Assert("identity-authenticated", creds.Authenticated())
	} else {
		zzverif.Reach("rejected")
		zzverif.Assert("reject-has-error", err != nil)
		// a request that meets every condition is not rejected
		ct := au.CTime.Add(time.Duration(au.Cusec) * time.Microsecond)
		all := zzverif.All(kerr == nil, nDec >= 2, tktAuth, tktDecoded, authAuth, authDecoded,
			tk.StartTime.Sub(now) <= d, !types.IsFlagSet(&tk.Flags, flags.Invalid), now.Sub(tk.EndTime) <= d,
			vhNameEq(au.CName, tk.CName), au.CRealm == tk.CRealm, now.Sub(ct) <= d, ct.Sub(now) <= d,
			zzverif.Or(len(tk.CAddr) == 0, vhAddrIn(tk.CAddr, cAddr)), zzverif.Or(!reqAddr, len(tk.CAddr) > 0), !pacFailed)
		zzverif.Assert("valid-request-not-rejected", !all)
		// (which error code a rejection carries when several conditions fail at once is not part of the property: not asserted)
	}
}

// VH_C01_ReplayFromAnotherAddress: the same AP-REQ presented twice to the service, the second time arriving
// from another client address (the SPNEGO handler passes the connection's address as ClientAddress).  Where it
// comes from is not part of an authenticator's identity: if the first presentation was accepted, the second is
// a replay.
func VH_C01_ReplayFromAnotherAddress() {
	kt := keytab.New()
	kt.VHAddEntry(zzverif.String(1), []string{zzverif.String(1)}, zzverif.Int32(), zzverif.Uint32(), zzverif.Bytes(1), time.Unix(int64(zzverif.Int32()), 0))
	var a messages.APReq
	a.Ticket.Realm = zzverif.String(1)
	a.Ticket.SName = vhName(1, 1)
	a.Ticket.EncPart = types.EncryptedData{EType: zzverif.Int32(), KVNO: zzverif.Int(), Cipher: zzverif.Bytes(1)}
	a.EncryptedAuthenticator = types.EncryptedData{EType: zzverif.Int32(), KVNO: zzverif.Int(), Cipher: zzverif.Bytes(1)}
	b := a
	d := 5 * time.Minute
	addr1 := types.HostAddress{AddrType: zzverif.Int32(), Address: zzverif.Bytes(1)}
	addr2 := types.HostAddress{AddrType: zzverif.Int32(), Address: zzverif.Bytes(1)}
	ok1, _, _ := VerifyAPREQ(&a, NewSettings(kt, MaxClockSkew(d), ClientAddress(addr1)))
	ok2, _, err2 := VerifyAPREQ(&b, NewSettings(kt, MaxClockSkew(d), ClientAddress(addr2)))
	if ok1 {
		zzverif.Reach("first-accepted")
		zzverif.Assert("second-presentation-is-a-replay-wherever-it-comes-from", !ok2 && err2 != nil)
	} else {
		zzverif.Reach("first-rejected")
	}
}

// ---- C02: an authenticator is accepted at most once while it remains acceptable ---------------------------

func vhAuth(cname string, ct time.Time, cusec int) types.Authenticator {
	return types.Authenticator{AVNO: 5, CRealm: "R", CName: types.PrincipalName{NameType: 1, NameString: []string{cname}}, CTime: ct, Cusec: cusec}
}

func vhSvc(n string) types.PrincipalName {
	return types.PrincipalName{NameType: 2, NameString: []string{n}}
}

func vhNewCache() *Cache { return &Cache{entries: make(map[string]clientEntries)} }

// VH_C02_Sequential: first presentation accepted, exact repeat rejected, different client or instant accepted.
func VH_C02_Sequential() {
	c := vhNewCache()
	ct := zzverif.AnyTime()
	cn := zzverif.String(1)
	a := vhAuth(cn, ct, 7)
	zzverif.Assert("first-presentation-accepted", !c.IsReplay(vhSvc("s"), a))
	zzverif.Assert("exact-repeat-is-a-replay", c.IsReplay(vhSvc("s"), a))
	cn2, ct2 := zzverif.String(1), zzverif.AnyTime()
	zzverif.Assume(cn2 != cn || !ct2.Equal(ct))
	zzverif.Assert("different-client-or-instant-is-not-a-replay", !c.IsReplay(vhSvc("s"), vhAuth(cn2, ct2, 7)))
	zzverif.Assert("first-still-a-replay", c.IsReplay(vhSvc("s"), a))
	zzverif.Reach("done")
}

// VH_C02_SameInstantOtherZone: the same authenticator decoded twice: its client time is the same instant
// but, as the ASN.1 decoder produces for a GeneralizedTime with a zone offset, in a Location object of
// its own each time.  It is the same authenticator: the second presentation is a replay.
func VH_C02_SameInstantOtherZone() {
	c := vhNewCache()
	ct := zzverif.AnyTime()
	a1 := vhAuth("c", ct.In(time.FixedZone("", 5400)), 7)
	a2 := vhAuth("c", ct.In(time.FixedZone("", 5400)), 7)
	a3 := vhAuth("c", ct.UTC(), 7)
	zzverif.Assert("first-presentation-accepted", !c.IsReplay(vhSvc("s"), a1))
	zzverif.Assert("same-instant-decoded-again-is-a-replay", c.IsReplay(vhSvc("s"), a2))
	zzverif.Assert("same-instant-in-utc-is-a-replay", c.IsReplay(vhSvc("s"), a3))
	zzverif.Reach("done")
}

// VH_C02_NameEncoding: client names that differ only in how a '/' splits them are different clients.
func VH_C02_NameEncoding() {
	c := vhNewCache()
	ct := zzverif.AnyTime()
	a1 := types.Authenticator{CRealm: "R", CName: types.PrincipalName{NameString: []string{"a", "b"}}, CTime: ct}
	a2 := types.Authenticator{CRealm: "R", CName: types.PrincipalName{NameString: []string{"a/b"}}, CTime: ct}
	zzverif.Assert("first-presentation-accepted", !c.IsReplay(vhSvc("s"), a1))
	zzverif.Assert("another-client-with-the-same-timestamp-is-not-a-replay", !c.IsReplay(vhSvc("s"), a2))
	zzverif.Reach("done")
}

// VH_C02_TwoServices: the same authenticator instant presented to another service in between does not
// make the cache forget the first presentation.
func VH_C02_TwoServices() {
	c := vhNewCache()
	a := vhAuth(zzverif.String(1), zzverif.AnyTime(), 3)
	zzverif.Assert("first-presentation-accepted", !c.IsReplay(vhSvc("s1"), a))
	c.IsReplay(vhSvc("s2"), a) // whatever the verdict for the other service
	zzverif.Assert("replay-to-first-service-still-detected", c.IsReplay(vhSvc("s1"), a))
	zzverif.Reach("done")
}

// VH_C02_Cleanup: clean-up may only drop an entry whose authenticator can no longer pass the skew check.
func VH_C02_Cleanup() {
	c := vhNewCache()
	d := time.Duration(zzverif.Int64())
	zzverif.Assume(d > 0 && d < 1<<50)
	ct := zzverif.AnyTime()
	a := vhAuth("c", ct, 0)
	t0 := zzverif.Now()
	zzverif.Assume(t0.Sub(ct) <= d && ct.Sub(t0) <= d) // acceptable when first presented
	zzverif.Assert("first-presentation-accepted", !c.IsReplay(vhSvc("s"), a))
	zzverif.AdvanceClock()
	c.ClearOldEntries(d)
	zzverif.AdvanceClock()
	t2 := zzverif.Now()
	zzverif.Assume(t2.Sub(ct) <= d && ct.Sub(t2) <= d) // still inside the skew window
	zzverif.Assert("replay-detected-after-cleanup-while-still-acceptable", c.IsReplay(vhSvc("s"), a))
	zzverif.Reach("done")
}

// VH_C02_ConcurrentSame: goroutines presenting the same authenticator at once: at most one is accepted.
func VH_C02_ConcurrentSame() {
	n := zzverif.Param("threads")
	c := vhNewCache()
	a := vhAuth(zzverif.String(1), zzverif.AnyTime(), 5)
	res := make([]bool, n)
	var fs []func()
	for i := 0; i < n; i++ {
		i := i
		fs = append(fs, func() { res[i] = c.IsReplay(vhSvc("s"), a) })
	}
	zzverif.Par(fs...)
	accepted := 0
	for _, r := range res {
		if !r {
			accepted++
		}
	}
	zzverif.Assert("identical-authenticator-accepted-at-most-once", accepted <= 1)
	zzverif.Assert("identical-authenticator-accepted-at-least-once", accepted >= 1)
	zzverif.Reach("done")
}

// VH_C02_ConcurrentDistinct: distinct authenticators presented at once are all accepted; a clean-up
// running at the same time changes nothing (everything is fresh).
func VH_C02_ConcurrentDistinct() {
	c := vhNewCache()
	ct := zzverif.AnyTime()
	cn1, cn2 := zzverif.String(1), zzverif.String(1)
	ct2 := zzverif.AnyTime()
	zzverif.Assume(cn1 != cn2 || !ct.Equal(ct2))
	var r1, r2 bool
	zzverif.Par(func() { r1 = c.IsReplay(vhSvc("s"), vhAuth(cn1, ct, 1)) }, func() { r2 = c.IsReplay(vhSvc("s"), vhAuth(cn2, ct2, 1)) }, func() { c.ClearOldEntries(time.Hour) })
	zzverif.Assert("distinct-authenticators-not-mistaken-for-replays", !r1 && !r2)
	zzverif.Reach("done")
}

// VH_C02_SweepVsPresentation: a client whose only tracked authenticator has expired; a clean-up runs
// while the client presents a fresh authenticator.  Whatever the interleaving, the fresh one is accepted
// once and is still tracked afterwards.
func VH_C02_SweepVsPresentation() {
	c := vhNewCache()
	d := 5 * time.Minute
	t0 := zzverif.Now()
	zzverif.Assert("first-presentation-accepted", !c.IsReplay(vhSvc("s"), vhAuth("c", t0, 0)))
	zzverif.AdvanceClock()
	t1 := zzverif.Now()
	zzverif.Assume(t1.Sub(t0) > d) // the old authenticator can no longer pass the skew check
	fresh := vhAuth("c", t1, 1)
	var r bool
	zzverif.Par(func() { c.ClearOldEntries(d) }, func() { r = c.IsReplay(vhSvc("s"), fresh) })
	zzverif.Assert("fresh-authenticator-accepted", !r)
	zzverif.Assert("fresh-authenticator-still-tracked-after-the-sweep", c.IsReplay(vhSvc("s"), fresh))
	zzverif.Reach("done")
}

// VH_C02_SweeperSkew: two services of one process with different clock skews share the replay cache (it is a
// singleton) and its background sweeper.  The sweeper - the goroutine GetReplayCache starts, run here through
// one wake-up - must not drop an authenticator that the service with the larger skew would still accept.
func VH_C02_SweeperSkew() {
	d1, d2 := time.Minute, 10*time.Minute
	c1 := GetReplayCache(d1) // the first caller starts the sweeper
	c2 := GetReplayCache(d2)
	zzverif.Assert("one-cache-per-process", c1 == c2)
	ct := zzverif.Now()
	a := vhAuth("c", ct, 0)
	zzverif.Assert("first-presentation-accepted", !c2.IsReplay(vhSvc("s"), a))
	zzverif.Background(0, 1) // the sweeper sleeps, wakes up and sweeps once
	now := zzverif.Now()
	zzverif.Assume(now.Sub(ct) <= d2) // the service with skew d2 would still accept the authenticator
	zzverif.Reach("swept")
	zzverif.Assert("replay-detected-after-the-sweepers-pass", c2.IsReplay(vhSvc("s"), a))
}

// VH_C02_History: every history of k operations over {present a1, present a2, clean-up} from the empty
// cache, the clock advancing arbitrarily between operations.  A presentation of an authenticator that
// was accepted before and is still inside the skew window must be reported as a replay; an
// authenticator never presented before must be accepted.
func VH_C02_History() {
	k := zzverif.Param("k")
	c := vhNewCache()
	d := time.Duration(zzverif.Int64())
	zzverif.Assume(d > 0 && d < 1<<50)
	ct := [2]time.Time{zzverif.AnyTime(), zzverif.AnyTime()}
	zzverif.Assume(!ct[0].Equal(ct[1]))
	auth := [2]types.Authenticator{vhAuth("c", ct[0], 0), vhAuth("c", ct[1], 0)}
	var accepted, presented [2]bool
	for step := 0; step < k; step++ {
		zzverif.AdvanceClock()
		now := zzverif.Now()
		op := zzverif.Choose(0, 2)
		if op == 2 {
			c.ClearOldEntries(d)
			continue
		}
		// the service only consults the cache for authenticators that passed the skew check
		zzverif.Assume(now.Sub(ct[op]) <= d && ct[op].Sub(now) <= d)
		replay := c.IsReplay(vhSvc("s"), auth[op])
		if accepted[op] {
			zzverif.Assert("accepted-authenticator-still-in-window-is-a-replay", replay)
		}
		if !presented[op] {
			zzverif.Assert("authenticator-never-presented-is-accepted", !replay)
		}
		presented[op] = true
		if !replay {
			accepted[op] = true
		}
	}
	zzverif.Reach("done")
}

// VH_C02_BusyClient: n authenticators of one client are being tracked (all inside the skew window); the
// one with the oldest client time is presented again.
func VH_C02_BusyClient() {
	n := zzverif.Param("n")
	c := vhNewCache()
	base := time.Unix(1700000000, 0).UTC()
	for i := 0; i < n; i++ {
		if c.IsReplay(vhSvc("s"), vhAuth("c", base.Add(time.Duration(i)*time.Microsecond), 0)) {
			zzverif.Assert("distinct-authenticators-accepted", false)
		}
	}
	zzverif.Assert("oldest-tracked-authenticator-still-a-replay", c.IsReplay(vhSvc("s"), vhAuth("c", base, 0)))
	zzverif.Reach("done")
}
