package messages

import (
	"io"
	"log"
	"time"

	"github.com/jcmturner/gofork/encoding/asn1"
	"github.com/jcmturner/gokrb5/v8/config"
	"github.com/jcmturner/gokrb5/v8/credentials"
	"github.com/jcmturner/gokrb5/v8/crypto"
	"github.com/jcmturner/gokrb5/v8/keytab"
	"github.com/jcmturner/gokrb5/v8/types"
	"github.com/jcmturner/gokrb5/v8/zzverif"
)

func vhName(n, slen int) types.PrincipalName {
	var pn types.PrincipalName
	pn.NameType = zzverif.Int32()
	for i := 0; i < n; i++ {
		pn.NameString = append(pn.NameString, zzverif.String(slen))
	}
	return pn
}

func vhNameEq(a, b types.PrincipalName) bool {
	if len(a.NameString) != len(b.NameString) {
		return false
	}
	ok := true
	for i := range a.NameString {
		ok = zzverif.And(ok, a.NameString[i] == b.NameString[i])
	}
	return ok
}

func vhAddrEq(a, b types.HostAddress) bool {
	return zzverif.And(a.AddrType == b.AddrType, zzverif.EqBytes(a.Address, b.Address))
}

func vhAddrs(n int) []types.HostAddress {
	var l []types.HostAddress
	for i := 0; i < n; i++ {
		l = append(l, types.HostAddress{AddrType: zzverif.Int32(), Address: zzverif.Bytes(1)})
	}
	return l
}

// every element of a is in b
func vhAddrSubset(a, b []types.HostAddress) bool {
	ok := true
	for _, x := range a {
		in := false
		for _, y := range b {
			in = zzverif.Or(in, vhAddrEq(x, y))
		}
		ok = zzverif.And(ok, in)
	}
	return ok
}

// ---- C09: an AS-REP is accepted only if it answers the AS-REQ that was sent ----------------------------

func VH_C09_ASRepVerify() {
	kind := zzverif.Param("cred") // 0 password, 1 keytab
	var req ASReq
	req.ReqBody.CName = vhName(zzverif.Choose(1, 2), 1)
	req.ReqBody.Realm = zzverif.String(1)
	req.ReqBody.SName = vhName(zzverif.Choose(1, 2), 1)
	req.ReqBody.Nonce = zzverif.Int()
	req.ReqBody.Addresses = vhAddrs(zzverif.Choose(0, 1))
	var k ASRep
	k.CName = vhName(zzverif.Choose(1, 2), 1)
	k.CRealm = zzverif.String(1)
	k.EncPart = types.EncryptedData{EType: int32(zzverif.Param("etype")), KVNO: zzverif.Int(), Cipher: zzverif.Bytes(1)}
	var cfg config.Config
	cfg.LibDefaults.Clockskew = time.Duration(zzverif.Int64())
	d := cfg.LibDefaults.Clockskew
	zzverif.Assume(d > 0 && d < 1<<50)
	creds := credentials.New("u", "R")
	var wantKey types.EncryptionKey
	var kerr error
	if kind == 0 {
		pw := zzverif.String(1)
		creds = creds.WithPassword(pw)
	} else {
		kt := keytab.New()
		kt.VHAddEntry(zzverif.String(1), []string{zzverif.String(1)}, zzverif.Int32(), zzverif.Uint32(), zzverif.Bytes(1), time.Unix(int64(zzverif.Int32()), 0))
		creds = creds.WithKeytab(kt)
	}
	wCName, wCRealm, wEnc := k.CName, k.CRealm, k.EncPart

	ok, err := k.Verify(&cfg, creds, req)
	now := zzverif.Now()

	// the client's own key for this reply
	if kind == 0 {
		wantKey, _, kerr = crypto.GetKeyFromPassword(creds.Password(), wCName, wCRealm, wEnc.EType, k.PAData)
	} else {
		wantKey, _, kerr = creds.Keytab().GetEncryptionKey(wCName, wCRealm, wEnc.KVNO, wEnc.EType)
	}
	n := zzverif.CallCount("crypto.DecryptEncPart")
	dec := k.DecryptedEncPart
	if ok {
		zzverif.Reach("accepted")
		zzverif.Assert("accept-no-error", err == nil)
		zzverif.Assert("accept-decrypted-once", n == 1)
		if n >= 1 {
			ed := zzverif.CallArg("crypto.DecryptEncPart", 0, 0).(types.EncryptedData)
			key := zzverif.CallArg("crypto.DecryptEncPart", 0, 1).(types.EncryptionKey)
			u := zzverif.CallArg("crypto.DecryptEncPart", 0, 2).(uint32)
			zzverif.Assert("accept-decrypted-authentic", zzverif.And(zzverif.CallOK("crypto.DecryptEncPart", 0), zzverif.EqBytes(ed.Cipher, wEnc.Cipher)))
			zzverif.Assert("accept-decrypted-with-clients-own-key", zzverif.All(kerr == nil, zzverif.EqBytes(key.KeyValue, wantKey.KeyValue), key.KeyType == wantKey.KeyType))
			zzverif.Assert("accept-key-usage-3", u == 3)
		}
		zzverif.Assert("accept-nonce-equal", dec.Nonce == req.ReqBody.Nonce)
		zzverif.Assert("accept-cname-equal", vhNameEq(wCName, req.ReqBody.CName))
		zzverif.Assert("accept-crealm-equal", wCRealm == req.ReqBody.Realm)
		zzverif.Assert("accept-sname-equal", vhNameEq(dec.SName, req.ReqBody.SName))
		zzverif.Assert("accept-srealm-equal", dec.SRealm == req.ReqBody.Realm)
		zzverif.Assert("accept-addresses", zzverif.Or(len(req.ReqBody.Addresses) == 0, zzverif.All(len(dec.CAddr) == len(req.ReqBody.Addresses), vhAddrSubset(req.ReqBody.Addresses, dec.CAddr))))
		zzverif.Assert("accept-kdc-time-within-skew", zzverif.And(now.Sub(dec.AuthTime) <= d, dec.AuthTime.Sub(now) <= d))
	} else {
		zzverif.Reach("rejected")
		zzverif.Assert("reject-has-error", err != nil)
		if n == 1 && zzverif.CallOK("crypto.DecryptEncPart", 0) && zzverif.CallCount("EncKDCRepPart).Unmarshal") == 1 && zzverif.CallOK("EncKDCRepPart).Unmarshal", 0) {
			all := zzverif.All(dec.Nonce == req.ReqBody.Nonce, vhNameEq(dec.SName, req.ReqBody.SName), dec.SRealm == req.ReqBody.Realm,
				zzverif.Or(len(req.ReqBody.Addresses) == 0, zzverif.All(len(dec.CAddr) == len(req.ReqBody.Addresses), vhAddrSubset(req.ReqBody.Addresses, dec.CAddr))),
				now.Sub(dec.AuthTime) <= d, dec.AuthTime.Sub(now) <= d)
			zzverif.Assert("matching-reply-not-rejected", !all)
		}
	}
}

// ---- C09: TGS-REP (decrypted with the TGT session key by the exchange, then verified) -----------------

func VH_C09_TGSRepVerify() {
	var req TGSReq
	req.ReqBody.CName = vhName(zzverif.Choose(1, 2), 1)
	req.ReqBody.Realm = zzverif.String(1)
	req.ReqBody.SName = vhName(zzverif.Choose(1, 2), 1)
	req.ReqBody.Nonce = zzverif.Int()
	req.ReqBody.Addresses = vhAddrs(zzverif.Choose(0, 1))
	var k TGSRep
	k.CName = vhName(zzverif.Choose(1, 2), 1)
	k.CRealm = zzverif.String(1)
	k.Ticket.Realm = zzverif.String(1)
	k.EncPart = types.EncryptedData{EType: zzverif.Int32(), KVNO: zzverif.Int(), Cipher: zzverif.Bytes(1)}
	// whatever state the reply object arrives with
	k.DecryptedEncPart.Nonce = zzverif.Int()
	k.DecryptedEncPart.SRealm = zzverif.String(1)
	var cfg config.Config
	cfg.LibDefaults.Clockskew = time.Duration(zzverif.Int64())
	d := cfg.LibDefaults.Clockskew
	zzverif.Assume(d > 0 && d < 1<<50)
	sessionKey := types.EncryptionKey{KeyType: zzverif.Int32(), KeyValue: zzverif.Bytes(1)}
	wEnc := k.EncPart

	// the sequence the client performs (client.TGSExchange)
	err := k.DecryptEncPart(sessionKey)
	ok := false
	if err == nil {
		ok, err = k.Verify(&cfg, req)
	}
	now := zzverif.Now()
	dec := k.DecryptedEncPart
	if ok {
		zzverif.Reach("accepted")
		ed := zzverif.CallArg("crypto.DecryptEncPart", 0, 0).(types.EncryptedData)
		key := zzverif.CallArg("crypto.DecryptEncPart", 0, 1).(types.EncryptionKey)
		u := zzverif.CallArg("crypto.DecryptEncPart", 0, 2).(uint32)
		zzverif.Assert("accept-decrypted-authentic", zzverif.And(zzverif.CallOK("crypto.DecryptEncPart", 0), zzverif.EqBytes(ed.Cipher, wEnc.Cipher)))
		zzverif.Assert("accept-decrypted-with-tgt-session-key", zzverif.And(zzverif.EqBytes(key.KeyValue, sessionKey.KeyValue), key.KeyType == sessionKey.KeyType))
		zzverif.Assert("accept-key-usage-8", u == 8)
		zzverif.Assert("accept-nonce-equal", dec.Nonce == req.ReqBody.Nonce)
		zzverif.Assert("accept-cname-equal", vhNameEq(k.CName, req.ReqBody.CName))
		zzverif.Assert("accept-ticket-realm-equal", k.Ticket.Realm == req.ReqBody.Realm)
		zzverif.Assert("accept-srealm-equal", dec.SRealm == req.ReqBody.Realm)
		zzverif.Assert("accept-addresses-subset", vhAddrSubset(dec.CAddr, req.ReqBody.Addresses))
		st := zzverif.And(now.Sub(dec.StartTime) <= d, dec.StartTime.Sub(now) <= d)
		at := zzverif.And(now.Sub(dec.AuthTime) <= d, dec.AuthTime.Sub(now) <= d)
		zzverif.Assert("accept-kdc-time-within-skew", zzverif.Or(st, at))
	} else {
		zzverif.Reach("rejected")
		zzverif.Assert("reject-has-error", err != nil)
	}
}

// ---- C04: structurally valid messages with empty sequences where an element is indexed ----------------

// VH_C04_APReqVerifyShapes: AP-REQ verification with every decoded shape (names of 0..2 components,
// flags of 0..4 bytes, 0..2 authorization data entries); the implicit obligations are the property.
func VH_C04_APReqVerifyShapes() {
	kt := keytab.New()
	kt.VHAddEntry(zzverif.String(1), []string{zzverif.String(1)}, zzverif.Int32(), zzverif.Uint32(), zzverif.Bytes(1), time.Unix(int64(zzverif.Int32()), 0))
	var a APReq
	a.Ticket.Realm = zzverif.String(1)
	a.Ticket.SName = vhName(zzverif.Choose(0, 2), 1)
	a.Ticket.EncPart = types.EncryptedData{EType: zzverif.Int32(), KVNO: zzverif.Int(), Cipher: zzverif.Bytes(1)}
	a.EncryptedAuthenticator = types.EncryptedData{EType: zzverif.Int32(), KVNO: zzverif.Int(), Cipher: zzverif.Bytes(1)}
	var override *types.PrincipalName
	if zzverif.Bool() {
		pn := vhName(zzverif.Choose(0, 1), 1)
		override = &pn
	}
	a.Verify(kt, time.Duration(5*time.Minute), types.HostAddress{AddrType: 2, Address: zzverif.Bytes(1)}, override)
	zzverif.Reach("returned")
}

// VH_C04_GetPACType: a decrypted ticket whose authorization data is any decoded shape.
func VH_C04_GetPACType() {
	kt := keytab.New()
	kt.VHAddEntry("R", []string{"s"}, 18, 1, zzverif.Bytes(1), time.Unix(1, 0))
	var t Ticket
	t.Realm, t.SName = "R", types.PrincipalName{NameString: []string{"s"}}
	t.EncPart = types.EncryptedData{EType: 18, KVNO: 1}
	n := zzverif.Choose(0, 2)
	for i := 0; i < n; i++ {
		t.DecryptedEncPart.AuthorizationData = append(t.DecryptedEncPart.AuthorizationData, types.AuthorizationDataEntry{ADType: zzverif.Int32(), ADData: zzverif.Bytes(1)})
	}
	t.GetPACType(kt, nil, log.New(io.Discard, "", 0))
	zzverif.Reach("returned")
}

// ---- C20: re-encoding a message after it was decrypted never puts the decrypted secrets on the wire -------

// VH_C20_MarshalAfterDecrypt: every message type that keeps its decrypted part next to the encrypted
// one; the decrypted part holds secret keys / user data (as after DecryptEncPart / DecryptAuthenticator).
func VH_C20_MarshalAfterDecrypt() {
	skey := types.EncryptionKey{KeyType: 18, KeyValue: zzverif.Secret(16)}
	sub := types.EncryptionKey{KeyType: 18, KeyValue: zzverif.Secret(16)}
	tkt := Ticket{TktVNO: 5, Realm: "R", SName: types.NewPrincipalName(2, "HTTP/h"), EncPart: types.EncryptedData{EType: 18, KVNO: 1, Cipher: zzverif.Bytes(2)}}
	tkt.DecryptedEncPart = EncTicketPart{Flags: types.NewKrbFlags(), Key: skey, CRealm: "R", CName: types.NewPrincipalName(1, "u")}
	var b []byte
	var err error
	switch zzverif.Param("type") {
	case 0:
		b, err = tkt.Marshal()
	case 1:
		a := APReq{PVNO: 5, MsgType: 14, APOptions: types.NewKrbFlags(), Ticket: tkt, EncryptedAuthenticator: types.EncryptedData{EType: 18, Cipher: zzverif.Bytes(2)}}
		a.Authenticator = types.Authenticator{AVNO: 5, CRealm: "R", CName: types.NewPrincipalName(1, "u"), SubKey: sub}
		b, err = a.Marshal()
	case 2:
		var k ASRep
		k.PVNO, k.MsgType, k.CRealm, k.CName, k.Ticket = 5, 11, "R", types.NewPrincipalName(1, "u"), tkt
		k.EncPart = types.EncryptedData{EType: 18, Cipher: zzverif.Bytes(2)}
		k.DecryptedEncPart = EncKDCRepPart{Key: sub, Nonce: 1, SRealm: "R", SName: types.NewPrincipalName(2, "krbtgt/R")}
		b, err = k.Marshal()
	case 3:
		var k TGSRep
		k.PVNO, k.MsgType, k.CRealm, k.CName, k.Ticket = 5, 13, "R", types.NewPrincipalName(1, "u"), tkt
		k.EncPart = types.EncryptedData{EType: 18, Cipher: zzverif.Bytes(2)}
		k.DecryptedEncPart = EncKDCRepPart{Key: sub, Nonce: 1, SRealm: "R", SName: types.NewPrincipalName(2, "HTTP/h")}
		b, err = k.Marshal()
	case 4:
		k := KRBPriv{PVNO: 5, MsgType: 21, EncPart: types.EncryptedData{EType: 18, Cipher: zzverif.Bytes(2)}}
		k.DecryptedEncPart = EncKrbPrivPart{UserData: sub.KeyValue} // e.g. the new password of a kpasswd request
		b, err = k.Marshal()
	case 5:
		seq := []Ticket{tkt, tkt}
		var rv asn1.RawValue
		rv, err = MarshalTicketSequence(seq)
		b = rv.Bytes
	}
	zzverif.Reach("encoded")
	zzverif.Public("wire-encoding-after-decrypt", b, err)
}

// ---- C10: the requests sent carry the configured encryption types, options and lifetimes -------------------

func vhFlagWord(f asn1.BitString) uint32 {
	var w uint32
	for i := 0; i < 4 && i < len(f.Bytes); i++ {
		w |= uint32(f.Bytes[i]) << (24 - 8*uint(i))
	}
	return w
}

func vhBit(set bool, n uint) uint32 {
	if set {
		return 1 << (31 - n)
	}
	return 0
}

func vhReqConfig() *config.Config {
	var c config.Config
	c.LibDefaults.KDCDefaultOptions = types.NewKrbFlags()
	c.LibDefaults.Forwardable, c.LibDefaults.Canonicalize, c.LibDefaults.Proxiable = zzverif.Bool(), zzverif.Bool(), zzverif.Bool()
	c.LibDefaults.RenewLifetime = time.Duration(zzverif.Int64())
	c.LibDefaults.TicketLifetime = time.Duration(zzverif.Int64())
	zzverif.Assume(c.LibDefaults.RenewLifetime >= 0 && c.LibDefaults.RenewLifetime < 1<<50)
	zzverif.Assume(c.LibDefaults.TicketLifetime > 0 && c.LibDefaults.TicketLifetime < 1<<50)
	c.LibDefaults.NoAddresses = true
	c.LibDefaults.DefaultTktEnctypeIDs = []int32{zzverif.Int32(), zzverif.Int32()}
	c.LibDefaults.DefaultTGSEnctypeIDs = []int32{zzverif.Int32()}
	return &c
}

func vhBodyFields(b KDCReqBody, c *config.Config, realm string, cname, sname types.PrincipalName, etypes []int32, renewal bool, now time.Time) {
	rl := c.LibDefaults.RenewLifetime
	zzverif.Assert("request-names-and-realm", zzverif.All(b.Realm == realm, vhNameEq(b.CName, cname), vhNameEq(b.SName, sname)))
	ok := len(b.EType) == len(etypes)
	for i := 0; ok && i < len(etypes); i++ {
		ok = zzverif.And(ok, b.EType[i] == etypes[i])
	}
	zzverif.Assert("request-carries-configured-etypes", ok)
	want := vhBit(c.LibDefaults.Forwardable, 1) | vhBit(c.LibDefaults.Proxiable, 3) | vhBit(c.LibDefaults.Canonicalize, 15) | vhBit(rl != 0 || renewal, 8) | vhBit(renewal, 30)
	zzverif.Assert("request-carries-configured-options", b.KDCOptions.BitLength == 32 && vhFlagWord(b.KDCOptions) == want)
	zzverif.Assert("till-is-now-plus-ticket-lifetime", b.Till.Equal(now.Add(c.LibDefaults.TicketLifetime)))
	if rl != 0 {
		zzverif.Reach("renewable")
		zzverif.Assert("rtime-is-now-plus-renew-lifetime", b.RTime.Equal(now.Add(rl)))
	} else {
		zzverif.Assert("no-rtime-without-renew-lifetime", b.RTime.IsZero())
	}
	zzverif.Assert("nonce-in-range", b.Nonce >= 0 && b.Nonce < 1<<31-1)
	zzverif.Assert("no-addresses-when-configured", len(b.Addresses) == 0)
}

func VH_C10_ASReqFields() {
	c := vhReqConfig()
	realm, cname, sname := zzverif.String(1), vhName(1, 1), vhName(2, 1)
	a, err := NewASReq(realm, c, cname, sname)
	now := zzverif.Now()
	zzverif.Assert("request-built", err == nil)
	zzverif.Assert("as-req-header", a.PVNO == 5 && a.MsgType == 10 && len(a.PAData) == 0)
	vhBodyFields(a.ReqBody, c, realm, cname, sname, c.LibDefaults.DefaultTktEnctypeIDs, false, now)
	zzverif.Reach("checked")
}

// VH_C10_TGSReqFields: the TGS-REQ body, and the PA-TGS-REQ: an AP-REQ with the TGT and an authenticator
// under the TGT session key (usage 7) whose checksum (usage 6) is over the encoded request body.
func VH_C10_TGSReqFields() {
	c := vhReqConfig()
	et := zzverif.Param("etype")
	realm, cname, sname := zzverif.String(1), vhName(1, 1), vhName(2, 1)
	renewal := zzverif.Bool()
	tgt := Ticket{TktVNO: 5, Realm: zzverif.String(1), SName: types.NewPrincipalName(2, "krbtgt/R"), EncPart: types.EncryptedData{EType: 18, KVNO: 1, Cipher: zzverif.Bytes(2)}}
	key := types.EncryptionKey{KeyType: int32(et), KeyValue: zzverif.Bytes(crypto.VHKeyLen(et))}
	k, err := NewTGSReq(cname, realm, c, tgt, key, sname, renewal)
	now := zzverif.Now()
	zzverif.Assert("request-built", err == nil)
	zzverif.Assert("tgs-req-header", k.PVNO == 5 && k.MsgType == 12)
	vhBodyFields(k.ReqBody, c, realm, cname, sname, c.LibDefaults.DefaultTGSEnctypeIDs, renewal, now)
	zzverif.Assert("one-pa-tgs-req", len(k.PAData) == 1 && k.PAData[0].PADataType == 1)
	if len(k.PAData) != 1 {
		return
	}
	var ap APReq
	zzverif.Assert("pa-tgs-req-is-an-ap-req", ap.Unmarshal(k.PAData[0].PADataValue) == nil)
	zzverif.Assert("ap-req-carries-the-tgt", zzverif.All(ap.PVNO == 5, ap.MsgType == 14, ap.Ticket.Realm == tgt.Realm, ap.Ticket.SName.Equal(tgt.SName), zzverif.EqBytes(ap.Ticket.EncPart.Cipher, tgt.EncPart.Cipher)))
	ab, derr := crypto.DecryptEncPart(ap.EncryptedAuthenticator, key, 7)
	zzverif.Assert("authenticator-under-tgt-session-key-usage-7", derr == nil)
	var au types.Authenticator
	zzverif.Assert("authenticator-decodes", au.Unmarshal(ab) == nil)
	bb, _ := k.ReqBody.Marshal()
	zzverif.Assert("authenticator-names-the-client", zzverif.All(au.AVNO == 5, au.CRealm == tgt.Realm, vhNameEq(au.CName, cname)))
	zzverif.Assert("checksum-over-request-body-usage-6", zzverif.And(au.Cksum.CksumType == crypto.VHCksumID(et), zzverif.EqBytes(au.Cksum.Checksum, crypto.VHSpecChecksum(et, key.KeyValue, bb, 6))))
	zzverif.Reach("checked")
}

// ---- C13: re-encoding is not disturbed by decrypting; ticket sequences are framed as DER ---------------------

// VH_C13_MarshalStableAcrossDecrypt: the encoding of a message is the same before and after its encrypted
// part was decrypted (the decrypted part is kept next to the encrypted one in the same object).
// asn1.Marshal is an uninterpreted function of the value it is given.
func VH_C13_MarshalStableAcrossDecrypt() {
	key := types.EncryptionKey{KeyType: 18, KeyValue: zzverif.Bytes(4)}
	tkt := Ticket{TktVNO: 5, Realm: zzverif.String(1), SName: vhName(2, 1), EncPart: types.EncryptedData{EType: 18, KVNO: zzverif.Int(), Cipher: zzverif.Bytes(2)}}
	dec := EncTicketPart{Flags: types.NewKrbFlags(), Key: key, CRealm: zzverif.String(1), CName: vhName(1, 1), AuthTime: zzverif.AnyTime(), EndTime: zzverif.AnyTime()}
	var b1, b2 []byte
	var e1, e2 error
	switch zzverif.Param("type") {
	case 0:
		b1, e1 = tkt.Marshal()
		tkt.DecryptedEncPart = dec
		b2, e2 = tkt.Marshal()
	case 1:
		a := APReq{PVNO: 5, MsgType: 14, APOptions: types.NewKrbFlags(), Ticket: tkt, EncryptedAuthenticator: types.EncryptedData{EType: 18, Cipher: zzverif.Bytes(2)}}
		b1, e1 = a.Marshal()
		a.Ticket.DecryptedEncPart = dec
		a.Authenticator = types.Authenticator{AVNO: 5, CRealm: zzverif.String(1), CName: vhName(1, 1), SubKey: key, CTime: zzverif.AnyTime()}
		b2, e2 = a.Marshal()
	case 2:
		var k ASRep
		k.PVNO, k.MsgType, k.CRealm, k.CName, k.Ticket = 5, 11, zzverif.String(1), vhName(1, 1), tkt
		k.EncPart = types.EncryptedData{EType: 18, Cipher: zzverif.Bytes(2)}
		b1, e1 = k.Marshal()
		k.DecryptedEncPart = EncKDCRepPart{Key: key, Nonce: zzverif.Int(), SRealm: zzverif.String(1), SName: vhName(2, 1)}
		b2, e2 = k.Marshal()
	case 3:
		var k TGSRep
		k.PVNO, k.MsgType, k.CRealm, k.CName, k.Ticket = 5, 13, zzverif.String(1), vhName(1, 1), tkt
		k.EncPart = types.EncryptedData{EType: 18, Cipher: zzverif.Bytes(2)}
		b1, e1 = k.Marshal()
		k.DecryptedEncPart = EncKDCRepPart{Key: key, Nonce: zzverif.Int(), SRealm: zzverif.String(1), SName: vhName(2, 1)}
		k.Ticket.DecryptedEncPart = dec
		b2, e2 = k.Marshal()
	default:
		k := KRBPriv{PVNO: 5, MsgType: 21, EncPart: types.EncryptedData{EType: 18, Cipher: zzverif.Bytes(2)}}
		b1, e1 = k.Marshal()
		k.DecryptedEncPart = EncKrbPrivPart{UserData: zzverif.Bytes(3), Timestamp: zzverif.AnyTime(), SequenceNumber: zzverif.Int64()}
		b2, e2 = k.Marshal()
	}
	zzverif.Reach("encoded-twice")
	zzverif.Assert("encodes", e1 == nil && e2 == nil)
	zzverif.Assert("same-encoding-after-decrypt", zzverif.EqBytes(b1, b2))
}

// VH_C13_TicketSequenceFraming: MarshalTicketSequence frames n tickets as a DER SEQUENCE: tag 0x30, the
// minimal definite length, then the tickets' encodings in order (the tickets' own encodings are opaque).
func VH_C13_TicketSequenceFraming() {
	n := zzverif.Param("n")
	var tkts []Ticket
	var want []byte
	for i := 0; i < n; i++ {
		t := Ticket{TktVNO: 5, Realm: zzverif.String(1), SName: vhName(1, 1), EncPart: types.EncryptedData{EType: 18, Cipher: zzverif.Bytes(1)}}
		tkts = append(tkts, t)
		b, err := t.Marshal()
		zzverif.Assume(err == nil)
		want = append(want, b...)
	}
	raw, err := MarshalTicketSequence(tkts)
	zzverif.Assert("encodes", err == nil)
	zzverif.Assert("context-class-constructed", raw.Class == 2 && raw.IsCompound)
	if n == 0 {
		zzverif.Assert("empty-sequence-has-no-bytes", len(raw.Bytes) == 0)
		return
	}
	var hdr []byte
	L := len(want)
	switch {
	case L < 128:
		hdr = []byte{0x30, byte(L)}
	case L < 256:
		hdr = []byte{0x30, 0x81, byte(L)}
	default:
		hdr = []byte{0x30, 0x82, byte(L >> 8), byte(L)}
	}
	zzverif.Reach("framed")
	zzverif.Assert("der-sequence-of-the-tickets-in-order", zzverif.EqBytes(raw.Bytes, append(hdr, want...)))
}

// VH_C13_DecryptLeavesEncodingAlone: a decoded ticket / AP-REQ / KRB-PRIV whose encrypted part is a genuine
// RFC ciphertext is decrypted with the REAL decryption code; the object's encoding before and after is the
// same (decryption must not write into the ciphertext it was given).
func VH_C13_DecryptLeavesEncodingAlone() {
	et, n := zzverif.Param("etype"), zzverif.Param("n")
	key := types.EncryptionKey{KeyType: int32(et), KeyValue: zzverif.Bytes(crypto.VHKeyLen(et))}
	msg, conf := zzverif.Bytes(n), zzverif.Bytes(crypto.VHConfLen(et))
	usage := uint32(2)
	switch zzverif.Param("type") {
	case 1:
		usage = 11
	case 2:
		usage = 13
	}
	cipher := crypto.VHSpecEncrypt(et, key.KeyValue, conf, msg, usage)
	orig := append([]byte{}, cipher...)
	ed := types.EncryptedData{EType: int32(et), KVNO: 1, Cipher: cipher}
	var b1, b2 []byte
	var derr error
	switch zzverif.Param("type") {
	case 0:
		t := Ticket{TktVNO: 5, Realm: "R", SName: types.NewPrincipalName(2, "s/h"), EncPart: ed}
		b1, _ = t.Marshal()
		derr = t.Decrypt(key)
		b2, _ = t.Marshal()
		zzverif.Assert("decrypt-leaves-ciphertext-alone", zzverif.EqBytes(t.EncPart.Cipher, orig))
	case 1:
		a := APReq{PVNO: 5, MsgType: 14, APOptions: types.NewKrbFlags(), EncryptedAuthenticator: ed}
		a.Ticket = Ticket{TktVNO: 5, Realm: "R", SName: types.NewPrincipalName(2, "s/h"), EncPart: types.EncryptedData{EType: 18, Cipher: zzverif.Bytes(2)}}
		b1, _ = a.Marshal()
		derr = a.DecryptAuthenticator(key)
		b2, _ = a.Marshal()
		zzverif.Assert("decrypt-leaves-ciphertext-alone", zzverif.EqBytes(a.EncryptedAuthenticator.Cipher, orig))
	default:
		k := KRBPriv{PVNO: 5, MsgType: 21, EncPart: ed}
		b1, _ = k.Marshal()
		derr = k.DecryptEncPart(key)
		b2, _ = k.Marshal()
		zzverif.Assert("decrypt-leaves-ciphertext-alone", zzverif.EqBytes(k.EncPart.Cipher, orig))
	}
	if derr == nil {
		zzverif.Reach("decrypted")
	}
	zzverif.Assert("same-encoding-after-decrypt", zzverif.EqBytes(b1, b2))
	zzverif.Reach("done")
}
