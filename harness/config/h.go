package config

import (
	"strings"
	"time"

	"github.com/jcmturner/gokrb5/v8/zzverif"
)

// ---- C16: host-to-realm resolution returns the most specific mapping ------------------------------------

// VH_C16_ResolveRealm: hostname of `depth` one-byte labels over {a,b}, optional trailing dot; every
// subset of the candidate mappings (exact host, every ".suffix", and decoys without the leading dot).
func VH_C16_ResolveRealm() {
	depth := zzverif.Param("depth")
	labels := make([]string, depth)
	for i := range labels {
		l := zzverif.String(1)
		zzverif.Assume(l[0] == 'a' || l[0] == 'b')
		labels[i] = l
	}
	host := strings.Join(labels, ".")
	c := &Config{DomainRealm: DomainRealm{}}
	// candidate i = 0: exact host; i >= 1: "." + labels[i:] joined; decoy i: labels[i:] joined without the dot
	present := make([]bool, depth)
	for i := 0; i < depth; i++ {
		present[i] = zzverif.Bool()
		key := strings.Join(labels[i:], ".")
		if i > 0 {
			if zzverif.Bool() {
				c.DomainRealm[key] = "DECOY" // a host entry for the bare suffix must not match as a domain
			}
			key = "." + key
		}
		if present[i] {
			c.DomainRealm[key] = "R" + string(rune('0'+i))
		}
	}
	// an unrelated mapping with another label
	c.DomainRealm[".c"] = "OTHER"
	q := host
	if zzverif.Bool() {
		q += "."
	}
	got := c.ResolveRealm(q)
	want := ""
	for i := depth - 1; i >= 0; i-- {
		if present[i] {
			want = "R" + string(rune('0'+i))
		}
	}
	zzverif.Assert("most-specific-mapping-wins", got == want)
	zzverif.Reach("resolved")
}

// ---- C16/C11: KDC lookup returns each configured server exactly once and leaves the configuration alone ---

func vhServers(n int, port string) []string {
	var l []string
	for i := 0; i < n; i++ {
		l = append(l, "k"+string(rune('1'+i))+port)
	}
	return l
}

func vhIsPermutation(count int, m map[int]string, want []string) bool {
	if count != len(want) || len(m) != len(want) {
		return false
	}
	ok := true
	for _, w := range want {
		seen := 0
		for i := 1; i <= len(want); i++ {
			if m[i] == w {
				seen++
			}
		}
		ok = ok && seen == 1
	}
	return ok
}

func VH_C16_GetKDCs() {
	n := zzverif.Param("n")
	orig := vhServers(n, ":88")
	c := &Config{}
	c.LibDefaults.DefaultRealm = "R"
	c.Realms = []Realm{{Realm: "X", KDC: []string{"x:88"}}, {Realm: "R", KDC: append([]string{}, orig...)}}
	realm := "R"
	if zzverif.Bool() {
		realm = "" // the default realm
	}
	for round := 0; round < 2; round++ {
		count, m, err := c.GetKDCs(realm, zzverif.Bool())
		zzverif.Assert("getkdcs-ok", err == nil)
		zzverif.Assert("each-configured-kdc-exactly-once", vhIsPermutation(count, m, orig))
		zzverif.Assert("configuration-unchanged-by-lookup", strings.Join(c.Realms[1].KDC, ",") == strings.Join(orig, ","))
	}
	_, _, err := c.GetKDCs("NOSUCH", false)
	zzverif.Assert("unknown-realm-is-an-error", err != nil)
	zzverif.Reach("done")
}

func VH_C16_GetKpasswdServers() {
	n, useAdmin := zzverif.Param("n"), zzverif.Param("admin")
	c := &Config{}
	var want []string
	r := Realm{Realm: "R"}
	if useAdmin == 1 {
		r.AdminServer = vhServers(n, ":749")
		want = vhServers(n, ":464") // admin servers stand in for kpasswd servers on port 464
	} else {
		r.KPasswdServer = vhServers(n, ":464")
		r.AdminServer = []string{"adm:749"}
		want = vhServers(n, ":464")
	}
	origK, origA := strings.Join(r.KPasswdServer, ","), strings.Join(r.AdminServer, ",")
	c.Realms = []Realm{r}
	for round := 0; round < 2; round++ {
		count, m, err := c.GetKpasswdServers("R", false)
		zzverif.Assert("getkpasswd-ok", err == nil)
		zzverif.Assert("each-kpasswd-server-exactly-once", vhIsPermutation(count, m, want))
		zzverif.Assert("configuration-unchanged-by-lookup", zzverif.And(strings.Join(c.Realms[0].KPasswdServer, ",") == origK, strings.Join(c.Realms[0].AdminServer, ",") == origA))
	}
	zzverif.Reach("done")
}

// ---- C16: boolean spellings -------------------------------------------------------------------------------

// VH_C16_ParseBoolean: for every string of n bytes: the MIT-documented spellings (y, yes, true, t, 1, on /
// n, no, false, nil, 0, off; case-insensitive) are accepted with the documented value, and nothing is
// accepted with the opposite value.
func VH_C16_ParseBoolean() {
	n := zzverif.Param("n")
	s := zzverif.String(n)
	for i := 0; i < n; i++ {
		zzverif.Assume(s[i] >= 0x20 && s[i] < 0x7f)
	}
	v, err := parseBoolean(s)
	low := strings.ToLower(strings.TrimSpace(s))
	isTrue := low == "y" || low == "yes" || low == "true" || low == "t" || low == "1" || low == "on"
	isFalse := low == "n" || low == "no" || low == "false" || low == "nil" || low == "0" || low == "off"
	if isTrue {
		zzverif.Reach("documented-true")
		zzverif.Assert("documented-true-spelling-accepted", err == nil && v)
	}
	if isFalse {
		zzverif.Reach("documented-false")
		zzverif.Assert("documented-false-spelling-accepted", err == nil && !v)
	}
	if err == nil && !isTrue && !isFalse {
		// Go-style extras (f, F, False ...) are tolerated only with their obvious meaning
		zzverif.Assert("extra-spelling-only-f", low == "f" && !v)
	}
}

// ---- C16/C04: realm block lines ----------------------------------------------------------------------------

// VH_C16_RealmLines: kdc / admin_server lines with symbolic values: port defaulting, final-value marker.
func VH_C16_RealmLines() {
	nv := zzverif.Param("values")
	var vals []string
	var lines []string
	for i := 0; i < nv; i++ {
		v := zzverif.String(zzverif.Choose(1, 2))
		for j := 0; j < len(v); j++ {
			zzverif.Assume(v[j] == 'h' || v[j] == ':' || v[j] == '*')
		}
		zzverif.Assume(v[0] == 'h')
		vals = append(vals, v)
		lines = append(lines, " kdc = "+v)
	}
	lines = append(lines, "unknown_key = 1", "# comment", "", "admin_server = a:749")
	var r Realm
	err := r.parseLines("R", lines)
	zzverif.Assert("realm-block-parses", err == nil)
	var want []string
	final := false
	for _, v := range vals {
		if final {
			continue
		}
		star := v[len(v)-1] == '*'
		if star {
			v = v[:len(v)-1]
			final = true
		}
		if !strings.Contains(v, ":") {
			v += ":88"
		}
		want = append(want, v)
	}
	zzverif.Assert("kdc-list-with-port-default-and-final-marker", strings.Join(r.KDC, ",") == strings.Join(want, ","))
	zzverif.Assert("admin-server-kept", len(r.AdminServer) == 1 && r.AdminServer[0] == "a:749")
	zzverif.Assert("kpasswd-defaults-to-admin-server-464", len(r.KPasswdServer) == 1 && r.KPasswdServer[0] == "a:464")
	zzverif.Reach("done")
}

// VH_C04_RealmLines: arbitrary short lines over the structural alphabet never panic.
func VH_C04_RealmLines() {
	nl, ll := zzverif.Param("lines"), zzverif.Param("len")
	var lines []string
	for i := 0; i < nl; i++ {
		l := zzverif.String(zzverif.Choose(0, ll))
		for j := 0; j < len(l); j++ {
			zzverif.Assume(l[j] == '{' || l[j] == '}' || l[j] == '=' || l[j] == 'a' || l[j] == ' ')
		}
		lines = append(lines, l)
	}
	var r Realm
	r.parseLines("R", lines)
	zzverif.Reach("returned")
}

// VH_C11_GetKDCsConcurrent: two goroutines resolve KDCs from one shared configuration.
func VH_C11_GetKDCsConcurrent() {
	n := zzverif.Param("n")
	orig := vhServers(n, ":88")
	c := &Config{}
	c.Realms = []Realm{{Realm: "R", KDC: append([]string{}, orig...)}}
	var c1, c2 int
	var m1, m2 map[int]string
	zzverif.Par(func() { c1, m1, _ = c.GetKDCs("R", false) }, func() { c2, m2, _ = c.GetKDCs("R", true) })
	zzverif.Assert("each-configured-kdc-exactly-once", vhIsPermutation(c1, m1, orig) && vhIsPermutation(c2, m2, orig))
	zzverif.Assert("configuration-unchanged-by-lookup", strings.Join(c.Realms[0].KDC, ",") == strings.Join(orig, ","))
	zzverif.Reach("done")
}

// ---- C16: whole-file section splitting ------------------------------------------------------------------

func vhBlank(n int) string {
	s := zzverif.String(n)
	for j := 0; j < n; j++ {
		zzverif.Assume(zzverif.Or(s[j] == ' ', s[j] == '\t'))
	}
	return s
}

// vhNoiseLine: a line the parser must ignore wherever it stands: a blank line, or a comment (possibly indented)
// whose text is arbitrary printable ASCII - including text that looks like a section header or a brace.
func vhNoiseLine() string {
	s := zzverif.String(4)
	for j := 0; j < 4; j++ {
		zzverif.Assume(zzverif.And(s[j] >= 0x20, s[j] < 0x7f))
	}
	comment0 := zzverif.Or(s[0] == '#', s[0] == ';')
	comment1 := zzverif.And(s[0] == ' ', zzverif.Or(s[1] == '#', s[1] == ';'))
	blank := zzverif.All(s[0] == ' ', s[1] == ' ', s[2] == ' ', s[3] == ' ')
	zzverif.Assume(zzverif.Any(comment0, comment1, blank))
	return s
}

// VH_C16_Sections: NewFromString on a file of `sections` sections in any order (each of libdefaults, realms,
// domain_realm at most once; unknown sections with one- or two-letter names any number of times), every section
// empty or with one relation, whitespace of `ws` bytes around the header, a noise line after every header and
// after every section.  The loaded configuration holds exactly what was written, whatever the order.
func VH_C16_Sections() {
	nsec, wsl := zzverif.Param("sections"), zzverif.Param("ws")
	text := ""
	if zzverif.Param("lead") == 1 {
		text += vhNoiseLine() + "\n"
	}
	var haveLib, haveRealms, haveDom bool
	var wantRealm, wantDomKey, wantDomVal string
	var wantDom, wantStanza bool
	for i := 0; i < nsec; i++ {
		kind := zzverif.Choose(0, 3)
		name := ""
		switch kind {
		case 0:
			zzverif.Assume(!haveLib)
			haveLib = true
			name = "libdefaults"
		case 1:
			zzverif.Assume(!haveRealms)
			haveRealms = true
			name = "realms"
		case 2:
			zzverif.Assume(!haveDom)
			haveDom = true
			name = "domain_realm"
		default:
			name = zzverif.String(zzverif.Choose(1, 2))
			for j := 0; j < len(name); j++ {
				zzverif.Assume(zzverif.And(name[j] >= 'a', name[j] <= 'z'))
			}
		}
		text += vhBlank(wsl) + "[" + name + "]" + vhBlank(wsl) + "\n"
		text += vhNoiseLine() + "\n"
		if zzverif.Choose(0, 1) == 1 {
			switch kind {
			case 0:
				r := zzverif.String(1)
				zzverif.Assume(zzverif.And(r[0] >= 'A', r[0] <= 'Z'))
				text += " default_realm = " + r + "\n"
				wantRealm = r
			case 1:
				text += " R = {\n  kdc = h\n }\n"
				wantStanza = true
			case 2:
				d, r := zzverif.String(1), zzverif.String(1)
				zzverif.Assume(zzverif.All(d[0] >= 'a', d[0] <= 'z', r[0] >= 'A', r[0] <= 'Z'))
				text += " ." + d + " = " + r + "\n"
				wantDom, wantDomKey, wantDomVal = true, "."+d, r
			default:
				// whatever stands in a section the library does not know is not its business
				text += " }\n x = {\n"
			}
			text += vhNoiseLine() + "\n"
		}
	}
	c, err := NewFromString(text)
	zzverif.Assert("documented-syntax-loads", err == nil && c != nil)
	if err != nil || c == nil {
		return
	}
	zzverif.Reach("loaded")
	zzverif.Assert("default-realm-as-written", c.LibDefaults.DefaultRealm == wantRealm)
	if wantDom {
		zzverif.Assert("domain-mapping-as-written", len(c.DomainRealm) == 1 && c.DomainRealm[wantDomKey] == wantDomVal)
	} else {
		zzverif.Assert("no-domain-mapping-invented", len(c.DomainRealm) == 0)
	}
	if wantStanza {
		zzverif.Assert("realm-stanza-as-written", len(c.Realms) == 1 && c.Realms[0].Realm == "R" && len(c.Realms[0].KDC) == 1 && c.Realms[0].KDC[0] == "h:88")
	} else {
		zzverif.Assert("no-realm-invented", len(c.Realms) == 0)
	}
}

// ---- C16: durations --------------------------------------------------------------------------------------

// vhNumber: a decimal number of exactly `digits` symbolic digits (leading zeros allowed) and its value.
func vhNumber(digits int) (string, int64) {
	s := zzverif.String(digits)
	var v uint64
	for i := 0; i < digits; i++ {
		zzverif.Assume(zzverif.And(s[i] >= '0', s[i] <= '9'))
		v = v*10 + uint64(s[i]) - '0'
	}
	return s, int64(v)
}

// vhNumberS: the same, computed the way strconv does (the value is the same; the shape of the term decides whether
// the solver can compare sums of three products - see DESIGN 11.3, C16).
func vhNumberS(digits int) (string, int64) {
	s := zzverif.String(digits)
	var v uint64
	for i := 0; i < digits; i++ {
		zzverif.Assume(zzverif.And(s[i] >= '0', s[i] <= '9'))
		v *= 10
		v = v + uint64(s[i]-'0')
	}
	return s, int64(v)
}

// vhDuration: a duration in one of the documented krb5.conf formats - N (seconds), h:m, h:m:s, or any non-empty
// combination NdNhNmNs - with arbitrary digits, and the value it denotes in nanoseconds (summed unit by unit: one
// multiplication by a constant per number keeps the comparison within the solver's reach).
func vhDuration(digits int) (string, int64) {
	form := zzverif.Choose(0, 17)
	if f := zzverif.Param("form"); f >= 0 {
		zzverif.Assume(form == f)
	}
	switch {
	case form == 0:
		s, v := vhNumber(digits)
		zzverif.Assume(v > 0) // "0" alone is rejected by the library; MIT reads it as zero seconds.  Not claimed either way.
		return s, v * 1000000000
	case form == 16:
		h, hv := vhNumberS(digits)
		m, mv := vhNumberS(digits)
		return h + ":" + m, hv*3600000000000 + mv*60000000000
	case form == 17:
		h, hv := vhNumberS(digits)
		m, mv := vhNumberS(digits)
		s, sv := vhNumberS(digits)
		return h + ":" + m + ":" + s, hv*3600000000000 + mv*60000000000 + sv*1000000000
	}
	// form 1..15: bit 3 = days, bit 2 = hours, bit 1 = minutes, bit 0 = seconds
	text, total := "", int64(0)
	units := []struct {
		bit  int
		name string
		secs int64
	}{{8, "d", 24 * 3600000000000}, {4, "h", 3600000000000}, {2, "m", 60000000000}, {1, "s", 1000000000}}
	for _, u := range units {
		if form&u.bit != 0 {
			n, v := vhNumber(digits)
			text += n + u.name
			if u.bit == 8 {
				total += (v * 24) * 3600000000000
			} else {
				total += v * u.secs
			}
		}
	}
	return text, total
}

// VH_C16_ParseDuration: every documented duration format denotes the documented value, with blanks around it.
func VH_C16_ParseDuration() {
	text, ns := vhDuration(zzverif.Param("digits"))
	d, err := parseDuration(vhBlank(1) + text + vhBlank(1))
	zzverif.Assert("documented-duration-accepted", err == nil)
	zzverif.Assert("duration-has-the-documented-value", int64(d) == ns)
	zzverif.Reach("parsed")
}

// ---- C16: [libdefaults] relations ----------------------------------------------------------------------------

func vhLibDefaultsScalarsEqual(a, b *LibDefaults) bool {
	return zzverif.All(a.AllowWeakCrypto == b.AllowWeakCrypto, a.Canonicalize == b.Canonicalize, a.CCacheType == b.CCacheType,
		a.Clockskew == b.Clockskew, a.DefaultClientKeytabName == b.DefaultClientKeytabName, a.DefaultKeytabName == b.DefaultKeytabName,
		a.DefaultRealm == b.DefaultRealm, a.DNSCanonicalizeHostname == b.DNSCanonicalizeHostname, a.DNSLookupKDC == b.DNSLookupKDC,
		a.DNSLookupRealm == b.DNSLookupRealm, a.Forwardable == b.Forwardable, a.IgnoreAcceptorHostname == b.IgnoreAcceptorHostname,
		a.K5LoginAuthoritative == b.K5LoginAuthoritative, a.K5LoginDirectory == b.K5LoginDirectory, a.KDCTimeSync == b.KDCTimeSync,
		a.NoAddresses == b.NoAddresses, a.Proxiable == b.Proxiable, a.RDNS == b.RDNS, a.RealmTryDomains == b.RealmTryDomains,
		a.RenewLifetime == b.RenewLifetime, a.SafeChecksumType == b.SafeChecksumType, a.TicketLifetime == b.TicketLifetime,
		a.UDPPreferenceLimit == b.UDPPreferenceLimit, a.VerifyAPReqNofail == b.VerifyAPReqNofail,
		len(a.DefaultTGSEnctypes) == len(b.DefaultTGSEnctypes), len(a.DefaultTktEnctypes) == len(b.DefaultTktEnctypes),
		len(a.PermittedEnctypes) == len(b.PermittedEnctypes), len(a.PreferredPreauthTypes) == len(b.PreferredPreauthTypes),
		len(a.ExtraAddresses) == len(b.ExtraAddresses))
}

// VH_C16_LibDefaultsRelation: one relation of the [libdefaults] section, `key = value` with blanks around both, for
// every key of the chosen group and an arbitrary valid value: exactly the field the key names takes exactly the
// documented value; every other field keeps its default.
func VH_C16_LibDefaultsRelation() {
	group := zzverif.Param("group")
	got, want := newLibDefaults(), newLibDefaults()
	key, val := "", ""
	switch group {
	case 0: // booleans, one-letter spellings (every spelling: the parse-boolean instances)
		v := zzverif.String(1)
		zzverif.Assume(zzverif.Any(v[0] == 'y', v[0] == 'n', v[0] == 't', v[0] == '1', v[0] == '0', v[0] == 'Y', v[0] == 'N', v[0] == 'T'))
		b := zzverif.Any(v[0] == 'y', v[0] == 't', v[0] == '1', v[0] == 'Y', v[0] == 'T')
		val = v
		bools := []struct {
			key string
			f   *bool
		}{{"allow_weak_crypto", &want.AllowWeakCrypto}, {"canonicalize", &want.Canonicalize}, {"dns_canonicalize_hostname", &want.DNSCanonicalizeHostname},
			{"dns_lookup_kdc", &want.DNSLookupKDC}, {"dns_lookup_realm", &want.DNSLookupRealm}, {"forwardable", &want.Forwardable},
			{"ignore_acceptor_hostname", &want.IgnoreAcceptorHostname}, {"k5login_authoritative", &want.K5LoginAuthoritative}, {"noaddresses", &want.NoAddresses},
			{"proxiable", &want.Proxiable}, {"rdns", &want.RDNS}, {"verify_ap_req_nofail", &want.VerifyAPReqNofail}}
		k := zzverif.Choose(0, len(bools)-1)
		key = bools[k].key
		*bools[k].f = b
	case 1: // durations
		text, ns := vhDuration(1)
		val = text
		durs := []struct {
			key string
			f   *time.Duration
		}{{"clockskew", &want.Clockskew}, {"renew_lifetime", &want.RenewLifetime}, {"ticket_lifetime", &want.TicketLifetime}}
		k := zzverif.Choose(0, len(durs)-1)
		key = durs[k].key
		*durs[k].f = time.Duration(ns)
	case 2: // integers within their documented ranges
		text, v := vhNumber(zzverif.Choose(1, 5))
		val = text
		ints := []struct {
			key    string
			f      *int
			lo, hi int64
		}{{"ccache_type", &want.CCacheType, 0, 4}, {"kdc_timesync", &want.KDCTimeSync, 0, 99999}, {"realm_try_domains", &want.RealmTryDomains, 0, 99999},
			{"safe_checksum_type", &want.SafeChecksumType, 0, 99999}, {"udp_preference_limit", &want.UDPPreferenceLimit, 0, 32700}}
		k := zzverif.Choose(0, len(ints)-1)
		key = ints[k].key
		if v > ints[k].hi {
			// out of the documented range: the relation is rejected
			err := got.parseLines([]string{vhBlank(1) + key + vhBlank(1) + "=" + vhBlank(1) + val + vhBlank(1)})
			zzverif.Assert("out-of-range-value-rejected", err != nil)
			zzverif.Reach("rejected")
			return
		}
		*ints[k].f = int(v)
	default: // strings
		v := zzverif.String(2)
		zzverif.Assume(zzverif.All(v[0] > ' ', v[0] < 0x7f, v[0] != '#', v[0] != ';', v[0] != '=', v[1] > ' ', v[1] < 0x7f, v[1] != '#', v[1] != ';', v[1] != '='))
		val = v
		strs := []struct {
			key string
			f   *string
		}{{"default_client_keytab_name", &want.DefaultClientKeytabName}, {"default_keytab_name", &want.DefaultKeytabName}, {"default_realm", &want.DefaultRealm},
			{"k5login_directory", &want.K5LoginDirectory}}
		k := zzverif.Choose(0, len(strs)-1)
		key = strs[k].key
		*strs[k].f = v
	}
	err := got.parseLines([]string{vhBlank(1) + key + vhBlank(1) + "=" + vhBlank(1) + val + vhBlank(1)})
	zzverif.Assert("documented-relation-accepted", err == nil)
	zzverif.Assert("named-field-takes-the-value-and-no-other-field-changes", vhLibDefaultsScalarsEqual(&got, &want))
	zzverif.Reach("parsed")
}

// ---- C16: enctype lists ------------------------------------------------------------------------------------

// VH_C16_EnctypeList: `key = name sep name` for the three enctype-list keys, both names drawn from the documented
// names (canonical names and MIT aliases of the six supported types, and names of types gokrb5 does not implement),
// arbitrary blank separators: the ID list holds the IANA numbers of the supported names, in order; names of types
// that are not implemented are left out; the name list holds the names as written.
// (des3-cbc-sha1 / des3-hmac-sha1 are not in the menu: MIT reads them as type 16, the repository's own test expects
// them to be dropped.)
func VH_C16_EnctypeList() {
	menu := []struct {
		name string
		id   int32
	}{{"aes256-cts-hmac-sha1-96", 18}, {"aes128-cts-hmac-sha1-96", 17}, {"aes256-cts", 18}, {"aes128-cts", 17}, {"aes256-sha1", 18}, {"aes128-sha1", 17},
		{"aes128-cts-hmac-sha256-128", 19}, {"aes256-cts-hmac-sha384-192", 20}, {"aes128-sha2", 19}, {"aes256-sha2", 20}, {"des3-cbc-sha1-kd", 16},
		{"rc4-hmac", 23}, {"arcfour-hmac", 23}, {"arcfour-hmac-md5", 23}, {"camellia256-cts-cmac", 0}, {"des-cbc-crc", 0}, {"des-cbc-md5", 0}, {"nonsense", 0}}
	a, b := zzverif.Choose(0, len(menu)-1), zzverif.Choose(0, len(menu)-1)
	key := zzverif.Choose(0, 2)
	keys := []string{"default_tgs_enctypes", "default_tkt_enctypes", "permitted_enctypes"}
	l := newLibDefaults()
	line := vhBlank(1) + keys[key] + " =" + vhBlank(1) + menu[a].name + vhBlank(zzverif.Param("sep")) + menu[b].name + vhBlank(1)
	err := l.parseLines([]string{line})
	zzverif.Assert("documented-enctype-list-accepted", err == nil)
	var want []int32
	if menu[a].id != 0 {
		want = append(want, menu[a].id)
	}
	if menu[b].id != 0 {
		want = append(want, menu[b].id)
	}
	names, ids := l.DefaultTGSEnctypes, l.DefaultTGSEnctypeIDs
	switch key {
	case 1:
		names, ids = l.DefaultTktEnctypes, l.DefaultTktEnctypeIDs
	case 2:
		names, ids = l.PermittedEnctypes, l.PermittedEnctypeIDs
	}
	zzverif.Assert("names-as-written", len(names) == 2 && names[0] == menu[a].name && names[1] == menu[b].name)
	ok := len(ids) == len(want)
	for i := 0; ok && i < len(want); i++ {
		ok = ids[i] == want[i]
	}
	zzverif.Assert("ids-are-the-iana-numbers-of-the-supported-names-in-order", ok)
	zzverif.Reach("parsed")
}

// ---- C16: structurally invalid files ------------------------------------------------------------------------

// VH_C16_InvalidFiles: a file whose other sections are valid and one of whose known sections holds a structural
// error - a relation without '=' in [libdefaults] or [domain_realm], a closing brace that closes nothing or an
// opening brace without '=' in [realms] - is rejected, wherever the section stands.
func VH_C16_InvalidFiles() {
	word := zzverif.String(2)
	for j := 0; j < 2; j++ {
		zzverif.Assume(zzverif.And(word[j] >= 'a', word[j] <= 'z'))
	}
	bad := ""
	switch zzverif.Choose(0, 3) {
	case 0:
		bad = "[libdefaults]\n default_realm = A\n" + vhBlank(1) + word + "\n"
	case 1:
		bad = "[domain_realm]\n .a = A\n" + vhBlank(1) + word + vhBlank(1) + "\n"
	case 2:
		bad = "[realms]\n A = {\n  kdc = h\n }\n" + vhBlank(1) + "}\n"
	default:
		bad = "[realms]\n" + vhBlank(1) + word + " {\n  kdc = h\n }\n"
	}
	before, after := "", ""
	if zzverif.Choose(0, 1) == 1 {
		before = vhNoiseLine() + "\n[" + word + "]\n x = y\n"
	}
	if zzverif.Choose(0, 1) == 1 {
		after = "[" + word + "]\n" + vhNoiseLine() + "\n x = y\n"
	}
	_, err := NewFromString(before + bad + after)
	zzverif.Assert("structurally-invalid-file-rejected", err != nil)
	if err != nil {
		_, unsupported := err.(UnsupportedDirective)
		zzverif.Assert("rejection-is-not-a-mere-unsupported-directive-notice", !unsupported)
	}
	zzverif.Reach("rejected")
}

// ---- C16: nested blocks inside a realm ----------------------------------------------------------------------

// VH_C16_RealmNestedBlock: a realm body with a nested block (a subsection such as auth_to_local_names) between two
// kdc relations.  Whatever the relation inside the nested block is called - its tag is arbitrary lower-case text and
// may coincide with a realm-level tag - it belongs to the subsection: the realm's own lists are what the realm-level
// relations say.
func VH_C16_RealmNestedBlock() {
	name, tag := zzverif.String(2), zzverif.String(zzverif.Param("taglen"))
	for j := 0; j < len(name); j++ {
		zzverif.Assume(zzverif.And(name[j] >= 'a', name[j] <= 'z'))
	}
	for j := 0; j < len(tag); j++ {
		zzverif.Assume(zzverif.Or(zzverif.And(tag[j] >= 'a', tag[j] <= 'z'), tag[j] == '_'))
		if zzverif.Param("narrow") == 1 {
			// quick tier: each byte is 'x' or the byte a realm-level tag of this length has there
			ok := tag[j] == 'x'
			for _, t := range []string{"kdc", "master_kdc", "admin_server", "kpasswd_server", "default_domain"} {
				if len(t) == len(tag) {
					ok = zzverif.Or(ok, tag[j] == t[j])
				}
			}
			zzverif.Assume(ok)
		}
	}
	lines := []string{" kdc = h1", " " + name + " = {", "   " + tag + " = x", " }", " kdc = h2", " admin_server = a"}
	var r Realm
	err := r.parseLines("R", lines)
	zzverif.Assert("realm-with-nested-block-parses", err == nil)
	zzverif.Assert("kdc-list-is-the-realm-level-relations", len(r.KDC) == 2 && r.KDC[0] == "h1:88" && r.KDC[1] == "h2:88")
	zzverif.Assert("admin-server-is-the-realm-level-relation", len(r.AdminServer) == 1 && r.AdminServer[0] == "a")
	zzverif.Assert("no-list-filled-from-the-subsection", len(r.MasterKDC) == 0 && r.DefaultDomain == "" && len(r.KPasswdServer) == 1 && r.KPasswdServer[0] == "a:464")
	zzverif.Reach("done")
}
