package config

import (
	"strings"

	"github.com/jcmturner/gokrb5/v8/zzverif"
)

// ---- C16: host-to-realm resolution returns the most specific mapping ------------------------------------

// VH_C16_ResolveRealm: hostname of `depth` one-byte labels over {a,b}, optional trailing dot; every
// subset of the candidate mappings (exact host, every ".suffix", and decoys without the leading dot).
func VH_C16_ResolveRealm() {
	depth := zzverif.Param("depth")
	labels := make([]string, depth)
	for i := range labels {
		l := zzverif.String(1)
		zzverif.Assume(l[0] == 'a' || l[0] == 'b')
		labels[i] = l
	}
	host := strings.Join(labels, ".")
	c := &Config{DomainRealm: DomainRealm{}}
	// candidate i = 0: exact host; i >= 1: "." + labels[i:] joined; decoy i: labels[i:] joined without the dot
	present := make([]bool, depth)
	for i := 0; i < depth; i++ {
		present[i] = zzverif.Bool()
		key := strings.Join(labels[i:], ".")
		if i > 0 {
			if zzverif.Bool() {
				c.DomainRealm[key] = "DECOY" // a host entry for the bare suffix must not match as a domain
			}
			key = "." + key
		}
		if present[i] {
			c.DomainRealm[key] = "R" + string(rune('0'+i))
		}
	}
	// an unrelated mapping with another label
	c.DomainRealm[".c"] = "OTHER"
	q := host
	if zzverif.Bool() {
		q += "."
	}
	got := c.ResolveRealm(q)
	want := ""
	for i := depth - 1; i >= 0; i-- {
		if present[i] {
			want = "R" + string(rune('0'+i))
		}
	}
	zzverif.Assert("most-specific-mapping-wins", got == want)
	zzverif.Reach("resolved")
}

// ---- C16/C11: KDC lookup returns each configured server exactly once and leaves the configuration alone ---

func vhServers(n int, port string) []string {
	var l []string
	for i := 0; i < n; i++ {
		l = append(l, "k"+string(rune('1'+i))+port)
	}
	return l
}

func vhIsPermutation(count int, m map[int]string, want []string) bool {
	if count != len(want) || len(m) != len(want) {
		return false
	}
	ok := true
	for _, w := range want {
		seen := 0
		for i := 1; i <= len(want); i++ {
			if m[i] == w {
				seen++
			}
		}
		ok = ok && seen == 1
	}
	return ok
}

func VH_C16_GetKDCs() {
	n := zzverif.Param("n")
	orig := vhServers(n, ":88")
	c := &Config{}
	c.LibDefaults.DefaultRealm = "R"
	c.Realms = []Realm{{Realm: "X", KDC: []string{"x:88"}}, {Realm: "R", KDC: append([]string{}, orig...)}}
	realm := "R"
	if zzverif.Bool() {
		realm = "" // the default realm
	}
	for round := 0; round < 2; round++ {
		count, m, err := c.GetKDCs(realm, zzverif.Bool())
		zzverif.Assert("getkdcs-ok", err == nil)
		zzverif.Assert("each-configured-kdc-exactly-once", vhIsPermutation(count, m, orig))
		zzverif.Assert("configuration-unchanged-by-lookup", strings.Join(c.Realms[1].KDC, ",") == strings.Join(orig, ","))
	}
	_, _, err := c.GetKDCs("NOSUCH", false)
	zzverif.Assert("unknown-realm-is-an-error", err != nil)
	zzverif.Reach("done")
}

func VH_C16_GetKpasswdServers() {
	n, useAdmin := zzverif.Param("n"), zzverif.Param("admin")
	c := &Config{}
	var want []string
	r := Realm{Realm: "R"}
	if useAdmin == 1 {
		r.AdminServer = vhServers(n, ":749")
		want = vhServers(n, ":464") // admin servers stand in for kpasswd servers on port 464
	} else {
		r.KPasswdServer = vhServers(n, ":464")
		r.AdminServer = []string{"adm:749"}
		want = vhServers(n, ":464")
	}
	origK, origA := strings.Join(r.KPasswdServer, ","), strings.Join(r.AdminServer, ",")
	c.Realms = []Realm{r}
	for round := 0; round < 2; round++ {
		count, m, err := c.GetKpasswdServers("R", false)
		zzverif.Assert("getkpasswd-ok", err == nil)
		zzverif.Assert("each-kpasswd-server-exactly-once", vhIsPermutation(count, m, want))
		zzverif.Assert("configuration-unchanged-by-lookup", zzverif.And(strings.Join(c.Realms[0].KPasswdServer, ",") == origK, strings.Join(c.Realms[0].AdminServer, ",") == origA))
	}
	zzverif.Reach("done")
}

// ---- C16: boolean spellings -------------------------------------------------------------------------------

// VH_C16_ParseBoolean: for every string of n bytes: the MIT-documented spellings (y, yes, true, t, 1, on /
// n, no, false, nil, 0, off; case-insensitive) are accepted with the documented value, and nothing is
// accepted with the opposite value.
func VH_C16_ParseBoolean() {
	n := zzverif.Param("n")
	s := zzverif.String(n)
	for i := 0; i < n; i++ {
		zzverif.Assume(s[i] >= 0x20 && s[i] < 0x7f)
	}
	v, err := parseBoolean(s)
	low := strings.ToLower(strings.TrimSpace(s))
	isTrue := low == "y" || low == "yes" || low == "true" || low == "t" || low == "1" || low == "on"
	isFalse := low == "n" || low == "no" || low == "false" || low == "nil" || low == "0" || low == "off"
	if isTrue {
		zzverif.Reach("documented-true")
		zzverif.Assert("documented-true-spelling-accepted", err == nil && v)
	}
	if isFalse {
		zzverif.Reach("documented-false")
		zzverif.Assert("documented-false-spelling-accepted", err == nil && !v)
	}
	if err == nil && !isTrue && !isFalse {
		// Go-style extras (f, F, False ...) are tolerated only with their obvious meaning
		zzverif.Assert("extra-spelling-only-f", low == "f" && !v)
	}
}

// ---- C16/C04: realm block lines ----------------------------------------------------------------------------

// VH_C16_RealmLines: kdc / admin_server lines with symbolic values: port defaulting, final-value marker.
func VH_C16_RealmLines() {
	nv := zzverif.Param("values")
	var vals []string
	var lines []string
	for i := 0; i < nv; i++ {
		v := zzverif.String(zzverif.Choose(1, 2))
		for j := 0; j < len(v); j++ {
			zzverif.Assume(v[j] == 'h' || v[j] == ':' || v[j] == '*')
		}
		zzverif.Assume(v[0] == 'h')
		vals = append(vals, v)
		lines = append(lines, " kdc = "+v)
	}
	lines = append(lines, "unknown_key = 1", "# comment", "", "admin_server = a:749")
	var r Realm
	err := r.parseLines("R", lines)
	zzverif.Assert("realm-block-parses", err == nil)
	var want []string
	final := false
	for _, v := range vals {
		if final {
			continue
		}
		star := v[len(v)-1] == '*'
		if star {
			v = v[:len(v)-1]
			final = true
		}
		if !strings.Contains(v, ":") {
			v += ":88"
		}
		want = append(want, v)
	}
	zzverif.Assert("kdc-list-with-port-default-and-final-marker", strings.Join(r.KDC, ",") == strings.Join(want, ","))
	zzverif.Assert("admin-server-kept", len(r.AdminServer) == 1 && r.AdminServer[0] == "a:749")
	zzverif.Assert("kpasswd-defaults-to-admin-server-464", len(r.KPasswdServer) == 1 && r.KPasswdServer[0] == "a:464")
	zzverif.Reach("done")
}

// VH_C04_RealmLines: arbitrary short lines over the structural alphabet never panic.
func VH_C04_RealmLines() {
	nl, ll := zzverif.Param("lines"), zzverif.Param("len")
	var lines []string
	for i := 0; i < nl; i++ {
		l := zzverif.String(zzverif.Choose(0, ll))
		for j := 0; j < len(l); j++ {
			zzverif.Assume(l[j] == '{' || l[j] == '}' || l[j] == '=' || l[j] == 'a' || l[j] == ' ')
		}
		lines = append(lines, l)
	}
	var r Realm
	r.parseLines("R", lines)
	zzverif.Reach("returned")
}

// VH_C11_GetKDCsConcurrent: two goroutines resolve KDCs from one shared configuration.
func VH_C11_GetKDCsConcurrent() {
	n := zzverif.Param("n")
	orig := vhServers(n, ":88")
	c := &Config{}
	c.Realms = []Realm{{Realm: "R", KDC: append([]string{}, orig...)}}
	var c1, c2 int
	var m1, m2 map[int]string
	zzverif.Par(func() { c1, m1, _ = c.GetKDCs("R", false) }, func() { c2, m2, _ = c.GetKDCs("R", true) })
	zzverif.Assert("each-configured-kdc-exactly-once", vhIsPermutation(c1, m1, orig) && vhIsPermutation(c2, m2, orig))
	zzverif.Assert("configuration-unchanged-by-lookup", strings.Join(c.Realms[0].KDC, ",") == strings.Join(orig, ","))
	zzverif.Reach("done")
}
