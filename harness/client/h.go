package client

import (
	"time"

	"github.com/jcmturner/gokrb5/v8/config"
	"github.com/jcmturner/gokrb5/v8/messages"
	"github.com/jcmturner/gokrb5/v8/types"
	"github.com/jcmturner/gokrb5/v8/zzverif"
)

const vhKDC = "Client).sendToKDC"

func vhConfig() *config.Config {
	c := &config.Config{} // config.New() consults os/user; everything the exchanges read is set here
	c.LibDefaults.KDCDefaultOptions = types.NewKrbFlags()
	c.LibDefaults.DefaultRealm = "R"
	c.LibDefaults.Clockskew = 5 * time.Minute
	c.LibDefaults.NoAddresses = true
	c.LibDefaults.DefaultTktEnctypeIDs = []int32{18}
	c.LibDefaults.DefaultTGSEnctypeIDs = []int32{18}
	c.LibDefaults.PreferredPreauthTypes = []int{18}
	c.LibDefaults.TicketLifetime = 10 * time.Hour
	c.Realms = []config.Realm{{Realm: "R", KDC: []string{"k:88"}}}
	return c
}

func vhClient() *Client {
	return NewWithPassword("u", "R", zzverif.String(1), vhConfig(), DisablePAFXFAST(true))
}

func vhTicket(realm string, name ...string) messages.Ticket {
	return messages.Ticket{TktVNO: 5, Realm: realm, SName: types.PrincipalName{NameType: 2, NameString: name},
		EncPart: types.EncryptedData{EType: 18, KVNO: 1, Cipher: zzverif.Bytes(1)}}
}

func vhKey() types.EncryptionKey {
	return types.EncryptionKey{KeyType: 18, KeyValue: zzverif.Bytes(32)}
}

// ---- C10: a ticket is served from the cache only while it is valid; otherwise renewed or refused --------

func VH_C10_CachedTicket() {
	cl := vhClient()
	start, end, renew := zzverif.AnyTime(), zzverif.AnyTime(), zzverif.AnyTime()
	oldTkt, oldKey := vhTicket("R", "s"), vhKey()
	cl.cache.addEntry(oldTkt, start, start, end, renew, oldKey)
	tkt, key, ok := cl.GetCachedTicket("s")
	now := zzverif.Now()
	n := zzverif.CallCount(vhKDC)
	valid := zzverif.And(now.After(start), now.Before(end))
	if n == 0 {
		zzverif.Reach("no-kdc-contact")
		zzverif.Assert("cached-ticket-served-iff-inside-validity", ok == valid)
		zzverif.Assert("no-renewal-attempt-only-if-valid-or-past-renew-till", zzverif.Or(valid, !now.Before(renew)))
		if ok {
			zzverif.Assert("served-ticket-is-the-cached-one", zzverif.And(zzverif.EqBytes(tkt.EncPart.Cipher, oldTkt.EncPart.Cipher), zzverif.EqBytes(key.KeyValue, oldKey.KeyValue)))
		}
	} else {
		zzverif.Reach("renewal-attempted")
		zzverif.Assert("renewal-only-outside-validity-and-before-renew-till", zzverif.And(!valid, now.Before(renew)))
		if ok {
			zzverif.Reach("renewed")
			// what is handed out is what the KDC just issued: the (ticket, key) pair now in the cache
			e, found := cl.cache.getEntry("s")
			zzverif.Assert("renewed-entry-in-cache", found)
			zzverif.Assert("returned-ticket-is-the-renewed-one", zzverif.EqBytes(tkt.EncPart.Cipher, e.Ticket.EncPart.Cipher))
			zzverif.Assert("returned-key-was-issued-with-the-returned-ticket", zzverif.EqBytes(key.KeyValue, e.SessionKey.KeyValue))
		}
	}
}

// ---- C10: referral chains are followed only up to a fixed bound ---------------------------------------------

// VH_C10_TGSReferralChain: a KDC that answers k times with a referral TGT for yet another realm and
// then with the requested ticket.  The client must stop after a fixed number of requests.
func VH_C10_TGSReferralChain() {
	k := zzverif.Param("k")
	cl := vhClient()
	spn := types.PrincipalName{NameType: 2, NameString: []string{"s", "h"}}
	realm := "R"
	for i := 0; i <= k; i++ {
		var rep messages.TGSRep
		rep.PVNO, rep.MsgType = 5, 13
		rep.CRealm = "R"
		rep.CName = cl.Credentials.CName()
		rep.EncPart = types.EncryptedData{EType: 18, Cipher: []byte{byte(i)}}
		if i < k {
			next := zzverif.String(1) // the realm referred to: arbitrary
			rep.Ticket = messages.Ticket{TktVNO: 5, Realm: realm, SName: types.PrincipalName{NameType: 2, NameString: []string{"krbtgt", next}}, EncPart: types.EncryptedData{EType: 18, Cipher: []byte{9}}}
			realm = next
		} else {
			rep.Ticket = messages.Ticket{TktVNO: 5, Realm: realm, SName: spn, EncPart: types.EncryptedData{EType: 18, Cipher: []byte{7}}}
		}
		zzverif.ScriptStub(vhKDC, "val", []byte{byte(i)})
		zzverif.ScriptStub("TGSRep).Unmarshal", "val", rep)
		zzverif.ScriptStub("crypto.DecryptEncPart", "val", []byte{byte(i)})
		// the encrypted part: an arbitrary nonce (only the request's own nonce passes TGSRep.Verify), the
		// realm asked, KDC time = now, a fresh session key
		var enc messages.EncKDCRepPart
		enc.Nonce = zzverif.Int()
		enc.SRealm = rep.Ticket.Realm
		enc.AuthTime, enc.StartTime = zzverif.Now(), zzverif.Now()
		enc.EndTime = zzverif.Now().Add(time.Hour)
		enc.Key = types.EncryptionKey{KeyType: 18, KeyValue: zzverif.Bytes(32)}
		enc.SName = rep.Ticket.SName
		zzverif.ScriptStub("EncKDCRepPart).Unmarshal", "val", enc)
	}
	_, _, err := cl.TGSREQGenerateAndExchange(spn, "R", vhTicket("R", "krbtgt", "R"), vhKey(), false)
	n := zzverif.CallCount(vhKDC)
	zzverif.Assert("at-most-seven-tgs-requests", n <= 7)
	if err == nil {
		zzverif.Reach("ticket-obtained")
		zzverif.Assert("success-only-within-the-referral-bound", k <= 6)
	} else {
		zzverif.Reach("failed")
	}
	if n == k+1 {
		zzverif.Reach("chain-followed-to-the-end")
	}
}

// VH_C10_ASReferralChain: a KDC that answers every AS-REQ with KDC_ERR_WRONG_REALM (client referral).
func VH_C10_ASReferralChain() {
	k := zzverif.Param("k")
	cl := vhClient()
	req, err := messages.NewASReqForTGT("R", cl.Config, cl.Credentials.CName())
	zzverif.Assert("request-built", err == nil)
	for i := 0; i < k; i++ {
		zzverif.ScriptStub(vhKDC, "krberr", int32(68), zzverif.String(1))
	}
	zzverif.ScriptStub(vhKDC, "err")
	_, err = cl.ASExchange("R", req, 0)
	n := zzverif.CallCount(vhKDC)
	zzverif.Assert("at-most-eight-as-requests", n <= 8)
	zzverif.Assert("exchange-without-a-reply-fails", err != nil)
	zzverif.Reach("done")
}

// VH_C09_KRBErrorSurfaces: any KRB-ERROR other than the ones the client acts on ends the exchange with an error.
func VH_C09_KRBErrorSurfaces() {
	cl := vhClient()
	req, err := messages.NewASReqForTGT("R", cl.Config, cl.Credentials.CName())
	zzverif.Assert("request-built", err == nil)
	code := zzverif.Int32()
	zzverif.Assume(code >= 0 && code != 25 && code != 24 && code != 68) // PREAUTH_REQUIRED, PREAUTH_FAILED, WRONG_REALM
	zzverif.ScriptStub(vhKDC, "krberr", code, "")
	_, err = cl.ASExchange("R", req, 0)
	zzverif.Assert("krb-error-ends-the-as-exchange-with-an-error", err != nil)
	zzverif.Assert("no-further-request-after-a-final-krb-error", zzverif.CallCount(vhKDC) == 1)
	spn := types.PrincipalName{NameType: 2, NameString: []string{"s", "h"}}
	code2 := zzverif.Int32()
	zzverif.Assume(code2 >= 0)
	zzverif.ScriptStub(vhKDC, "krberr", code2, "")
	_, _, err = cl.TGSREQGenerateAndExchange(spn, "R", vhTicket("R", "krbtgt", "R"), vhKey(), false)
	zzverif.Assert("krb-error-ends-the-tgs-exchange-with-an-error", err != nil)
	zzverif.Assert("one-tgs-request", zzverif.CallCount(vhKDC) == 2)
	zzverif.Reach("done")
}
