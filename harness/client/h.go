package client

import (
	"log"
	"time"

	"github.com/jcmturner/gokrb5/v8/config"
	"github.com/jcmturner/gokrb5/v8/credentials"
	"github.com/jcmturner/gokrb5/v8/crypto"
	"github.com/jcmturner/gokrb5/v8/keytab"
	"github.com/jcmturner/gokrb5/v8/messages"
	"github.com/jcmturner/gokrb5/v8/types"
	"github.com/jcmturner/gokrb5/v8/zzverif"
)

const vhKDC = "Client).sendToKDC"

func vhConfig() *config.Config {
	c := &config.Config{} // config.New() consults os/user; everything the exchanges read is set here
	c.LibDefaults.KDCDefaultOptions = types.NewKrbFlags()
	c.LibDefaults.DefaultRealm = "R"
	c.LibDefaults.Clockskew = 5 * time.Minute
	c.LibDefaults.NoAddresses = true
	c.LibDefaults.DefaultTktEnctypeIDs = []int32{18}
	c.LibDefaults.DefaultTGSEnctypeIDs = []int32{18}
	c.LibDefaults.PreferredPreauthTypes = []int{18}
	c.LibDefaults.TicketLifetime = 10 * time.Hour
	c.Realms = []config.Realm{{Realm: "R", KDC: []string{"k:88"}}}
	return c
}

func vhClient() *Client {
	return NewWithPassword("u", "R", zzverif.String(1), vhConfig(), DisablePAFXFAST(true))
}

func vhTicket(realm string, name ...string) messages.Ticket {
	return messages.Ticket{TktVNO: 5, Realm: realm, SName: types.PrincipalName{NameType: 2, NameString: name},
		EncPart: types.EncryptedData{EType: 18, KVNO: 1, Cipher: zzverif.Bytes(1)}}
}

func vhKey() types.EncryptionKey {
	return types.EncryptionKey{KeyType: 18, KeyValue: zzverif.Bytes(32)}
}

// ---- C10: a ticket is served from the cache only while it is valid; otherwise renewed or refused --------

func VH_C10_CachedTicket() {
	cl := vhClient()
	start, end, renew := zzverif.AnyTime(), zzverif.AnyTime(), zzverif.AnyTime()
	oldTkt, oldKey := vhTicket("R", "s"), vhKey()
	cl.cache.addEntry(oldTkt, start, start, end, renew, oldKey)
	tkt, key, ok := cl.GetCachedTicket("s")
	now := zzverif.Now()
	n := zzverif.CallCount(vhKDC)
	valid := zzverif.And(now.After(start), now.Before(end))
	if n == 0 {
		zzverif.Reach("no-kdc-contact")
		zzverif.Assert("cached-ticket-served-iff-inside-validity", ok == valid)
		zzverif.Assert("no-renewal-attempt-only-if-valid-or-past-renew-till", zzverif.Or(valid, !now.Before(renew)))
		if ok {
			zzverif.Assert("served-ticket-is-the-cached-one", zzverif.And(zzverif.EqBytes(tkt.EncPart.Cipher, oldTkt.EncPart.Cipher), zzverif.EqBytes(key.KeyValue, oldKey.KeyValue)))
		}
	} else {
		zzverif.Reach("renewal-attempted")
		zzverif.Assert("renewal-only-outside-validity-and-before-renew-till", zzverif.And(!valid, now.Before(renew)))
		if ok {
			zzverif.Reach("renewed")
			// what is handed out is what the KDC just issued: the (ticket, key) pair now in the cache
			e, found := cl.cache.getEntry("s")
			zzverif.Assert("renewed-entry-in-cache", found)
			zzverif.Assert("returned-ticket-is-the-renewed-one", zzverif.EqBytes(tkt.EncPart.Cipher, e.Ticket.EncPart.Cipher))
			zzverif.Assert("returned-key-was-issued-with-the-returned-ticket", zzverif.EqBytes(key.KeyValue, e.SessionKey.KeyValue))
		}
	}
}

// VH_C10_SessionRefresh: a TGT session with arbitrary times.  The TGT is refreshed exactly when it is in the
// last sixth of its life; the call returns (no lock is held across the refresh), and what it hands out is
// the (TGT, session key) pair the session holds afterwards.
func VH_C10_SessionRefresh() {
	cl := vhClient()
	auth, end, renew := zzverif.AnyTime(), zzverif.AnyTime(), zzverif.AnyTime()
	zzverif.Assume(auth.Before(end))
	oldTGT, oldKey := vhTicket("R", "krbtgt", "R"), vhKey()
	cl.sessions.Entries["R"] = &session{realm: "R", authTime: auth, endTime: end, renewTill: renew, tgt: oldTGT, sessionKey: oldKey}
	// the KDC renews the TGT when asked (TGS exchange); a fresh login (AS exchange) finds it unreachable
	var rep messages.TGSRep
	rep.PVNO, rep.MsgType, rep.CRealm, rep.CName = 5, 13, "R", cl.Credentials.CName()
	rep.EncPart = types.EncryptedData{EType: 18, Cipher: []byte{1}}
	rep.Ticket = messages.Ticket{TktVNO: 5, Realm: "R", SName: types.PrincipalName{NameType: 2, NameString: []string{"krbtgt", "R"}}, EncPart: types.EncryptedData{EType: 18, Cipher: []byte{7}}}
	var enc messages.EncKDCRepPart
	enc.Nonce = zzverif.Int()
	enc.SRealm, enc.SName = "R", rep.Ticket.SName
	enc.AuthTime, enc.StartTime = zzverif.Now(), zzverif.Now()
	enc.EndTime, enc.RenewTill = zzverif.Now().Add(time.Hour), zzverif.Now().Add(2*time.Hour)
	enc.Key = types.EncryptionKey{KeyType: 18, KeyValue: zzverif.Bytes(32)}
	if zzverif.Param("renewable") == 1 {
		zzverif.Assume(zzverif.Now().Before(renew))
		zzverif.ScriptStub(vhKDC, "val", []byte{1})
		zzverif.ScriptStub("TGSRep).Unmarshal", "val", rep)
		zzverif.ScriptStub("crypto.DecryptEncPart", "val", []byte{1})
		zzverif.ScriptStub("EncKDCRepPart).Unmarshal", "val", enc)
	} else {
		zzverif.Assume(!zzverif.Now().Before(renew))
	}
	for i := 0; i < 3; i++ {
		zzverif.ScriptStub(vhKDC, "err")
	}

	tgt, key, err := cl.sessionTGT("R")

	now := zzverif.Now()
	n := zzverif.CallCount(vhKDC)
	near := end.Sub(now) <= end.Sub(auth)/6
	zzverif.Assert("kdc-contacted-exactly-when-the-tgt-is-in-its-last-sixth", (n > 0) == near)
	if n == 0 {
		zzverif.Reach("still-fresh")
		zzverif.Assert("fresh-tgt-handed-out", err == nil && zzverif.EqBytes(tgt.EncPart.Cipher, oldTGT.EncPart.Cipher) && zzverif.EqBytes(key.KeyValue, oldKey.KeyValue))
	} else if err == nil {
		zzverif.Reach("refreshed")
		s, _ := cl.sessions.get("R")
		zzverif.Assert("handed-out-pair-is-the-sessions", zzverif.EqBytes(tgt.EncPart.Cipher, s.tgt.EncPart.Cipher) && zzverif.EqBytes(key.KeyValue, s.sessionKey.KeyValue))
		zzverif.Assert("renewed-pair-issued-together", zzverif.EqBytes(tgt.EncPart.Cipher, rep.Ticket.EncPart.Cipher) == zzverif.EqBytes(key.KeyValue, enc.Key.KeyValue))
	} else {
		zzverif.Reach("refresh-failed")
	}
}

// VH_C10_PreAuthTimestamp: the pre-authentication the client computes (PA-ENC-TIMESTAMP, RFC 4120 5.2.7.2): one
// PA-DATA of type 2 whose value is an EncryptedData under the client's own long-term key - derived from the
// password for the pre-auth enctype with the default salt, or taken from the keytab - with key usage 1, of a
// PA-ENC-TS-ENC carrying the current time.  ASN.1 and encryption are codec pairs.
func VH_C10_PreAuthTimestamp() {
	et := int32(zzverif.Param("etype"))
	cfg := vhConfig()
	cfg.LibDefaults.PreferredPreauthTypes = []int{int(et)}
	var cl *Client
	var want types.EncryptionKey
	if zzverif.Param("creds") == 0 {
		pw := zzverif.String(2)
		cl = NewWithPassword("u", "R", pw, cfg, DisablePAFXFAST(true), AssumePreAuthentication(true))
		want, _, _ = crypto.GetKeyFromPassword(pw, cl.Credentials.CName(), "R", et, types.PADataSequence{})
	} else {
		kt := keytab.New()
		want = types.EncryptionKey{KeyType: et, KeyValue: zzverif.Bytes(crypto.VHKeyLen(int(et)))}
		kt.VHAddEntry("R", []string{"u"}, et, 3, want.KeyValue, time.Unix(1500000000, 0))
		cl = NewWithKeytab("u", "R", kt, cfg, DisablePAFXFAST(true), AssumePreAuthentication(true))
	}
	req, err := messages.NewASReqForTGT("R", cl.Config, cl.Credentials.CName())
	zzverif.Assert("request-built", err == nil)
	// a stale pre-authentication value already in the request is replaced, not kept
	req.PAData = append(req.PAData, types.PAData{PADataType: 2, PADataValue: []byte{1}})
	err = setPAData(cl, nil, &req)
	now := zzverif.Now()
	zzverif.Assert("pre-authentication-computed", err == nil)
	n, at := 0, -1
	for i, pa := range req.PAData {
		if pa.PADataType == 2 {
			n++
			at = i
		}
	}
	zzverif.Assert("exactly-one-pa-enc-timestamp", n == 1 && len(req.PAData) == 1)
	if n != 1 {
		return
	}
	var ed types.EncryptedData
	zzverif.Assert("value-is-an-encrypted-data", ed.Unmarshal(req.PAData[at].PADataValue) == nil)
	zzverif.Assert("encrypted-for-the-preauth-etype", ed.EType == et)
	pt, derr := crypto.DecryptEncPart(ed, want, 1)
	zzverif.Assert("under-the-clients-long-term-key-with-usage-1", derr == nil)
	var ts types.PAEncTSEnc
	zzverif.Assert("plaintext-is-a-pa-enc-ts-enc", ts.Unmarshal(pt) == nil)
	// (GeneralizedTime has a granularity of one second: the microseconds travel in pausec)
	zzverif.Assert("timestamp-is-now", now.Sub(ts.PATimestamp) >= 0 && now.Sub(ts.PATimestamp) < time.Second)
	zzverif.Reach("checked")
}

// ---- C10: referral chains are followed only up to a fixed bound ---------------------------------------------

// VH_C10_TGSReferralChain: a KDC that answers k times with a referral TGT for yet another realm and
// then with the requested ticket.  The client must stop after a fixed number of requests.
func VH_C10_TGSReferralChain() {
	k := zzverif.Param("k")
	cl := vhClient()
	spn := types.PrincipalName{NameType: 2, NameString: []string{"s", "h"}}
	realm := "R"
	for i := 0; i <= k; i++ {
		var rep messages.TGSRep
		rep.PVNO, rep.MsgType = 5, 13
		rep.CRealm = "R"
		rep.CName = cl.Credentials.CName()
		rep.EncPart = types.EncryptedData{EType: 18, Cipher: []byte{byte(i)}}
		if i < k {
			next := zzverif.String(1) // the realm referred to: arbitrary
			rep.Ticket = messages.Ticket{TktVNO: 5, Realm: realm, SName: types.PrincipalName{NameType: 2, NameString: []string{"krbtgt", next}}, EncPart: types.EncryptedData{EType: 18, Cipher: []byte{9}}}
			realm = next
		} else {
			rep.Ticket = messages.Ticket{TktVNO: 5, Realm: realm, SName: spn, EncPart: types.EncryptedData{EType: 18, Cipher: []byte{7}}}
		}
		zzverif.ScriptStub(vhKDC, "val", []byte{byte(i)})
		zzverif.ScriptStub("TGSRep).Unmarshal", "val", rep)
		zzverif.ScriptStub("crypto.DecryptEncPart", "val", []byte{byte(i)})
		// the encrypted part: an arbitrary nonce (only the request's own nonce passes TGSRep.Verify), the
		// realm asked, KDC time = now, a fresh session key
		var enc messages.EncKDCRepPart
		enc.Nonce = zzverif.Int()
		enc.SRealm = rep.Ticket.Realm
		enc.AuthTime, enc.StartTime = zzverif.Now().Add(-time.Minute), zzverif.Now().Add(-time.Minute) // issued a minute ago: in force now
		enc.EndTime = zzverif.Now().Add(time.Hour)
		enc.Key = types.EncryptionKey{KeyType: 18, KeyValue: zzverif.Bytes(32)}
		enc.SName = rep.Ticket.SName
		zzverif.ScriptStub("EncKDCRepPart).Unmarshal", "val", enc)
	}
	_, _, err := cl.TGSREQGenerateAndExchange(spn, "R", vhTicket("R", "krbtgt", "R"), vhKey(), false)
	n := zzverif.CallCount(vhKDC)
	// "a fixed bound": the library's own limit is 6 referrals; any limit up to vhReferralBound passes, chains longer
	// than that must not be followed to their end
	zzverif.Assert("tgs-requests-bounded", n <= vhReferralBound)
	if err == nil {
		zzverif.Reach("ticket-obtained")
		zzverif.Assert("success-only-within-the-referral-bound", k < vhReferralBound)
	} else {
		zzverif.Reach("failed")
	}
	if n == k+1 {
		zzverif.Reach("chain-followed-to-the-end")
	}
}

const vhReferralBound = 16

// VH_C10_ASReferralChain: a KDC that answers every AS-REQ with KDC_ERR_WRONG_REALM (client referral).
func VH_C10_ASReferralChain() {
	k := zzverif.Param("k")
	cl := vhClient()
	req, err := messages.NewASReqForTGT("R", cl.Config, cl.Credentials.CName())
	zzverif.Assert("request-built", err == nil)
	for i := 0; i < k; i++ {
		zzverif.ScriptStub(vhKDC, "krberr", int32(68), zzverif.String(1))
	}
	zzverif.ScriptStub(vhKDC, "err")
	_, err = cl.ASExchange("R", req, 0)
	n := zzverif.CallCount(vhKDC)
	zzverif.Assert("as-requests-bounded", n <= vhReferralBound)
	zzverif.Assert("exchange-without-a-reply-fails", err != nil)
	zzverif.Reach("done")
}

// VH_C09_KRBErrorSurfaces: any KRB-ERROR other than the ones the client acts on ends the exchange with an error.
func VH_C09_KRBErrorSurfaces() {
	cl := vhClient()
	req, err := messages.NewASReqForTGT("R", cl.Config, cl.Credentials.CName())
	zzverif.Assert("request-built", err == nil)
	code := zzverif.Int32()
	zzverif.Assume(code >= 0 && code != 25 && code != 24 && code != 68) // PREAUTH_REQUIRED, PREAUTH_FAILED, WRONG_REALM
	zzverif.ScriptStub(vhKDC, "krberr", code, "")
	_, err = cl.ASExchange("R", req, 0)
	zzverif.Assert("krb-error-ends-the-as-exchange-with-an-error", err != nil)
	zzverif.Assert("no-further-request-after-a-final-krb-error", zzverif.CallCount(vhKDC) == 1)
	spn := types.PrincipalName{NameType: 2, NameString: []string{"s", "h"}}
	code2 := zzverif.Int32()
	zzverif.Assume(code2 >= 0)
	zzverif.ScriptStub(vhKDC, "krberr", code2, "")
	_, _, err = cl.TGSREQGenerateAndExchange(spn, "R", vhTicket("R", "krbtgt", "R"), vhKey(), false)
	zzverif.Assert("krb-error-ends-the-tgs-exchange-with-an-error", err != nil)
	zzverif.Assert("one-tgs-request", zzverif.CallCount(vhKDC) == 2)
	zzverif.Reach("done")
}

// ---- C11: the client's shared state is used by goroutines without data races or deadlocks -----------------

// vhUse reads every byte of b the way a caller that was handed b does (plain loads, outside any lock).
func vhUse(b []byte) []byte {
	out := make([]byte, 0, len(b))
	for i := range b {
		out = append(out, b[i])
	}
	return out
}

func vhCacheOp(c *Cache, op int, tkt messages.Ticket, key types.EncryptionKey, out *[2][]byte) {
	switch op {
	case 0:
		// a caller that is handed a (ticket, key) pair goes on to use it
		if e, ok := c.getEntry("s"); ok {
			zzverif.Yield() // ... not necessarily at once: the other goroutine may run in between
			out[0], out[1] = vhUse(e.Ticket.EncPart.Cipher), vhUse(e.SessionKey.KeyValue)
		}
	case 1:
		now := time.Unix(1700000000, 0)
		c.addEntry(tkt, now, now, now.Add(time.Hour), now.Add(2*time.Hour), key)
	case 2:
		c.RemoveEntry("s")
	case 3:
		c.clear()
	case 4:
		c.JSON()
	}
}

// VH_C11_CachePair: every pair of operations on one service-ticket cache, every interleaving.
func VH_C11_CachePair() {
	a, b := zzverif.Param("a"), zzverif.Param("b")
	c := NewCache()
	t1, k1 := vhTicket("R", "s"), vhKey()
	t2, k2 := vhTicket("R", "s"), vhKey()
	var oa, ob [2][]byte
	k1v, k2v := append([]byte{}, k1.KeyValue...), append([]byte{}, k2.KeyValue...) // the keys as issued
	vhCacheOp(c, 1, t1, k1, &oa)
	zzverif.Par(func() { vhCacheOp(c, a, t2, k2, &oa) }, func() { vhCacheOp(c, b, t1, k1, &ob) })
	// a pair handed to a caller stays the pair that was issued, whatever the other goroutine does to the cache
	for _, o := range [][2][]byte{oa, ob} {
		if o[0] != nil {
			p1 := zzverif.And(zzverif.EqBytes(o[0], t1.EncPart.Cipher), zzverif.EqBytes(o[1], k1v))
			p2 := zzverif.And(zzverif.EqBytes(o[0], t2.EncPart.Cipher), zzverif.EqBytes(o[1], k2v))
			zzverif.Assert("ticket-and-key-handed-out-stay-the-pair-issued", zzverif.Or(p1, p2))
		}
	}
	// whatever is in the cache is a (ticket, key) pair that was added together
	if e, ok := c.getEntry("s"); ok {
		p1 := zzverif.And(zzverif.EqBytes(e.Ticket.EncPart.Cipher, t1.EncPart.Cipher), zzverif.EqBytes(e.SessionKey.KeyValue, k1.KeyValue))
		p2 := zzverif.And(zzverif.EqBytes(e.Ticket.EncPart.Cipher, t2.EncPart.Cipher), zzverif.EqBytes(e.SessionKey.KeyValue, k2.KeyValue))
		zzverif.Assert("cached-ticket-and-key-were-issued-together", zzverif.Or(p1, p2))
	}
	zzverif.Reach("done")
}

func vhSessionOp(ss *sessions, s *session, op int, tkt messages.Ticket, dep messages.EncKDCRepPart, out *[2][]byte) {
	switch op {
	case 0:
		ss.get("R")
	case 1:
		ss.update(s)
	case 2:
		s.update(tkt, dep)
	case 3:
		_, t, k := s.tgtDetails()
		out[0], out[1] = t.EncPart.Cipher, k.KeyValue
	case 4:
		s.timeDetails()
	case 5:
		s.valid()
	case 6:
		ss.JSON()
	}
}

// VH_C11_SessionPair: every pair of operations on one TGT session, every interleaving; a (TGT, session
// key) pair read by tgtDetails is one that a single update wrote.
func VH_C11_SessionPair() {
	a, b := zzverif.Param("a"), zzverif.Param("b")
	ss := &sessions{Entries: make(map[string]*session)}
	t1, k1 := vhTicket("R", "krbtgt", "R"), vhKey()
	t2, k2 := vhTicket("R", "krbtgt", "R"), vhKey()
	now := time.Unix(1700000000, 0)
	d1 := messages.EncKDCRepPart{Key: k1, AuthTime: now, EndTime: now.Add(time.Hour), RenewTill: now.Add(2 * time.Hour)}
	d2 := messages.EncKDCRepPart{Key: k2, AuthTime: now, EndTime: now.Add(time.Hour), RenewTill: now.Add(2 * time.Hour)}
	s := &session{realm: "R"}
	s.update(t1, d1)
	ss.update(s)
	var oa, ob [2][]byte
	zzverif.Par(func() { vhSessionOp(ss, s, a, t2, d2, &oa) }, func() { vhSessionOp(ss, s, b, t2, d2, &ob) })
	for _, o := range [][2][]byte{oa, ob} {
		if o[0] != nil {
			p1 := zzverif.And(zzverif.EqBytes(o[0], t1.EncPart.Cipher), zzverif.EqBytes(o[1], k1.KeyValue))
			p2 := zzverif.And(zzverif.EqBytes(o[0], t2.EncPart.Cipher), zzverif.EqBytes(o[1], k2.KeyValue))
			zzverif.Assert("tgt-and-session-key-read-together-were-issued-together", zzverif.Or(p1, p2))
		}
	}
	zzverif.Reach("done")
}

// ---- C12: the exchange succeeds whenever some configured KDC and permitted transport works ----------------

// VH_C12_SendToKDC: n KDCs; each (KDC, transport) endpoint answers, refuses, stays silent/closes early
// or (TCP) closes mid-reply; the size preference decides which transport is tried first.
func VH_C12_SendToKDC() {
	n, pref := zzverif.Param("kdcs"), zzverif.Param("pref")
	c := vhConfig()
	var kdcs []string
	for i := 1; i <= n; i++ {
		kdcs = append(kdcs, zzverif.Endpoint(i))
	}
	c.Realms = []config.Realm{{Realm: "R", KDC: kdcs}}
	req := []byte{1, 2, 3, 4, 5, 6, 7, 8, 9, 10}
	switch pref {
	case 0:
		c.LibDefaults.UDPPreferenceLimit = 1 // always TCP
	case 1:
		c.LibDefaults.UDPPreferenceLimit = 5 // smaller than the request: TCP first, then UDP
	case 2:
		c.LibDefaults.UDPPreferenceLimit = 1465 // larger than the request: UDP first, then TCP
	}
	cl := NewWithPassword("u", "R", "p", c, DisablePAFXFAST(true))
	vhC12Exchange(cl, n, pref, req)
	if zzverif.Param("exchanges") == 2 {
		// a second exchange by the same client, the endpoints behaving in an unrelated way: what the first
		// exchange taught the client must not cost it a working KDC now
		zzverif.NextEpoch()
		zzverif.Reach("second-exchange")
		vhC12Exchange(cl, n, pref, req)
	}
}

// vhC12Exchange: one exchange and its oracle (relative to the stub and dial counters at its start).
func vhC12Exchange(cl *Client, n, pref int, req []byte) {
	nk0 := zzverif.CallCount("KRBError).Unmarshal")
	dials0 := zzverif.GhostCount("dials")
	rb, err := cl.sendToKDC(req, "R")
	// ---- what the endpoints are like (ghost knowledge) and what the code did ---------------------------
	nk := zzverif.CallCount("KRBError).Unmarshal")
	dials := zzverif.GhostCount("dials") - dials0
	zzverif.Assert("bounded-connection-attempts", dials <= 4*n) // each (KDC, transport) endpoint at most twice
	tcpAllowed, udpAllowed := true, pref != 0
	anyAnswers := false
	for i := 1; i <= n; i++ {
		anyAnswers = zzverif.Any(anyAnswers, zzverif.And(tcpAllowed, zzverif.EndpointAnswers(i, true)), zzverif.And(udpAllowed, zzverif.EndpointAnswers(i, false)))
	}
	// did any of the replies that were looked at decode as a KRB-ERROR?
	sawKRBError := false
	var lastErr messages.KRBError
	for c := nk0; c < nk; c++ {
		if zzverif.CallOK("KRBError).Unmarshal", c) {
			sawKRBError = true
			lastErr = *zzverif.CallArg("KRBError).Unmarshal", c, 0).(*messages.KRBError)
		}
	}
	if err == nil {
		zzverif.Reach("answered")
		// the bytes returned are the complete reply of an endpoint that answers
		genuine := false
		for i := 1; i <= n; i++ {
			genuine = zzverif.Or(genuine, zzverif.And(len(rb) == 3 && rb[0] == 0x6b && rb[1] == byte(i), zzverif.Or(zzverif.EndpointAnswers(i, true), zzverif.EndpointAnswers(i, false))))
		}
		zzverif.Assert("returned-bytes-are-the-complete-answer-of-a-working-kdc", genuine)
	} else {
		zzverif.Reach("failed")
		// a KDC that answers over a permitted transport means success, unless a KRB-ERROR was received
		zzverif.Assert("working-kdc-and-transport-means-success", zzverif.Or(!anyAnswers, sawKRBError))
		if sawKRBError {
			zzverif.Reach("krb-error")
			if ke, ok := err.(messages.KRBError); ok {
				zzverif.Assert("surfaced-error-is-the-kdcs-krb-error", ke.ErrorCode == lastErr.ErrorCode)
			} else {
				// a KRB-ERROR may be passed over only to retry: RESPONSE_TOO_BIG over UDP (then the TCP outcome counts)
				zzverif.Assert("krb-error-not-surfaced-only-for-response-too-big", lastErr.ErrorCode == 52)
			}
		}
	}
}

// VH_C04_SendTCP: a peer on the KDC's TCP port announces any reply length.
func VH_C04_SendTCP() {
	c := vhConfig()
	c.Realms = []config.Realm{{Realm: "R", KDC: []string{zzverif.Endpoint(1)}}}
	c.LibDefaults.UDPPreferenceLimit = 1
	cl := NewWithPassword("u", "R", "p", c, DisablePAFXFAST(true))
	cl.sendToKDC([]byte{1, 2, 3}, "R")
	zzverif.Reach("returned")
}


// ---- C20: the client's diagnostics, log lines and errors never show its secrets ----------------------------

// VH_C20_ClientDiagnostics: a client with a secret password or keytab key, a TGT session with a secret
// session key and a cached service ticket with a secret session key; everything written by Print and
// Diagnostics, every log line, and the errors of a login against an arbitrary KDC.
func VH_C20_ClientDiagnostics() {
	lg := log.New(zzverif.Sink{Label: "client-log"}, "", 0)
	var cl *Client
	if zzverif.Param("creds") == 0 {
		cl = NewWithPassword("u", "R", string(zzverif.Secret(8)), vhConfig(), Logger(lg), DisablePAFXFAST(true))
	} else {
		kt := keytab.New()
		kt.VHAddEntry("R", []string{"u"}, int32(zzverif.Param("ktetype")), 1, zzverif.Secret(32), time.Unix(1500000000, 0))
		if zzverif.Param("ktetype") != 18 {
			// a second key, of the configured enctype, next to the one the configuration does not list
			kt.VHAddEntry("R", []string{"u"}, 18, 1, zzverif.Secret(32), time.Unix(1500000000, 0))
		}
		cl = NewWithKeytab("u", "R", kt, vhConfig(), Logger(lg), DisablePAFXFAST(true))
	}
	t0 := time.Unix(1600000000, 0)
	t1 := t0.Add(10 * time.Hour)
	cl.addSession(vhTicket("R", "krbtgt", "R"), messages.EncKDCRepPart{Key: types.EncryptionKey{KeyType: 18, KeyValue: zzverif.Secret(16)}, AuthTime: t0, EndTime: t1, RenewTill: t1})
	cl.cache.addEntry(vhTicket("R", "HTTP", "h"), t0, t0, t1, t1, types.EncryptionKey{KeyType: 18, KeyValue: zzverif.Secret(16)})
	cl.Print(zzverif.Sink{Label: "client-print"})
	err := cl.Diagnostics(zzverif.Sink{Label: "client-diagnostics"})
	zzverif.Public("client-diagnostics-error", err)
	zzverif.Reach("printed")
	if zzverif.Param("login") == 1 {
		// the KDC: unreachable, answering with a KRB-ERROR, or with bytes that do not decode
		for i := 0; i < 4; i++ {
			switch zzverif.Param("kdc") {
			case 0:
				zzverif.ScriptStub(vhKDC, "err")
			case 1:
				zzverif.ScriptStub(vhKDC, "krberr", int32(zzverif.Param("code")), "R")
			default:
				zzverif.ScriptStub(vhKDC, "val")
				zzverif.ScriptStub("ASRep).Unmarshal", "err")
				zzverif.ScriptStub("TGSRep).Unmarshal", "err")
				zzverif.ScriptStub("KRBError).Unmarshal", "err")
			}
		}
		err = cl.Login()
		zzverif.Public("client-login-error", err)
		_, _, err = cl.GetServiceTicket("HTTP/other")
		zzverif.Public("client-ticket-error", err)
		zzverif.Reach("exchanged")
	}
}


// ---- C15: a client built from a credential cache holds exactly the cache's tickets and keys ----------------

// VH_C15_ClientFromCCache: a parsed credential cache (the model: default principal, a TGT credential, n service
// credentials with distinct server names, optionally a configuration entry) is handed to NewFromCCache.  The
// client's TGT session holds the TGT credential's ticket, key and times; its service-ticket cache holds, for
// every credential, that credential's ticket, key and times under the server's name; configuration entries
// contribute nothing.  Ticket encodings are codec pairs (the ASN.1 layer is C13's subject).
func VH_C15_ClientFromCCache() {
	n := zzverif.Param("creds")
	cc := new(credentials.CCache)
	cc.Version = 4
	cc.DefaultPrincipal.Realm = "R"
	cc.DefaultPrincipal.PrincipalName = types.NewPrincipalName(1, "u")
	type model struct {
		tkt   messages.Ticket
		key   types.EncryptionKey
		times [4]time.Time
		spn   string
	}
	mk := func(sn types.PrincipalName) (*credentials.Credential, model) {
		m := model{tkt: messages.Ticket{TktVNO: 5, Realm: "R", SName: sn, EncPart: types.EncryptedData{EType: 18, KVNO: 1, Cipher: zzverif.Bytes(2)}},
			key: types.EncryptionKey{KeyType: zzverif.Int32(), KeyValue: zzverif.Bytes(2)}, spn: sn.PrincipalNameString()}
		for i := range m.times {
			m.times[i] = zzverif.AnyTime()
		}
		b, err := m.tkt.Marshal()
		zzverif.Assume(err == nil)
		cr := &credentials.Credential{Key: m.key, AuthTime: m.times[0], StartTime: m.times[1], EndTime: m.times[2], RenewTill: m.times[3], Ticket: b}
		cr.Client.Realm, cr.Client.PrincipalName = "R", cc.DefaultPrincipal.PrincipalName
		cr.Server.Realm, cr.Server.PrincipalName = "R", sn
		return cr, m
	}
	if zzverif.Param("conf") == 1 {
		// a configuration entry (its "ticket" is not a ticket at all)
		cf := &credentials.Credential{Ticket: []byte{1, 2, 3}}
		cf.Server.Realm, cf.Server.PrincipalName = "X-CACHECONF:", types.NewPrincipalName(0, "krb5_ccache_conf_data/fast_avail")
		cc.Credentials = append(cc.Credentials, cf)
	}
	var ms []model
	for i := 0; i < n; i++ {
		cr, m := mk(types.NewPrincipalName(2, "svc"+string(rune('a'+i))+"/h"))
		cc.Credentials = append(cc.Credentials, cr)
		ms = append(ms, m)
	}
	tgtCred, tgt := mk(types.PrincipalName{NameType: 2, NameString: []string{"krbtgt", "R"}})
	cc.Credentials = append(cc.Credentials, tgtCred)
	ms = append(ms, tgt)

	cl, err := NewFromCCache(cc, vhConfig())

	zzverif.Assert("client-built", err == nil && cl != nil)
	if err != nil {
		return
	}
	s, ok := cl.sessions.get("R")
	zzverif.Assert("tgt-session-for-the-default-realm", ok)
	if ok {
		zzverif.Assert("session-holds-the-tgt-credential", zzverif.All(zzverif.EqBytes(s.tgt.EncPart.Cipher, tgt.tkt.EncPart.Cipher), s.sessionKey.KeyType == tgt.key.KeyType,
			zzverif.EqBytes(s.sessionKey.KeyValue, tgt.key.KeyValue), s.authTime.Equal(tgt.times[0]), s.endTime.Equal(tgt.times[2]), s.renewTill.Equal(tgt.times[3])))
	}
	for _, m := range ms {
		e, ok := cl.cache.getEntry(m.spn)
		zzverif.Assert("every-credential-is-in-the-ticket-cache", ok)
		if ok {
			zzverif.Assert("cache-entry-holds-the-credentials-ticket-key-and-times", zzverif.All(zzverif.EqBytes(e.Ticket.EncPart.Cipher, m.tkt.EncPart.Cipher), e.Ticket.SName.Equal(m.tkt.SName),
				e.SessionKey.KeyType == m.key.KeyType, zzverif.EqBytes(e.SessionKey.KeyValue, m.key.KeyValue),
				e.AuthTime.Equal(m.times[0]), e.StartTime.Equal(m.times[1]), e.EndTime.Equal(m.times[2]), e.RenewTill.Equal(m.times[3])))
		}
	}
	zzverif.Assert("nothing-else-in-the-ticket-cache", len(cl.cache.Entries) == len(ms))
	zzverif.Assert("identity-is-the-default-principal", cl.Credentials.UserName() == "u" && cl.Credentials.Domain() == "R")
	zzverif.Reach("checked")
}
