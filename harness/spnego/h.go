package spnego

import (
	"encoding/base64"
	"errors"
	"io"
	"net/http"
	"net/url"
	"strings"
	"time"

	"github.com/jcmturner/goidentity/v6"
	"github.com/jcmturner/gokrb5/v8/client"
	"github.com/jcmturner/gokrb5/v8/config"
	"github.com/jcmturner/gokrb5/v8/credentials"
	"github.com/jcmturner/gokrb5/v8/crypto"
	"github.com/jcmturner/gokrb5/v8/gssapi"
	"github.com/jcmturner/gokrb5/v8/keytab"
	"github.com/jcmturner/gokrb5/v8/messages"
	"github.com/jcmturner/gokrb5/v8/service"
	"github.com/jcmturner/gokrb5/v8/types"
	"github.com/jcmturner/gokrb5/v8/zzverif"
)

// ---- C03: the wrapped handler is reached only by authenticated requests -----------------------------------

// vhRW records what the wrapper writes to the client.
type vhRW struct {
	hdr  http.Header
	code int
	body []byte
}

func (w *vhRW) Header() http.Header { return w.hdr }
func (w *vhRW) Write(b []byte) (int, error) {
	if w.code == 0 {
		w.code = 200
	}
	w.body = append(w.body, b...)
	return len(b), nil
}
func (w *vhRW) WriteHeader(c int) {
	if w.code == 0 {
		w.code = c
	}
}

// vhSM is the application's session store: one session; `present` says whether the request being
// served carries its cookie, `failNew` makes the store fail when a session is created.
type vhSM struct {
	stored  []byte
	has     bool
	news    int
	failNew bool
	present bool
}

func (s *vhSM) New(w http.ResponseWriter, r *http.Request, k string, v []byte) error {
	if s.failNew || k != sessionCredentials {
		return errors.New("session store failure")
	}
	s.stored, s.has = v, true
	s.news++
	return nil
}

func (s *vhSM) Get(r *http.Request, k string) ([]byte, error) {
	if !s.has || !s.present || k != sessionCredentials {
		return nil, errors.New("no session")
	}
	return s.stored, nil
}

// vhInner is the wrapped (protected) handler.
type vhInner struct {
	calls       int
	hasID       bool
	authed      bool
	user, realm string
}

func (h *vhInner) ServeHTTP(w http.ResponseWriter, r *http.Request) {
	h.calls++
	if id := goidentity.FromHTTPRequestContext(r); id != nil {
		h.hasID, h.authed, h.user, h.realm = true, id.Authenticated(), id.UserName(), id.Domain()
	}
}

// VH_C03_Handler: a sequence of requests through SPNEGOKRB5Authenticate.  Each request has no
// Authorization header, an arbitrary short one, "Negotiate " + arbitrary characters, or a decodable
// Negotiate token (what it decodes to is the decoder stubs' choice: any NegTokenInit/NegTokenResp/raw KRB5
// framing, any mech list, AP-REQ / AP-REP / KRB-ERROR mech tokens).  The service's verdict on an AP-REQ
// is the stub's (C01 is about that verdict).
func VH_C03_Handler() {
	nreq := zzverif.Param("requests")
	withSM := zzverif.Param("sm") == 1
	sm := &vhSM{}
	inner := &vhInner{}
	var opts []func(*service.Settings)
	if withSM {
		opts = append(opts, service.SessionManager(sm))
	}
	h := SPNEGOKRB5Authenticate(inner, keytab.New(), opts...)
	// what the AP-REQ verification says the k-th time it is asked
	users := make([]string, nreq)
	realms := make([]string, nreq)
	for k := 0; k < nreq; k++ {
		users[k], realms[k] = zzverif.String(1), zzverif.String(1)
		creds := credentials.New(users[k], realms[k])
		creds.SetAuthenticated(true)
		if zzverif.Bool() {
			zzverif.ScriptStub("service.VerifyAPREQ", "val", true, creds)
		} else {
			zzverif.ScriptStub("service.VerifyAPREQ", "err", creds)
		}
	}
	sessUser, sessRealm := "", ""
	for i := 0; i < nreq; i++ {
		w := &vhRW{hdr: http.Header{}}
		r := &http.Request{Header: http.Header{}, RemoteAddr: "c"}
		shape := zzverif.Param("shape")
		if shape == -1 {
			shape = zzverif.Choose(0, 3)
		} else if shape == -2 {
			shape = 0
			if zzverif.Bool() {
				shape = 3
			}
		}
		switch shape {
		case 0:
		case 1:
			r.Header.Set("Authorization", zzverif.String(zzverif.Param("hlen")))
		case 2:
			r.Header.Set("Authorization", "Negotiate "+zzverif.String(zzverif.Param("b64len")))
		default:
			r.Header.Set("Authorization", "Negotiate AAAA")
		}
		sm.present = zzverif.Bool()
		sm.failNew = zzverif.Bool()
		n0 := zzverif.CallCount("service.VerifyAPREQ")
		sessBefore, newsBefore := sm.has, sm.news
		*inner = vhInner{}

		h.ServeHTTP(w, r)

		asked := zzverif.CallCount("service.VerifyAPREQ") - n0
		zzverif.Assert("verifier-asked-at-most-once-per-request", asked <= 1)
		accepted := asked == 1 && zzverif.CallOK("service.VerifyAPREQ", n0)
		viaSession := withSM && sm.present && sessBefore
		if inner.calls > 0 {
			zzverif.Reach("served")
			zzverif.Assert("served-once", inner.calls == 1)
			zzverif.Assert("served-only-when-authenticated", accepted || viaSession)
			zzverif.Assert("served-with-an-authenticated-identity", inner.hasID && inner.authed)
			if viaSession {
				zzverif.Reach("served-under-session")
				zzverif.Assert("session-identity-is-its-creators", inner.user == sessUser && inner.realm == sessRealm)
			} else if accepted {
				zzverif.Assert("identity-is-the-accepted-one", inner.user == users[n0] && inner.realm == realms[n0])
			}
			zzverif.Assert("served-request-not-refused", w.code == 0)
		} else {
			zzverif.Reach("refused")
			is401 := w.code == 401 && strings.HasPrefix(w.hdr.Get("WWW-Authenticate"), "Negotiate")
			is5xx := w.code >= 500 && withSM && sm.failNew && accepted
			zzverif.Assert("refused-with-401-negotiate-or-5xx-on-store-failure", is401 || is5xx)
			zzverif.Assert("accepted-request-is-served", !accepted || is5xx)
			zzverif.Assert("session-request-is-served", !viaSession)
		}
		if sm.news > newsBefore {
			zzverif.Reach("session-created")
			zzverif.Assert("session-only-for-accepted", accepted)
			if accepted {
				sessUser, sessRealm = users[n0], realms[n0]
			}
		}
	}
}

// VH_C03_TokenVerify: no verification API reports success for a token that does not contain an AP-REQ
// the service accepted; an accepted AP-REQ is reported.
func VH_C03_TokenVerify() {
	api := zzverif.Param("api")
	user, realm := zzverif.String(1), zzverif.String(1)
	creds := credentials.New(user, realm)
	creds.SetAuthenticated(true)
	if zzverif.Bool() {
		zzverif.ScriptStub("service.VerifyAPREQ", "val", true, creds)
	} else {
		zzverif.ScriptStub("service.VerifyAPREQ", "err", creds)
	}
	set := service.NewSettings(keytab.New())
	var st SPNEGOToken
	var kt KRB5Token
	if api == 4 {
		if kt.Unmarshal(zzverif.Bytes(1)) != nil {
			return
		}
	} else if st.Unmarshal(zzverif.Bytes(1)) != nil {
		return
	}
	ok := false
	var status gssapi.Status
	var id interface{}
	switch api {
	case 0:
		s := SPNEGOService(keytab.New())
		var a bool
		a, ctx, stt := s.AcceptSecContext(&st)
		ok, status = a, stt
		if ctx != nil {
			id = ctx.Value(ctxCredentials)
		}
	case 1:
		st.settings = set
		ok, status = st.Verify()
		if c := st.Context(); c != nil {
			id = c.Value(ctxCredentials)
		}
	case 2:
		n := st.NegTokenInit
		n.settings = set
		ok, status = n.Verify()
		if c := n.Context(); c != nil {
			id = c.Value(ctxCredentials)
		}
	case 3:
		n := st.NegTokenResp
		n.settings = set
		ok, status = n.Verify()
		if c := n.Context(); c != nil {
			id = c.Value(ctxCredentials)
		}
	default:
		kt.settings = set
		ok, status = kt.Verify()
		if c := kt.Context(); c != nil {
			id = c.Value(ctxCredentials)
		}
	}
	asked := zzverif.CallCount("service.VerifyAPREQ")
	accepted := asked == 1 && zzverif.CallOK("service.VerifyAPREQ", 0)
	if ok {
		zzverif.Reach("verified")
		zzverif.Assert("success-only-for-an-accepted-ap-req", accepted)
		zzverif.Assert("success-status-complete", status.Code == gssapi.StatusComplete)
		c, isCreds := id.(*credentials.Credentials)
		zzverif.Assert("context-carries-the-accepted-identity", isCreds && c != nil && c.UserName() == user && c.Domain() == realm)
	} else {
		zzverif.Reach("not-verified")
		zzverif.Assert("accepted-ap-req-is-reported", !accepted)
		zzverif.Assert("failure-status-not-complete", status.Code != gssapi.StatusComplete)
	}
}

// ---- C18: the SPNEGO HTTP client authenticates once, replays the body, and terminates -------------------------

const vhMaxRequests = 24 // 10 redirects, each target challenged once, plus slack

type vhBody struct {
	data []byte
	off  int
}

func (b *vhBody) Read(p []byte) (int, error) {
	if b.off >= len(b.data) {
		return 0, io.EOF
	}
	n := copy(p, b.data[b.off:])
	b.off += n
	return n, nil
}
func (b *vhBody) Close() error { return nil }

type vhEmpty struct{}

func (vhEmpty) Read(p []byte) (int, error) { return 0, io.EOF }
func (vhEmpty) Close() error               { return nil }

// vhServer is the scripted server behind the client's transport.
//
//	0: 200   1: 401 bare Negotiate   2: 401 Negotiate + reject token   3: 401 other scheme
//	4: 302 same host   5: 302 other host   6: 500   7: transport error
type vhServer struct {
	script  []int
	tail    int
	early   bool // the server may answer before it has read the whole request body
	n       int
	kinds   []int
	auth    []string
	hosts   []string
	methods []string
	bodies  [][]byte
	partial []bool
}

func (s *vhServer) RoundTrip(req *http.Request) (*http.Response, error) {
	k := s.tail
	if s.n < len(s.script) {
		k = s.script[s.n]
	}
	s.n++
	zzverif.Assert("bounded-number-of-requests", s.n <= vhMaxRequests)
	if s.n > vhMaxRequests {
		k = 7 // lets the native run end
	}
	s.kinds = append(s.kinds, k)
	s.auth = append(s.auth, req.Header.Get("Authorization"))
	s.hosts = append(s.hosts, req.URL.Host)
	s.methods = append(s.methods, req.Method)
	var got []byte
	part := false
	if req.Body != nil {
		if s.early && zzverif.Bool() {
			one := make([]byte, 1)
			n, _ := req.Body.Read(one)
			got, part = one[:n], true
		} else {
			got, _ = io.ReadAll(req.Body)
		}
		req.Body.Close()
	}
	s.bodies = append(s.bodies, got)
	s.partial = append(s.partial, part)
	resp := &http.Response{StatusCode: 200, Header: http.Header{}, Body: vhEmpty{}, Request: req}
	switch k {
	case 1:
		resp.StatusCode = 401
		resp.Header.Set("WWW-Authenticate", "Negotiate")
	case 2:
		resp.StatusCode = 401
		resp.Header.Set("WWW-Authenticate", spnegoNegTokenRespReject)
	case 3:
		resp.StatusCode = 401
		resp.Header.Set("WWW-Authenticate", "Basic realm=x")
	case 4:
		resp.StatusCode = 302
		resp.Header.Set("Location", "/next")
	case 5:
		resp.StatusCode = 302
		resp.Header.Set("Location", "http://h2/")
	case 6:
		resp.StatusCode = 500
	case 7:
		return nil, errors.New("connection reset")
	case 8:
		resp.StatusCode = 307
		resp.Header.Set("Location", "/next")
	}
	return resp, nil
}

var vhCodes = []int{200, 401, 401, 401, 302, 302, 500, 0, 307}

// vhTokenIsFor: what an acceptor holding the session key reads out of an Authorization header.
func vhTokenIsFor(hdr string, tkt messages.Ticket, key types.EncryptionKey, crealm, cname string) bool {
	if !strings.HasPrefix(hdr, "Negotiate ") {
		return false
	}
	b, err := base64.StdEncoding.DecodeString(hdr[len("Negotiate "):])
	if err != nil {
		return false
	}
	var st SPNEGOToken
	if st.Unmarshal(b) != nil || !st.Init || st.Resp {
		return false
	}
	if len(st.NegTokenInit.MechTypes) < 1 || !st.NegTokenInit.MechTypes[0].Equal(gssapi.OIDKRB5.OID()) {
		return false
	}
	var kt KRB5Token
	if kt.Unmarshal(st.NegTokenInit.MechTokenBytes) != nil || !kt.IsAPReq() {
		return false
	}
	a := kt.APReq
	if a.PVNO != 5 || a.MsgType != 14 {
		return false
	}
	sameTkt := zzverif.All(a.Ticket.TktVNO == tkt.TktVNO, a.Ticket.Realm == tkt.Realm, a.Ticket.SName.Equal(tkt.SName),
		a.Ticket.EncPart.EType == tkt.EncPart.EType, a.Ticket.EncPart.KVNO == tkt.EncPart.KVNO, zzverif.EqBytes(a.Ticket.EncPart.Cipher, tkt.EncPart.Cipher))
	if !sameTkt {
		return false
	}
	// RFC 4120 key usage 11: AP-REQ authenticator, encrypted under the ticket's session key
	ab, err := crypto.DecryptEncPart(a.EncryptedAuthenticator, key, 11)
	if err != nil {
		return false
	}
	var au types.Authenticator
	if au.Unmarshal(ab) != nil {
		return false
	}
	now := zzverif.Now()
	fresh := zzverif.And(now.Sub(au.CTime) <= 5*time.Minute, au.CTime.Sub(now) <= 5*time.Minute)
	// RFC 4121 4.1.1: checksum type 0x8003, 16-byte binding length, flags integ|conf
	ck := au.Cksum.Checksum
	gss := au.Cksum.CksumType == 0x8003 && len(ck) >= 24 && ck[0] == 16 && ck[1] == 0 && ck[2] == 0 && ck[3] == 0 &&
		ck[20] == byte(gssapi.ContextFlagInteg|gssapi.ContextFlagConf) && ck[21] == 0 && ck[22] == 0 && ck[23] == 0
	return zzverif.All(au.AVNO == 5, au.CRealm == crealm, len(au.CName.NameString) == 1 && au.CName.NameString[0] == cname, fresh, gss)
}

// VH_C18_Do: Client.Do against every scripted server behaviour of the given length plus constant tail.
func VH_C18_Do() {
	srv := &vhServer{early: zzverif.Param("early") == 1}
	for i := 0; i < zzverif.Param("len"); i++ {
		srv.script = append(srv.script, zzverif.Choose(0, zzverif.Param("kinds")-1))
	}
	srv.tail = zzverif.Choose(0, zzverif.Param("kinds")-1)
	method := []string{"GET", "HEAD", "POST"}[zzverif.Param("method")]
	var data []byte
	req := &http.Request{Method: method, URL: &url.URL{Scheme: "http", Host: "h1", Path: "/"}, Header: http.Header{}}
	if method == "POST" {
		data = zzverif.Bytes(zzverif.Param("body"))
		req.Body = &vhBody{data: data}
		req.ContentLength = int64(len(data))
		if zzverif.Param("getbody") == 1 {
			req.GetBody = func() (io.ReadCloser, error) { return &vhBody{data: data}, nil }
		}
	}
	spn := ""
	if zzverif.Param("spn") == 1 {
		spn = "HTTP/svc"
	}
	kcl := client.NewWithPassword("u", "R", "p", &config.Config{}) // config.New() consults os/user; the SPNEGO client reads nothing from it
	tkt := messages.Ticket{TktVNO: 5, Realm: "R", SName: types.NewPrincipalName(1, "HTTP/h1"),
		EncPart: types.EncryptedData{EType: 18, KVNO: 1, Cipher: zzverif.Bytes(2)}}
	key := types.EncryptionKey{KeyType: int32(zzverif.Param("etype")), KeyValue: zzverif.Bytes(zzverif.Param("keylen"))}
	for i := 0; i < vhMaxRequests+2; i++ {
		zzverif.ScriptStub("Client).AffirmLogin", "val")
		zzverif.ScriptStub("Client).GetServiceTicket", "val", tkt, key)
	}
	c := NewClient(kcl, &http.Client{Transport: srv}, spn)

	resp, err := c.Do(req)

	zzverif.Reach("returned")
	last := srv.kinds[srv.n-1]
	if err == nil {
		zzverif.Reach("response")
		zzverif.Assert("returns-the-servers-final-response", resp != nil && resp.StatusCode == vhCodes[last])
	} else {
		zzverif.Reach("error")
	}
	zzverif.Assert("first-request-unauthenticated", srv.auth[0] == "")
	asked := 0
	for i := 0; i < srv.n; i++ {
		challenged := i > 0 && srv.kinds[i-1] == 1 && srv.auth[i-1] == ""
		if challenged {
			zzverif.Reach("challenged")
			// the retry goes to the host that challenged, with a token for the intended service
			want := spn
			if want == "" {
				want = "HTTP/" + srv.hosts[i-1]
			}
			zzverif.Assert("retry-after-challenge-same-target", srv.hosts[i] == srv.hosts[i-1] && srv.methods[i] == srv.methods[i-1])
			zzverif.Assert("ticket-requested-for-the-intended-spn", asked < zzverif.CallCount("Client).GetServiceTicket") && zzverif.CallArg("Client).GetServiceTicket", asked, 1).(string) == want)
			asked++
			zzverif.Assert("authorization-token-accepted-by-acceptor", vhTokenIsFor(srv.auth[i], tkt, key, "R", "u"))
		} else {
			zzverif.Assert("authorization-only-after-a-challenge", srv.auth[i] == "")
		}
		if srv.methods[i] == "POST" && !srv.partial[i] {
			zzverif.Reach("body-read")
			zzverif.Assert("request-body-resent-intact", zzverif.EqBytes(srv.bodies[i], data))
		}
	}
	zzverif.Assert("one-ticket-request-per-challenge", asked == zzverif.CallCount("Client).GetServiceTicket"))
}

// VH_C18_AcceptorRoundTrip: the token the client sends in answer to a challenge is handed to the library's
// own acceptor (SPNEGOService with the service's keytab, the real service.VerifyAPREQ - what it demands is
// C01's subject): it accepts, for the intended service, and reports the client's identity.  The ticket is
// issued by messages.NewTicket under the service key; ASN.1, encryption and base64 are codec pairs.
func VH_C18_AcceptorRoundTrip() {
	et := int32(zzverif.Param("etype"))
	now := zzverif.Now()
	skt := keytab.New()
	skey := zzverif.Bytes(crypto.VHKeyLen(int(et)))
	skt.VHAddEntry("R", []string{"HTTP", "h1"}, et, 1, skey, time.Unix(1500000000, 0))
	sname := types.NewPrincipalName(2, "HTTP/h1")
	cname := types.NewPrincipalName(1, "u")
	tkt, key, err := messages.NewTicket(cname, "R", sname, "R", types.NewKrbFlags(), skt, et, 1, now.Add(-time.Minute), now.Add(-time.Minute), now.Add(time.Hour), now.Add(2*time.Hour))
	zzverif.Assume(err == nil)
	srv := &vhServer{script: []int{1}, tail: 0}
	kcl := client.NewWithPassword("u", "R", "p", &config.Config{})
	zzverif.ScriptStub("Client).AffirmLogin", "val")
	zzverif.ScriptStub("Client).GetServiceTicket", "val", tkt, key)
	c := NewClient(kcl, &http.Client{Transport: srv}, "")
	req := &http.Request{Method: "GET", URL: &url.URL{Scheme: "http", Host: "h1", Path: "/"}, Header: http.Header{}}
	resp, err := c.Do(req)
	zzverif.Assert("authenticated-exchange-completes", err == nil && resp != nil && resp.StatusCode == 200 && srv.n == 2)
	if srv.n != 2 {
		return
	}
	hdr := srv.auth[1]
	zzverif.Assert("authorization-is-negotiate", strings.HasPrefix(hdr, "Negotiate "))
	b, derr := base64.StdEncoding.DecodeString(strings.TrimPrefix(hdr, "Negotiate "))
	var st SPNEGOToken
	zzverif.Assert("token-decodes", derr == nil && st.Unmarshal(b) == nil)
	ok, ctx, status := SPNEGOService(skt).AcceptSecContext(&st)
	zzverif.Assert("acceptor-holding-the-service-key-accepts", ok && status.Code == gssapi.StatusComplete)
	if ok && ctx != nil {
		id, isCreds := ctx.Value(ctxCredentials).(*credentials.Credentials)
		zzverif.Assert("acceptor-reports-the-client", isCreds && id != nil && id.UserName() == "u" && id.Domain() == "R")
	}
	// the same token presented again is a replay for that acceptor
	var st2 SPNEGOToken
	if st2.Unmarshal(b) == nil {
		ok2, _, _ := SPNEGOService(skt).AcceptSecContext(&st2)
		zzverif.Assert("same-token-again-is-refused", !ok2)
	}
	zzverif.Reach("accepted")
}
