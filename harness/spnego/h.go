package spnego

import (
	"errors"
	"net/http"
	"strings"

	"github.com/jcmturner/goidentity/v6"
	"github.com/jcmturner/gokrb5/v8/credentials"
	"github.com/jcmturner/gokrb5/v8/gssapi"
	"github.com/jcmturner/gokrb5/v8/keytab"
	"github.com/jcmturner/gokrb5/v8/service"
	"github.com/jcmturner/gokrb5/v8/zzverif"
)

// ---- C03: the wrapped handler is reached only by authenticated requests -----------------------------------

// vhRW records what the wrapper writes to the client.
type vhRW struct {
	hdr  http.Header
	code int
	body []byte
}

func (w *vhRW) Header() http.Header { return w.hdr }
func (w *vhRW) Write(b []byte) (int, error) {
	if w.code == 0 {
		w.code = 200
	}
	w.body = append(w.body, b...)
	return len(b), nil
}
func (w *vhRW) WriteHeader(c int) {
	if w.code == 0 {
		w.code = c
	}
}

// vhSM is the application's session store: one session; `present` says whether the request being
// served carries its cookie, `failNew` makes the store fail when a session is created.
type vhSM struct {
	stored  []byte
	has     bool
	news    int
	failNew bool
	present bool
}

func (s *vhSM) New(w http.ResponseWriter, r *http.Request, k string, v []byte) error {
	if s.failNew || k != sessionCredentials {
		return errors.New("session store failure")
	}
	s.stored, s.has = v, true
	s.news++
	return nil
}

func (s *vhSM) Get(r *http.Request, k string) ([]byte, error) {
	if !s.has || !s.present || k != sessionCredentials {
		return nil, errors.New("no session")
	}
	return s.stored, nil
}

// vhInner is the wrapped (protected) handler.
type vhInner struct {
	calls       int
	hasID       bool
	authed      bool
	user, realm string
}

func (h *vhInner) ServeHTTP(w http.ResponseWriter, r *http.Request) {
	h.calls++
	if id := goidentity.FromHTTPRequestContext(r); id != nil {
		h.hasID, h.authed, h.user, h.realm = true, id.Authenticated(), id.UserName(), id.Domain()
	}
}

// VH_C03_Handler: a sequence of requests through SPNEGOKRB5Authenticate.  Each request has no
// Authorization header, an arbitrary short one, "Negotiate " + arbitrary characters, or a decodable
// Negotiate token (what it decodes to is the decoder stubs' choice: any NegTokenInit/NegTokenResp/raw KRB5
// framing, any mech list, AP-REQ / AP-REP / KRB-ERROR mech tokens).  The service's verdict on an AP-REQ
// is the stub's (C01 is about that verdict).
func VH_C03_Handler() {
	nreq := zzverif.Param("requests")
	withSM := zzverif.Param("sm") == 1
	sm := &vhSM{}
	inner := &vhInner{}
	var opts []func(*service.Settings)
	if withSM {
		opts = append(opts, service.SessionManager(sm))
	}
	h := SPNEGOKRB5Authenticate(inner, keytab.New(), opts...)
	// what the AP-REQ verification says the k-th time it is asked
	users := make([]string, nreq)
	realms := make([]string, nreq)
	for k := 0; k < nreq; k++ {
		users[k], realms[k] = zzverif.String(1), zzverif.String(1)
		creds := credentials.New(users[k], realms[k])
		creds.SetAuthenticated(true)
		if zzverif.Bool() {
			zzverif.ScriptStub("service.VerifyAPREQ", "val", true, creds)
		} else {
			zzverif.ScriptStub("service.VerifyAPREQ", "err", creds)
		}
	}
	sessUser, sessRealm := "", ""
	for i := 0; i < nreq; i++ {
		w := &vhRW{hdr: http.Header{}}
		r := &http.Request{Header: http.Header{}, RemoteAddr: "c"}
		shape := zzverif.Param("shape")
		if shape == -1 {
			shape = zzverif.Choose(0, 3)
		} else if shape == -2 {
			shape = 0
			if zzverif.Bool() {
				shape = 3
			}
		}
		switch shape {
		case 0:
		case 1:
			r.Header.Set("Authorization", zzverif.String(zzverif.Param("hlen")))
		case 2:
			r.Header.Set("Authorization", "Negotiate "+zzverif.String(zzverif.Param("b64len")))
		default:
			r.Header.Set("Authorization", "Negotiate AAAA")
		}
		sm.present = zzverif.Bool()
		sm.failNew = zzverif.Bool()
		n0 := zzverif.CallCount("service.VerifyAPREQ")
		sessBefore, newsBefore := sm.has, sm.news
		*inner = vhInner{}

		h.ServeHTTP(w, r)

		asked := zzverif.CallCount("service.VerifyAPREQ") - n0
		zzverif.Assert("verifier-asked-at-most-once-per-request", asked <= 1)
		accepted := asked == 1 && zzverif.CallOK("service.VerifyAPREQ", n0)
		viaSession := withSM && sm.present && sessBefore
		if inner.calls > 0 {
			zzverif.Reach("served")
			zzverif.Assert("served-once", inner.calls == 1)
			zzverif.Assert("served-only-when-authenticated", accepted || viaSession)
			zzverif.Assert("served-with-an-authenticated-identity", inner.hasID && inner.authed)
			if viaSession {
				zzverif.Reach("served-under-session")
				zzverif.Assert("session-identity-is-its-creators", inner.user == sessUser && inner.realm == sessRealm)
			} else if accepted {
				zzverif.Assert("identity-is-the-accepted-one", inner.user == users[n0] && inner.realm == realms[n0])
			}
			zzverif.Assert("served-request-not-refused", w.code == 0)
		} else {
			zzverif.Reach("refused")
			is401 := w.code == 401 && strings.HasPrefix(w.hdr.Get("WWW-Authenticate"), "Negotiate")
			is5xx := w.code >= 500 && withSM && sm.failNew && accepted
			zzverif.Assert("refused-with-401-negotiate-or-5xx-on-store-failure", is401 || is5xx)
			zzverif.Assert("accepted-request-is-served", !accepted || is5xx)
			zzverif.Assert("session-request-is-served", !viaSession)
		}
		if sm.news > newsBefore {
			zzverif.Reach("session-created")
			zzverif.Assert("session-only-for-accepted", accepted)
			if accepted {
				sessUser, sessRealm = users[n0], realms[n0]
			}
		}
	}
}

// VH_C03_TokenVerify: no verification API reports success for a token that does not contain an AP-REQ
// the service accepted; an accepted AP-REQ is reported.
func VH_C03_TokenVerify() {
	api := zzverif.Param("api")
	user, realm := zzverif.String(1), zzverif.String(1)
	creds := credentials.New(user, realm)
	creds.SetAuthenticated(true)
	if zzverif.Bool() {
		zzverif.ScriptStub("service.VerifyAPREQ", "val", true, creds)
	} else {
		zzverif.ScriptStub("service.VerifyAPREQ", "err", creds)
	}
	set := service.NewSettings(keytab.New())
	var st SPNEGOToken
	var kt KRB5Token
	if api == 4 {
		if kt.Unmarshal(zzverif.Bytes(1)) != nil {
			return
		}
	} else if st.Unmarshal(zzverif.Bytes(1)) != nil {
		return
	}
	ok := false
	var status gssapi.Status
	var id interface{}
	switch api {
	case 0:
		s := SPNEGOService(keytab.New())
		var a bool
		a, ctx, stt := s.AcceptSecContext(&st)
		ok, status = a, stt
		if ctx != nil {
			id = ctx.Value(ctxCredentials)
		}
	case 1:
		st.settings = set
		ok, status = st.Verify()
		if c := st.Context(); c != nil {
			id = c.Value(ctxCredentials)
		}
	case 2:
		n := st.NegTokenInit
		n.settings = set
		ok, status = n.Verify()
		if c := n.Context(); c != nil {
			id = c.Value(ctxCredentials)
		}
	case 3:
		n := st.NegTokenResp
		n.settings = set
		ok, status = n.Verify()
		if c := n.Context(); c != nil {
			id = c.Value(ctxCredentials)
		}
	default:
		kt.settings = set
		ok, status = kt.Verify()
		if c := kt.Context(); c != nil {
			id = c.Value(ctxCredentials)
		}
	}
	asked := zzverif.CallCount("service.VerifyAPREQ")
	accepted := asked == 1 && zzverif.CallOK("service.VerifyAPREQ", 0)
	if ok {
		zzverif.Reach("verified")
		zzverif.Assert("success-only-for-an-accepted-ap-req", accepted)
		zzverif.Assert("success-status-complete", status.Code == gssapi.StatusComplete)
		c, isCreds := id.(*credentials.Credentials)
		zzverif.Assert("context-carries-the-accepted-identity", isCreds && c != nil && c.UserName() == user && c.Domain() == realm)
	} else {
		zzverif.Reach("not-verified")
		zzverif.Assert("accepted-ap-req-is-reported", !accepted)
		zzverif.Assert("failure-status-not-complete", status.Code != gssapi.StatusComplete)
	}
}
