package crypto

// RFC reference models used as oracles (C05, C06, C07, C08, C17, C19).  They are transcriptions of
// RFC 3961 (simplified profile, des3), RFC 3962 (AES-CTS, HMAC-SHA1-96), RFC 8009 (AES-CTS with
// HMAC-SHA2, KDF-HMAC-SHA2) and RFC 4757 (rc4-hmac) over the primitives of package zzverif, which
// are uninterpreted symbols under gosym and the real primitives when compiled natively (where the
// models are validated against the RFC test vectors before they are trusted).

import "github.com/jcmturner/gokrb5/v8/zzverif"

type vhProfile struct {
	etype    int32
	family   string // "simplified", "rfc8009", "rc4"
	cipher   string // "aes", "des3"
	keyLen   int    // protocol key length in bytes
	seedLen  int    // bytes of DR output needed for a key
	blk      int    // cipher block size
	conf     int    // confounder length
	hash     string
	macLen   int // truncated HMAC length (encryption integrity tag and checksum)
	keLen    int // rfc8009: Ke length in bytes
	kiLen    int // rfc8009: Ki / Kc length in bytes
	cksumID  int32
	padBlock int // message padded to a multiple of this (des3: 8)
}

func vhProfileOf(et int) vhProfile {
	switch et {
	case 16:
		return vhProfile{etype: 16, family: "simplified", cipher: "des3", keyLen: 24, seedLen: 21, blk: 8, conf: 8, hash: "sha1", macLen: 20, cksumID: 12, padBlock: 8}
	case 17:
		return vhProfile{etype: 17, family: "simplified", cipher: "aes", keyLen: 16, seedLen: 16, blk: 16, conf: 16, hash: "sha1", macLen: 12, cksumID: 15, padBlock: 1}
	case 18:
		return vhProfile{etype: 18, family: "simplified", cipher: "aes", keyLen: 32, seedLen: 32, blk: 16, conf: 16, hash: "sha1", macLen: 12, cksumID: 16, padBlock: 1}
	case 19:
		return vhProfile{etype: 19, family: "rfc8009", cipher: "aes", keyLen: 16, blk: 16, conf: 16, hash: "sha256", macLen: 16, keLen: 16, kiLen: 16, cksumID: 19, padBlock: 1}
	case 20:
		return vhProfile{etype: 20, family: "rfc8009", cipher: "aes", keyLen: 32, blk: 16, conf: 16, hash: "sha384", macLen: 24, keLen: 32, kiLen: 24, cksumID: 20, padBlock: 1}
	case 23:
		return vhProfile{etype: 23, family: "rc4", keyLen: 16, conf: 8, hash: "md5", macLen: 16, cksumID: -138, padBlock: 1}
	}
	panic("unknown etype")
}

func vhCat(parts ...[]byte) []byte {
	var out []byte
	for _, p := range parts {
		out = append(out, p...)
	}
	return out
}

func vhXor(a, b []byte) []byte {
	out := make([]byte, len(a))
	for i := range a {
		out[i] = a[i] ^ b[i]
	}
	return out
}

func vhBE32(v uint32) []byte { return []byte{byte(v >> 24), byte(v >> 16), byte(v >> 8), byte(v)} }
func vhLE32(v uint32) []byte { return []byte{byte(v), byte(v >> 8), byte(v >> 16), byte(v >> 24)} }

// ---- CBC and CBC-CTS with a zero initial vector ---------------------------------------------------

func vhCBCEncrypt(p vhProfile, key, plain []byte) []byte {
	prev := make([]byte, p.blk)
	var out []byte
	for i := 0; i+p.blk <= len(plain); i += p.blk {
		c := zzverif.BlockEnc(p.cipher, key, vhXor(plain[i:i+p.blk], prev))
		out = append(out, c...)
		prev = c
	}
	return out
}

func vhCBCDecrypt(p vhProfile, key, ct []byte) []byte {
	prev := make([]byte, p.blk)
	var out []byte
	for i := 0; i+p.blk <= len(ct); i += p.blk {
		out = append(out, vhXor(zzverif.BlockDec(p.cipher, key, ct[i:i+p.blk]), prev)...)
		prev = ct[i : i+p.blk]
	}
	return out
}

func vhZeroPad(b []byte, m int) []byte {
	for len(b)%m != 0 {
		b = append(b, 0)
	}
	return b
}

// RFC 3962 section 5 / RFC 8009 section 5: CBC-CS3.  CBC over the zero padded plaintext, the last
// two blocks swapped, output truncated to the plaintext length (a single block is plain CBC).
func vhCTSEncrypt(p vhProfile, key, plain []byte) []byte {
	n := len(plain)
	padded := vhZeroPad(append([]byte{}, plain...), 16)
	c := vhCBCEncrypt(p, key, padded)
	if len(c) <= 16 {
		return c
	}
	m := len(c) / 16
	out := append([]byte{}, c[:16*(m-2)]...)
	out = append(out, c[16*(m-1):]...)
	out = append(out, c[16*(m-2):16*(m-1)]...)
	return out[:n]
}

// inverse of vhCTSEncrypt for n >= 16
func vhCTSDecrypt(p vhProfile, key, ct []byte) []byte {
	n := len(ct)
	if n == 16 {
		return vhCBCDecrypt(p, key, ct)
	}
	m := (n + 15) / 16
	last := n - 16*(m-1) // bytes of the final (possibly short) block
	head := ct[:16*(m-2)]
	cLast := ct[16*(m-2) : 16*(m-1)] // C_m (full)
	cPrevShort := ct[16*(m-1):]      // C_{m-1} truncated to `last` bytes
	// D(C_m) = P_m|0* xor C_{m-1}: its tail restores the stolen bytes of C_{m-1}
	dn := zzverif.BlockDec(p.cipher, key, cLast)
	cPrev := append(append([]byte{}, cPrevShort...), dn[last:]...)
	prev2 := make([]byte, 16)
	if m > 2 {
		prev2 = head[len(head)-16:]
	}
	pHead := vhCBCDecrypt(p, key, head)
	pPrev := vhXor(zzverif.BlockDec(p.cipher, key, cPrev), prev2)
	pLast := vhXor(dn, cPrev)[:last]
	return vhCat(pHead, pPrev, pLast)
}

// ---- key derivation -------------------------------------------------------------------------------

// RFC 3961 5.1: DR(Key, Constant) = k-truncate(K1 | K2 | ...), K1 = E(Key, n-fold(Constant)), K_{i+1} = E(Key, K_i)
func vhDR(p vhProfile, key, constant []byte) []byte {
	k := zzverif.BlockEnc(p.cipher, key, zzverif.Nfold(constant, p.blk*8))
	out := append([]byte{}, k...)
	for len(out) < p.seedLen {
		k = zzverif.BlockEnc(p.cipher, key, k)
		out = append(out, k...)
	}
	return out[:p.seedLen]
}

func vhRandomToKey(p vhProfile, r []byte) []byte {
	if p.cipher == "des3" {
		// summarised by one symbol on both sides in the message-level harnesses; that the library's
		// DES3RandomToKey equals the RFC 3961 6.3.1 definition for every input is C08's obligation
		return zzverif.DES3RandomToKey(r)
	}
	return r
}

func vhDK(p vhProfile, key, constant []byte) []byte { return vhRandomToKey(p, vhDR(p, key, constant)) }

// RFC 8009 section 3: KDF-HMAC-SHA2(key, label, [context,] k) = k-truncate(HMAC(key, 0x00000001 | label | 0x00 | [context] | k))
func vhKDFSHA2(p vhProfile, key, label, context []byte, kbits int) []byte {
	return zzverif.HMAC(p.hash, key, vhCat(vhBE32(1), label, []byte{0}, context, vhBE32(uint32(kbits))))[:kbits/8]
}

// usage keys: (Ke, Ki, Kc)
func vhUsageKey(p vhProfile, key []byte, usage uint32, which byte) []byte {
	constant := append(vhBE32(usage), which)
	switch p.family {
	case "simplified":
		return vhDK(p, key, constant)
	case "rfc8009":
		if which == 0xAA {
			return vhKDFSHA2(p, key, constant, nil, p.keLen*8)
		}
		return vhKDFSHA2(p, key, constant, nil, p.kiLen*8)
	}
	panic("no usage keys for this family")
}

// RFC 4757 section 3: T = the message type in little-endian four bytes, with the aliases 3->8, 9->8, 23->13
func vhRC4T(usage uint32) []byte {
	switch usage {
	case 3, 9:
		usage = 8
	case 23:
		usage = 13
	}
	return vhLE32(usage)
}

// ---- message encryption ---------------------------------------------------------------------------

// vhEncrypt is the RFC encryption of msg under key with the given confounder.
func vhEncrypt(p vhProfile, key, conf, msg []byte, usage uint32) []byte {
	plain := vhCat(conf, msg)
	switch p.family {
	case "simplified":
		ke, ki := vhUsageKey(p, key, usage, 0xAA), vhUsageKey(p, key, usage, 0x55)
		var c []byte
		if p.cipher == "des3" {
			plain = vhZeroPad(plain, 8)
			c = vhCBCEncrypt(p, ke, plain)
		} else {
			c = vhCTSEncrypt(p, ke, plain)
		}
		return vhCat(c, zzverif.HMAC(p.hash, ki, plain)[:p.macLen])
	case "rfc8009":
		ke, ki := vhUsageKey(p, key, usage, 0xAA), vhUsageKey(p, key, usage, 0x55)
		c := vhCTSEncrypt(p, ke, plain)
		iv := make([]byte, 16)
		return vhCat(c, zzverif.HMAC(p.hash, ki, vhCat(iv, c))[:p.macLen])
	case "rc4":
		k1 := zzverif.HMAC("md5", key, vhRC4T(usage))
		chk := zzverif.HMAC("md5", k1, plain)
		k3 := zzverif.HMAC("md5", k1, chk)
		return vhCat(chk, zzverif.RC4(k3, plain))
	}
	panic("family")
}

// vhDecryptRaw inverts the cipher layer only (no integrity check): returns confounder|msg[|padding].
func vhDecryptRaw(p vhProfile, key, ct []byte, usage uint32) []byte {
	switch p.family {
	case "simplified", "rfc8009":
		ke := vhUsageKey(p, key, usage, 0xAA)
		body := ct[:len(ct)-p.macLen]
		if p.cipher == "des3" {
			return vhCBCDecrypt(p, ke, body)
		}
		return vhCTSDecrypt(p, ke, body)
	case "rc4":
		k1 := zzverif.HMAC("md5", key, vhRC4T(usage))
		k3 := zzverif.HMAC("md5", k1, ct[:16])
		return zzverif.RC4(k3, ct[16:])
	}
	panic("family")
}

// vhCipherLen: length of the RFC ciphertext for a message of n bytes.
func vhCipherLen(p vhProfile, n int) int {
	l := p.conf + n
	if p.cipher == "des3" {
		l = (l + 7) / 8 * 8
	}
	return l + p.macLen
}

// ---- checksums -------------------------------------------------------------------------------------

func vhChecksum(p vhProfile, key, data []byte, usage uint32) []byte {
	if p.family == "rc4" {
		// RFC 4757 section 4: HMAC-MD5(HMAC-MD5(key, "signaturekey\0"), MD5(T | data))
		ksign := zzverif.HMAC("md5", key, append([]byte("signaturekey"), 0))
		return zzverif.HMAC("md5", ksign, zzverif.Hash("md5", vhCat(vhRC4T(usage), data)))
	}
	kc := vhUsageKey(p, key, usage, 0x99)
	return zzverif.HMAC(p.hash, kc, data)[:p.macLen]
}

// vhEffectiveKey: DES ignores the low (parity) bit of every key byte, so two des3 keys that differ
// only there are the same key for every implementation of RFC 3961.
func vhEffectiveKey(p vhProfile, k []byte) []byte {
	if p.cipher != "des3" {
		return k
	}
	out := make([]byte, len(k))
	for i := range k {
		out[i] = k[i] &^ 1
	}
	return out
}
