package crypto

import (
	"unicode/utf8"

	"github.com/jcmturner/gokrb5/v8/types"
	"github.com/jcmturner/gokrb5/v8/zzverif"
)

// ---- C05: message encryption equals the RFC definition, both directions ----------------------------

// VH_C05_Encrypt: for etype et and a message of n bytes, GetEtype(et).EncryptMessage(key,msg,usage)
// with the confounder delivered by crypto/rand equals the RFC encryption byte for byte, and the
// library decrypts the RFC encryption back to the message.
func VH_C05_Encrypt() {
	et, n := zzverif.Param("etype"), zzverif.Param("n")
	p := vhProfileOf(et)
	e, err := GetEtype(int32(et))
	zzverif.Assert("etype-supported", err == nil)
	key := zzverif.Bytes(p.keyLen)
	msg := zzverif.Bytes(n)
	usage := zzverif.Uint32()
	zzverif.Assume(usage != 0) // usage 0 is not a Kerberos key usage (RFC 4120 7.5.1)
	_, ct, err := e.EncryptMessage(key, msg, usage)
	conf := zzverif.RandLog()
	zzverif.Assert("encrypt-ok", err == nil)
	zzverif.Assert("confounder-is-fresh-random-of-rfc-size", len(conf) >= p.conf)
	zzverif.Assert("ciphertext-length-per-rfc", len(ct) == vhCipherLen(p, n))
	_, ok := vhConfounderWindow(p, key, conf, msg, usage, ct, -1)
	zzverif.Assert("library-encryption-equals-rfc", ok)
	zzverif.Reach("encrypted")
	// other direction: what the RFC reference encrypts (any confounder), the library decrypts
	conf2 := zzverif.Bytes(p.conf)
	ref := vhEncrypt(p, key, conf2, msg, usage)
	pt, err := e.DecryptMessage(key, ref, usage)
	zzverif.Assert("library-decrypts-rfc-ciphertext", err == nil)
	padded := msg
	if p.cipher == "des3" {
		padded = vhZeroPad(vhCat(conf2, msg), 8)[p.conf:]
	}
	zzverif.Assert("decrypted-plaintext-equals-message", zzverif.EqBytes(pt, padded))
	zzverif.Reach("decrypted")
}

// vhConfounderWindow: the ciphertext is the RFC encryption of msg with a confounder that is one of the first four
// confounder-sized windows of the random bytes drawn so far (the library as it stands draws exactly one window per
// call; an implementation that buffers randomness hands out consecutive windows), other than window `not`.
// Returns the window used.
func vhConfounderWindow(p vhProfile, key, drawn, msg []byte, usage uint32, ct []byte, not int) (int, bool) {
	used, ok := -1, false
	for w := 0; w < 4 && (w+1)*p.conf <= len(drawn); w++ {
		if w == not {
			continue
		}
		if zzverif.EqBytes(ct, vhEncrypt(p, key, drawn[w*p.conf:(w+1)*p.conf], msg, usage)) {
			used, ok = w, true
			break
		}
	}
	return used, ok
}

// VH_C05_EncryptTwice: a history.  Two encryptions in a row (same key and usage, arbitrary messages): each is the RFC
// encryption under a confounder taken from the random source, and the second does not reuse the first one's
// confounder - nor anything else that is not fresh randomness, such as what the first call left in a buffer.
func VH_C05_EncryptTwice() {
	et, n := zzverif.Param("etype"), zzverif.Param("n")
	p := vhProfileOf(et)
	e, _ := GetEtype(int32(et))
	key := zzverif.Bytes(p.keyLen)
	m1, m2 := zzverif.Bytes(n), zzverif.Bytes(n)
	usage := zzverif.Uint32()
	zzverif.Assume(usage != 0)
	_, c1, err := e.EncryptMessage(key, m1, usage)
	drawn := zzverif.RandLog()
	zzverif.Assert("encrypt-ok", err == nil)
	w1, ok := vhConfounderWindow(p, key, drawn, m1, usage, c1, -1)
	zzverif.Assert("first-encryption-equals-rfc-under-a-drawn-confounder", ok)
	_, c2, err := e.EncryptMessage(key, m2, usage)
	drawn = append(drawn, zzverif.RandLog()...)
	zzverif.Assert("encrypt-ok", err == nil)
	_, ok = vhConfounderWindow(p, key, drawn, m2, usage, c2, w1)
	zzverif.Assert("second-encryption-equals-rfc-under-another-drawn-confounder", ok)
	zzverif.Reach("done")
}

// VH_C05_PublicAPI: the package-level GetEncryptedData / DecryptMessage agree with the etype methods.
func VH_C05_PublicAPI() {
	et, n := zzverif.Param("etype"), zzverif.Param("n")
	p := vhProfileOf(et)
	var key [32]byte
	kv := zzverif.Bytes(p.keyLen)
	copy(key[:], kv)
	msg := zzverif.Bytes(n)
	usage := zzverif.Uint32()
	zzverif.Assume(usage != 0)
	kvno := zzverif.Int()
	ed, err := GetEncryptedData(msg, vhKey(int32(et), kv), usage, kvno)
	conf := zzverif.RandLog()
	zzverif.Assert("encrypt-ok", err == nil)
	zzverif.Assert("encrypted-data-etype", ed.EType == int32(et))
	zzverif.Assert("encrypted-data-kvno", ed.KVNO == kvno)
	_, okc := vhConfounderWindow(p, kv, conf, msg, usage, ed.Cipher, -1)
	zzverif.Assert("encrypted-data-cipher-equals-rfc", okc)
	pt, err := DecryptMessage(ed.Cipher, vhKey(int32(et), kv), usage)
	zzverif.Assert("decrypt-ok", err == nil)
	if p.cipher != "des3" {
		zzverif.Assert("roundtrip", zzverif.EqBytes(pt, msg))
	}
	zzverif.Reach("done")
}

// ---- C06: decryption returns plaintext only for authentic ciphertexts --------------------------------

// VH_C06_General: for EVERY byte string x of the given length, key and usage: if DecryptMessage accepts
// x and returns p then x is byte for byte the RFC encryption of p (with the confounder that the cipher
// layer of x carries).  No adversary model is needed for this form.
func VH_C06_General() {
	et, n := zzverif.Param("etype"), zzverif.Param("n") // n = length of x
	p := vhProfileOf(et)
	e, _ := GetEtype(int32(et))
	key := zzverif.Bytes(p.keyLen)
	x := zzverif.Bytes(n)
	usage := zzverif.Uint32()
	zzverif.Assume(usage != 0)
	pt, err := e.DecryptMessage(key, x, usage)
	if err != nil {
		zzverif.Reach("rejected")
		return
	}
	zzverif.Reach("accepted")
	raw := vhDecryptRaw(p, key, x, usage)
	conf := raw[:p.conf]
	zzverif.Assert("accepted-plaintext-is-what-the-cipher-layer-carries", zzverif.EqBytes(pt, raw[p.conf:]))
	back := vhEncrypt(p, key, conf, pt, usage)
	zzverif.Assert("accepted-input-is-rfc-encryption-of-output", zzverif.EqBytes(back, x))
}

// VH_C06_Tamper: constructive forms in the idealised-MAC model, for ct = RFC encryption of msg:
// a non-zero mask confined to the cipher body, or confined to the tag, another key, another
// (non-aliased) usage, truncation and extension are all rejected.
func VH_C06_Tamper() {
	et, n, mode := zzverif.Param("etype"), zzverif.Param("n"), zzverif.Param("mode")
	p := vhProfileOf(et)
	e, _ := GetEtype(int32(et))
	key := zzverif.Bytes(p.keyLen)
	msg := zzverif.Bytes(n)
	conf := zzverif.Bytes(p.conf)
	usage := zzverif.Uint32()
	zzverif.Assume(usage != 0)
	ct := vhEncrypt(p, key, conf, msg, usage)
	// where the integrity tag sits: rc4 puts the checksum first, the others last
	tagLo, tagHi := len(ct)-p.macLen, len(ct)
	if p.family == "rc4" {
		tagLo, tagHi = 0, p.macLen
	}
	switch mode {
	case 0: // control: the genuine ciphertext is accepted
		_, err := e.DecryptMessage(key, ct, usage)
		zzverif.Assert("genuine-accepted", err == nil)
	case 1: // any change confined to the body
		x := append([]byte{}, ct...)
		nz := false
		for i := range x {
			if i < tagLo || i >= tagHi {
				m := zzverif.Byte()
				x[i] ^= m
				nz = zzverif.Or(nz, m != 0)
			}
		}
		zzverif.Assume(nz)
		_, err := e.DecryptMessage(key, x, usage)
		zzverif.Assert("body-tamper-rejected", err != nil)
	case 2: // any change confined to the tag
		x := append([]byte{}, ct...)
		nz := false
		for i := tagLo; i < tagHi; i++ {
			m := zzverif.Byte()
			x[i] ^= m
			nz = zzverif.Or(nz, m != 0)
		}
		zzverif.Assume(nz)
		_, err := e.DecryptMessage(key, x, usage)
		zzverif.Assert("tag-tamper-rejected", err != nil)
	case 3: // another key
		k2 := zzverif.Bytes(p.keyLen)
		zzverif.Assume(!zzverif.EqBytes(vhEffectiveKey(p, k2), vhEffectiveKey(p, key)))
		_, err := e.DecryptMessage(k2, ct, usage)
		zzverif.Assert("other-key-rejected", err != nil)
	case 4: // another usage (not an RFC 4757 alias)
		u2 := zzverif.Uint32()
		zzverif.Assume(u2 != usage && u2 != 0)
		if p.family == "rc4" {
			zzverif.Assume(!zzverif.EqBytes(vhRC4T(u2), vhRC4T(usage)))
		}
		_, err := e.DecryptMessage(key, ct, u2)
		zzverif.Assert("other-usage-rejected", err != nil)
	}
	zzverif.Reach("checked")
}

// ---- C07: checksums ------------------------------------------------------------------------------------

// VH_C07_Checksum: GetChecksumHash equals the RFC definition; VerifyChecksum accepts exactly that value
// (candidates one byte shorter, of the right length, one byte longer).
func VH_C07_Checksum() {
	et, n := zzverif.Param("etype"), zzverif.Param("n")
	p := vhProfileOf(et)
	e, _ := GetEtype(int32(et))
	key := zzverif.Bytes(p.keyLen)
	data := zzverif.Bytes(n)
	usage := zzverif.Uint32()
	got, err := e.GetChecksumHash(key, data, usage)
	zzverif.Assert("checksum-ok", err == nil)
	want := vhChecksum(p, key, data, usage)
	zzverif.Assert("checksum-length", len(got) == p.macLen)
	zzverif.Assert("checksum-equals-rfc", zzverif.EqBytes(got, want))
	zzverif.Assert("verify-accepts-rfc-value", e.VerifyChecksum(key, data, want, usage))
	// constructive forms (counterexamples consist of input bytes only, so they replay natively)
	zzverif.Assert("verify-rejects-truncation", !e.VerifyChecksum(key, data, want[:len(want)-1], usage))
	zzverif.Assert("verify-rejects-extension", !e.VerifyChecksum(key, data, append(append([]byte{}, want...), zzverif.Byte()), usage))
	flipped := append([]byte{}, want...)
	nz := false
	for i := range flipped {
		m := zzverif.Byte()
		flipped[i] ^= m
		nz = zzverif.Or(nz, m != 0)
	}
	zzverif.Assert("verify-rejects-any-changed-bit", zzverif.Or(!nz, !e.VerifyChecksum(key, data, flipped, usage)))
	// general form: fully symbolic candidates one byte shorter, of the right length, one byte longer
	for _, d := range []int{-1, 0, 1} {
		cand := zzverif.Bytes(p.macLen + d)
		ok := e.VerifyChecksum(key, data, cand, usage)
		zzverif.Assert("verify-iff-exact-match", ok == zzverif.EqBytes(cand, want))
	}
	zzverif.Assert("hash-id", e.GetHashID() == p.cksumID)
	zzverif.Reach("done")
}

// VH_C07_VerifyOther: in the idealised-MAC model the RFC checksum of (key,data,usage) is not accepted
// for other data, another key or another usage.
func VH_C07_VerifyOther() {
	et, n, mode := zzverif.Param("etype"), zzverif.Param("n"), zzverif.Param("mode")
	p := vhProfileOf(et)
	e, _ := GetEtype(int32(et))
	key := zzverif.Bytes(p.keyLen)
	data := zzverif.Bytes(n)
	usage := zzverif.Uint32()
	ck := vhChecksum(p, key, data, usage)
	switch mode {
	case 0:
		d2 := zzverif.Bytes(n)
		zzverif.Assume(!zzverif.EqBytes(d2, data))
		zzverif.Assert("other-data-rejected", !e.VerifyChecksum(key, d2, ck, usage))
	case 1:
		k2 := zzverif.Bytes(p.keyLen)
		zzverif.Assume(!zzverif.EqBytes(vhEffectiveKey(p, k2), vhEffectiveKey(p, key)))
		zzverif.Assert("other-key-rejected", !e.VerifyChecksum(k2, data, ck, usage))
	case 2:
		u2 := zzverif.Uint32()
		zzverif.Assume(u2 != usage)
		if p.family == "rc4" {
			zzverif.Assume(!zzverif.EqBytes(vhRC4T(u2), vhRC4T(usage)))
		}
		zzverif.Assert("other-usage-rejected", !e.VerifyChecksum(key, data, ck, u2))
	}
	zzverif.Reach("checked")
}

// VH_C07_Registry: GetChksumEtype / GetEtype follow the IANA registry for ALL 32-bit identifiers.
func VH_C07_Registry() {
	id := zzverif.Int32()
	e, err := GetChksumEtype(id)
	want := int32(0)
	switch id {
	case 12:
		want = 16
	case 15:
		want = 17
	case 16:
		want = 18
	case 19:
		want = 19
	case 20:
		want = 20
	case -138:
		want = 23
	}
	if want == 0 {
		zzverif.Reach("unknown")
		zzverif.Assert("unknown-checksum-type-is-an-error", err != nil)
	} else {
		zzverif.Reach("known")
		zzverif.Assert("known-checksum-type-ok", err == nil)
		zzverif.Assert("checksum-type-selects-iana-etype", e.GetETypeID() == want)
		zzverif.Assert("hash-id-is-inverse", e.GetHashID() == id)
	}
	et := zzverif.Int32()
	e2, err2 := GetEtype(et)
	known := zzverif.Any(et == 16, et == 17, et == 18, et == 19, et == 20, et == 23)
	zzverif.Assert("getetype-ok-iff-supported", (err2 == nil) == known)
	if err2 == nil {
		zzverif.Assert("getetype-returns-requested", e2.GetETypeID() == et)
	}
}

// ---- histories: results are functions of the arguments only (no state carried between calls) ---------

// VH_C07_Sequence: a checksum computed with etype e1 does not influence the next one computed with e2
// for the same key bytes, usage and data (a derived-key memo keyed too coarsely would).
func VH_C07_Sequence() {
	e1, e2, n := zzverif.Param("e1"), zzverif.Param("e2"), zzverif.Param("n")
	p1, p2 := vhProfileOf(e1), vhProfileOf(e2)
	t1, _ := GetEtype(int32(e1))
	t2, _ := GetEtype(int32(e2))
	key := zzverif.Bytes(p1.keyLen)
	data := zzverif.Bytes(n)
	usage := zzverif.Uint32()
	c1, err := t1.GetChecksumHash(key, data, usage)
	zzverif.Assert("first-checksum-equals-rfc", zzverif.And(err == nil, zzverif.EqBytes(c1, vhChecksum(p1, key, data, usage))))
	key2 := key
	if p2.keyLen != p1.keyLen {
		key2 = zzverif.Bytes(p2.keyLen)
	}
	c2, err := t2.GetChecksumHash(key2, data, usage)
	zzverif.Assert("second-checksum-equals-rfc", zzverif.And(err == nil, zzverif.EqBytes(c2, vhChecksum(p2, key2, data, usage))))
	zzverif.Assert("second-verify-accepts-rfc-value", t2.VerifyChecksum(key2, data, vhChecksum(p2, key2, data, usage), usage))
	zzverif.Reach("done")
}

// VH_C06_Sequence: a key buffer is used, refilled in place with another key and used again; the
// second use must behave as a fresh call with the new key.
func VH_C06_Sequence() {
	et, n := zzverif.Param("etype"), zzverif.Param("n")
	p := vhProfileOf(et)
	e, _ := GetEtype(int32(et))
	k1 := zzverif.Bytes(p.keyLen)
	k2 := zzverif.Bytes(p.keyLen)
	zzverif.Assume(!zzverif.EqBytes(vhEffectiveKey(p, k2), vhEffectiveKey(p, k1)))
	msg := zzverif.Bytes(n)
	conf := zzverif.Bytes(p.conf)
	usage := zzverif.Uint32()
	zzverif.Assume(usage != 0)
	buf := append([]byte{}, k1...)
	ct1 := vhEncrypt(p, k1, conf, msg, usage)
	_, err := e.DecryptMessage(buf, ct1, usage)
	zzverif.Assert("first-decrypt-ok", err == nil)
	copy(buf, k2) // the caller's buffer now holds an unrelated key
	_, err = e.DecryptMessage(buf, ct1, usage)
	zzverif.Assert("ciphertext-of-old-key-rejected-under-new-key", err != nil)
	ct2 := vhEncrypt(p, k2, conf, msg, usage)
	pt, err := e.DecryptMessage(buf, ct2, usage)
	zzverif.Assert("ciphertext-of-new-key-accepted", err == nil)
	if p.cipher != "des3" {
		zzverif.Assert("plaintext-of-new-key", zzverif.EqBytes(pt, msg))
	}
	_, c3, err := e.EncryptMessage(buf, msg, usage)
	conf3 := zzverif.RandLog()
	_, ok3 := vhConfounderWindow(p, k2, conf3, msg, usage, c3, -1)
	zzverif.Assert("encrypt-under-new-key-equals-rfc", zzverif.And(err == nil, ok3))
	zzverif.Reach("done")
}

// ---- C08: key derivation and string-to-key ------------------------------------------------------------

// VH_C08_DeriveKey: DR / DK (RFC 3961 5.1) and the RFC 8009 KDF for a constant of clen symbolic bytes.
func VH_C08_DeriveKey() {
	et, clen := zzverif.Param("etype"), zzverif.Param("clen")
	p := vhProfileOf(et)
	e, _ := GetEtype(int32(et))
	key := zzverif.Bytes(p.keyLen)
	c := zzverif.Bytes(clen)
	switch p.family {
	case "simplified":
		dr, err := e.DeriveRandom(key, c)
		zzverif.Assert("derive-random-ok", err == nil)
		zzverif.Assert("derive-random-equals-rfc3961-DR", zzverif.EqBytes(dr, vhDR(p, key, c)))
		dk, err := e.DeriveKey(key, c)
		zzverif.Assert("derive-key-ok", err == nil)
		zzverif.Assert("derive-key-equals-rfc3961-DK", zzverif.EqBytes(dk, vhDK(p, key, c)))
	case "rfc8009":
		// usage keys: label = constant, last octet selects the length (Ke: key size, Kc/Ki: HMAC output size)
		last := c[clen-1]
		zzverif.Assume(last == 0xAA || last == 0x55 || last == 0x99)
		dk, err := e.DeriveKey(key, c)
		zzverif.Assert("derive-key-ok", err == nil)
		kbits := p.kiLen * 8
		if last == 0xAA {
			kbits = p.keLen * 8
		}
		zzverif.Assert("derive-key-equals-rfc8009-KDF", zzverif.EqBytes(dk, vhKDFSHA2(p, key, c, nil, kbits)))
	case "rc4":
		dk, err := e.DeriveKey(key, c)
		zzverif.Assert("derive-key-ok", err == nil)
		zzverif.Assert("derive-key-is-hmac-md5", zzverif.EqBytes(dk, zzverif.HMAC("md5", key, c)))
	}
	zzverif.Reach("done")
}

// VH_C08_StringToKey: password and salt of the given lengths (symbolic bytes), iteration count symbolic.
func VH_C08_StringToKey() {
	et, plen, slen := zzverif.Param("etype"), zzverif.Param("plen"), zzverif.Param("slen")
	p := vhProfileOf(et)
	e, _ := GetEtype(int32(et))
	pw, salt := zzverif.String(plen), zzverif.String(slen)
	switch p.family {
	case "simplified":
		if p.cipher == "des3" {
			k, err := e.StringToKey(pw, salt, "")
			zzverif.Assert("s2k-ok", err == nil)
			// RFC 3961 6.3.1: DK(random-to-key(168-fold(password | salt)), "kerberos")
			tkey := vhRandomToKey(p, zzverif.Nfold([]byte(pw+salt), 168))
			zzverif.Assert("des3-string-to-key-equals-rfc", zzverif.EqBytes(k, vhDK(p, tkey, []byte("kerberos"))))
			_, err = e.StringToKey(pw, salt, "00")
			zzverif.Assert("des3-rejects-parameters", err != nil)
		} else {
			it := zzverif.Uint32()
			params := zzverif.Hex([]byte{byte(it >> 24), byte(it >> 16), byte(it >> 8), byte(it)})
			k, err := e.StringToKey(pw, salt, params)
			zzverif.Assert("s2k-ok", err == nil)
			// RFC 3962 4: tkey = PBKDF2(passphrase, salt, iter, keylength); key = DK(tkey, "kerberos"); iter 0 means 2^32
			iter := int64(it)
			tkey := zzverif.PBKDF2(p.hash, []byte(pw), []byte(salt), iter, p.keyLen)
			zzverif.Assert("aes-sha1-string-to-key-equals-rfc", zzverif.EqBytes(k, vhDK(p, tkey, []byte("kerberos"))))
		}
	case "rfc8009":
		it := zzverif.Uint32()
		params := zzverif.Hex([]byte{byte(it >> 24), byte(it >> 16), byte(it >> 8), byte(it)})
		k, err := e.StringToKey(pw, salt, params)
		zzverif.Assert("s2k-ok", err == nil)
		// RFC 8009 4: saltp = enctype-name | 0x00 | salt ; tkey = PBKDF2(passphrase, saltp, iter, keylength) ; base-key = KDF-HMAC-SHA2(tkey, "kerberos", keylength)
		name := "aes128-cts-hmac-sha256-128"
		if et == 20 {
			name = "aes256-cts-hmac-sha384-192"
		}
		saltp := vhCat([]byte(name), []byte{0}, []byte(salt))
		tkey := zzverif.PBKDF2(p.hash, []byte(pw), saltp, int64(it), p.keyLen)
		zzverif.Assert("aes-sha2-string-to-key-equals-rfc", zzverif.EqBytes(k, vhKDFSHA2(p, tkey, []byte("kerberos"), nil, p.keyLen*8)))
	}
	zzverif.Reach("done")
}

// VH_C08_DefaultParams: the default iteration counts are the RFC ones (4096 for aes-sha1, 32768 for aes-sha2)
func VH_C08_DefaultParams() {
	for _, c := range []struct {
		et   int32
		want string
	}{{17, "00001000"}, {18, "00001000"}, {19, "00008000"}, {20, "00008000"}, {16, ""}, {23, ""}} {
		e, _ := GetEtype(c.et)
		zzverif.Assert("default-s2k-params", e.GetDefaultStringToKeyParams() == c.want)
	}
	zzverif.Reach("done")
}

// VH_C08_GeneratedKey: a key the library generates for an etype has the length the etype requires and
// encrypts and decrypts with that etype.
func VH_C08_GeneratedKey() {
	et := zzverif.Param("etype")
	p := vhProfileOf(et)
	e, _ := GetEtype(int32(et))
	k, err := vhGenerateKey(e)
	zzverif.RandLog()
	zzverif.Assert("generate-ok", err == nil)
	zzverif.Assert("generated-key-type", k.KeyType == int32(et))
	zzverif.Assert("generated-key-has-etype-key-length", len(k.KeyValue) == p.keyLen)
	msg := zzverif.Bytes(5)
	_, ct, err := e.EncryptMessage(k.KeyValue, msg, 11)
	zzverif.Assert("generated-key-encrypts", err == nil)
	if err == nil {
		_, err = e.DecryptMessage(k.KeyValue, ct, 11)
		zzverif.Assert("generated-key-decrypts", err == nil)
	}
	sk, err := vhGenerateSubKey(e)
	zzverif.Assert("generated-subkey-has-etype-key-length", zzverif.And(err == nil, len(sk.KeyValue) == p.keyLen))
	zzverif.Reach("done")
}

// VH_C08_RC4StringToKey: RFC 4757 2: the key is MD4 of the password in UTF-16 little-endian, for every
// valid UTF-8 password of n bytes (ASCII, Latin-1, BMP and supplementary-plane characters).
func VH_C08_RC4StringToKey() {
	n := zzverif.Param("n")
	pw := zzverif.String(n)
	zzverif.Assume(utf8.ValidString(pw))
	e, _ := GetEtype(23)
	k, err := e.StringToKey(pw, "ignored-salt", "")
	var u16 []byte
	for _, r := range pw {
		if r < 0x10000 {
			u16 = append(u16, byte(r), byte(r>>8))
		} else {
			r -= 0x10000
			hi, lo := 0xD800+(r>>10), 0xDC00+(r&0x3FF)
			u16 = append(u16, byte(hi), byte(hi>>8), byte(lo), byte(lo>>8))
		}
	}
	zzverif.Assert("rc4-s2k-ok", err == nil)
	zzverif.Assert("rc4-key-is-md4-of-utf16le-password", zzverif.EqBytes(k, zzverif.Hash("md4", u16)))
	zzverif.Reach("done")
}

// ---- C04 / C08: KDC-supplied string-to-key hints of every decoded shape -----------------------------------

func VH_C04_GetKeyFromPasswordShapes() {
	var pas types.PADataSequence
	n := zzverif.Choose(0, 2)
	for i := 0; i < n; i++ {
		pas = append(pas, types.PAData{PADataType: zzverif.Int32(), PADataValue: zzverif.Bytes(1)})
	}
	GetKeyFromPassword(zzverif.String(1), types.PrincipalName{NameString: []string{"u"}}, "R", 18, pas)
	zzverif.Reach("returned")
}

// ---- C08: RFC 4120 5.2.7.5: PA-ETYPE-INFO2 > PA-ETYPE-INFO > PA-PW-SALT, whatever their order ---------------

func VH_C08_PADataPrecedence() {
	order, mask := zzverif.Param("order"), zzverif.Param("mask")
	perms := [][3]int{{0, 1, 2}, {0, 2, 1}, {1, 0, 2}, {1, 2, 0}, {2, 0, 1}, {2, 1, 0}}
	pw := zzverif.String(2)
	saltPW, saltInfo, saltInfo2 := "P"+zzverif.String(1), "I"+zzverif.String(1), "J"+zzverif.String(1)
	// a hint may carry no salt: the default salt then applies if that hint governs (param empty: bit per hint)
	if empty := zzverif.Param("empty"); empty&2 != 0 {
		saltInfo = ""
	} else if empty&4 != 0 {
		saltInfo2 = ""
	}
	if zzverif.Param("empty") == 6 {
		saltInfo, saltInfo2 = "", ""
	}
	var pas types.PADataSequence
	for _, h := range perms[order] {
		if mask&(1<<uint(h)) == 0 {
			continue
		}
		switch h {
		case 0:
			pas = append(pas, types.PAData{PADataType: 3, PADataValue: []byte(saltPW)}) // PA-PW-SALT
		case 1:
			pas = append(pas, types.PAData{PADataType: 11, PADataValue: []byte{1}}) // PA-ETYPE-INFO
			zzverif.ScriptStub("types.ETypeInfo).Unmarshal", "val", types.ETypeInfo{{EType: 18, Salt: []byte(saltInfo)}})
		case 2:
			pas = append(pas, types.PAData{PADataType: 19, PADataValue: []byte{2}}) // PA-ETYPE-INFO2
			zzverif.ScriptStub("types.ETypeInfo2).Unmarshal", "val", types.ETypeInfo2{{EType: 18, Salt: saltInfo2}})
		}
	}
	cname := types.PrincipalName{NameString: []string{"u"}}
	key, _, err := GetKeyFromPassword(pw, cname, "R", 18, pas)
	zzverif.Assert("key-derived", err == nil)
	want := "Ru" // default salt: realm | name components
	switch {
	case mask&4 != 0:
		want = saltInfo2
	case mask&2 != 0:
		want = saltInfo
	case mask&1 != 0:
		want = saltPW
	}
	if want == "" {
		want = "Ru"
	}
	e, _ := GetEtype(18)
	wk, _ := e.StringToKey(pw, want, e.GetDefaultStringToKeyParams())
	zzverif.Assert("salt-follows-rfc4120-precedence", zzverif.EqBytes(key.KeyValue, wk))
	zzverif.Assert("key-type-is-requested-etype", key.KeyType == 18)
	zzverif.Reach("done")
}

// VH_C04_DecryptMessage: every ciphertext of n bytes (any content, key, usage) yields a value or an error.
func VH_C04_DecryptMessage() {
	et, n := zzverif.Param("etype"), zzverif.Param("n")
	p := vhProfileOf(et)
	e, _ := GetEtype(int32(et))
	e.DecryptMessage(zzverif.Bytes(p.keyLen), zzverif.Bytes(n), zzverif.Uint32())
	DecryptMessage(zzverif.Bytes(n), vhKey(int32(et), zzverif.Bytes(p.keyLen)), zzverif.Uint32())
	zzverif.Reach("returned")
}

// VH_C07_VerifyWrongKeyLength: a key that does not have the encryption type's key length verifies nothing -
// in particular not an empty or truncated checksum (a failed key derivation must not become an "expected
// checksum" that an empty candidate equals).  rc4-hmac is excluded: HMAC-MD5 is defined for every key length.
func VH_C07_VerifyWrongKeyLength() {
	et, kl, cl := zzverif.Param("etype"), zzverif.Param("keylen"), zzverif.Param("cklen")
	e, err := GetEtype(int32(et))
	zzverif.Assume(err == nil && kl != e.GetKeyByteSize())
	key, data, ck := zzverif.Bytes(kl), zzverif.Bytes(3), zzverif.Bytes(cl)
	usage := zzverif.Uint32()
	zzverif.Assert("wrong-length-key-never-verifies", !e.VerifyChecksum(key, data, ck, usage))
	zzverif.Reach("done")
}
