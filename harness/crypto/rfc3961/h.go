package rfc3961

import "github.com/jcmturner/gokrb5/v8/zzverif"

// ---- C08: n-fold building blocks -----------------------------------------------------------------------

// vhEndAroundAdd is ones' complement addition of two equal-length big-endian numbers: binary
// addition with the carry out of the top bit added back in at the bottom (RFC 3961 5.1).
func vhEndAroundAdd(a, b []byte) []byte {
	n := len(a)
	out := make([]byte, n)
	carry := 0
	for i := n - 1; i >= 0; i-- {
		s := int(a[i]) + int(b[i]) + carry
		out[i] = byte(s)
		carry = s >> 8
	}
	// end-around carry (adding 1 cannot carry out again unless the sum was all ones, in which case
	// the result wraps to zero with a second, final carry that is dropped: -0 + 1 = +1 case handled below)
	for i := n - 1; i >= 0; i-- {
		s := int(out[i]) + carry
		out[i] = byte(s)
		carry = s >> 8
	}
	return out
}

// VH_C08_OnesComplementAddition: the bit-serial, recursive implementation equals end-around-carry
// addition for ALL pairs of n-byte operands.
func VH_C08_OnesComplementAddition() {
	n := zzverif.Param("n")
	a, b := zzverif.Bytes(n), zzverif.Bytes(n)
	got := onesComplementAddition(a, b)
	want := vhEndAroundAdd(a, b)
	zzverif.Assert("ones-complement-add-length", len(got) == n)
	zzverif.Assert("ones-complement-add-equals-end-around-carry-sum", zzverif.EqBytes(got, want))
	zzverif.Reach("done")
}

// vhRotR: rotate the bit string right by step bits (bit 0 = most significant bit of byte 0).
func vhRotR(b []byte, step int) []byte {
	n := len(b) * 8
	out := make([]byte, len(b))
	for i := 0; i < n; i++ {
		src := ((i-step)%n + n) % n
		bit := (b[src/8] >> (7 - uint(src%8))) & 1
		out[i/8] |= bit << (7 - uint(i%8))
	}
	return out
}

// VH_C08_RotateRight: rotateRight(m, 13*i) is the bit rotation for every content and the steps n-fold uses.
func VH_C08_RotateRight() {
	n, reps := zzverif.Param("n"), zzverif.Param("reps")
	m := zzverif.Bytes(n)
	for i := 0; i < reps; i++ {
		zzverif.Assert("rotate-right-by-13i", zzverif.EqBytes(rotateRight(m, 13*i), vhRotR(m, 13*i)))
	}
	zzverif.Reach("done")
}

// ---- C08: des3 random-to-key ---------------------------------------------------------------------------

// RFC 3961 6.3.1 des3 random-to-key: 7 bytes -> 8 bytes with odd parity, weak keys corrected
func vhDES3Expand(b []byte) []byte {
	out := make([]byte, 8)
	var last byte
	for i := 0; i < 7; i++ {
		out[i] = b[i] &^ 1
		last |= (b[i] & 1) << uint(i+1)
	}
	out[7] = last
	for i := range out {
		// set the low bit so that the byte has odd parity
		x := out[i] >> 1
		x ^= x >> 4
		x ^= x >> 2
		x ^= x >> 1
		out[i] = out[i]&^1 | (^x & 1)
	}
	if vhDESWeak(out) {
		out[7] ^= 0xF0
	}
	return out
}

var vhWeakTable = [][8]byte{
	{0x01, 0x01, 0x01, 0x01, 0x01, 0x01, 0x01, 0x01}, {0xFE, 0xFE, 0xFE, 0xFE, 0xFE, 0xFE, 0xFE, 0xFE}, {0x1F, 0x1F, 0x1F, 0x1F, 0x0E, 0x0E, 0x0E, 0x0E}, {0xE0, 0xE0, 0xE0, 0xE0, 0xF1, 0xF1, 0xF1, 0xF1},
	{0x01, 0xFE, 0x01, 0xFE, 0x01, 0xFE, 0x01, 0xFE}, {0xFE, 0x01, 0xFE, 0x01, 0xFE, 0x01, 0xFE, 0x01}, {0x1F, 0xE0, 0x1F, 0xE0, 0x0E, 0xF1, 0x0E, 0xF1}, {0xE0, 0x1F, 0xE0, 0x1F, 0xF1, 0x0E, 0xF1, 0x0E},
	{0x01, 0xE0, 0x01, 0xE0, 0x01, 0xF1, 0x01, 0xF1}, {0xE0, 0x01, 0xE0, 0x01, 0xF1, 0x01, 0xF1, 0x01}, {0x1F, 0xFE, 0x1F, 0xFE, 0x0E, 0xFE, 0x0E, 0xFE}, {0xFE, 0x1F, 0xFE, 0x1F, 0xFE, 0x0E, 0xFE, 0x0E},
	{0x01, 0x1F, 0x01, 0x1F, 0x01, 0x0E, 0x01, 0x0E}, {0x1F, 0x01, 0x1F, 0x01, 0x0E, 0x01, 0x0E, 0x01}, {0xE0, 0xFE, 0xE0, 0xFE, 0xF1, 0xFE, 0xF1, 0xFE}, {0xFE, 0xE0, 0xFE, 0xE0, 0xFE, 0xF1, 0xFE, 0xF1},
}

func vhDESWeak(k []byte) bool {
	weak := false
	for _, w := range vhWeakTable {
		weak = zzverif.Or(weak, zzverif.EqBytes(k, w[:]))
	}
	return weak
}


// VH_C08_DES3Group: one 56-bit group: fixWeakKey(stretch56Bits(x)) equals RFC 3961 6.3.1 for ALL 2^56 inputs.
func VH_C08_DES3Group() {
	x := zzverif.Bytes(7)
	got := fixWeakKey(stretch56Bits(x))
	zzverif.Assert("des3-group-length", len(got) == 8)
	zzverif.Assert("des3-group-equals-rfc", zzverif.EqBytes(got, vhDES3Expand(x)))
	zzverif.Reach("done")
}

// VH_C08_DES3RandomToKey: the 168-bit seed is expanded group by group, in order.
func VH_C08_DES3RandomToKey() {
	x := zzverif.Bytes(21)
	got := DES3RandomToKey(x)
	want := append(append(vhDES3Expand(x[0:7]), vhDES3Expand(x[7:14])...), vhDES3Expand(x[14:21])...)
	zzverif.Assert("des3-random-to-key-length", len(got) == 24)
	zzverif.Assert("des3-random-to-key-equals-rfc", zzverif.EqBytes(got, want))
	// the reference used (as an uninterpreted symbol) by the message-level harnesses is this function
	zzverif.Assert("reference-symbol-agrees", zzverif.EqBytes(zzverif.DES3RandomToKey(x), want))
	zzverif.Reach("done")
}

// ---- C08: n-fold structure (ones' complement addition summarised by one symbol on both sides) ----------

func vhGCD(a, b int) int {
	for b != 0 {
		a, b = b, a%b
	}
	return a
}

// VH_C08_NfoldStructure: Nfold(m, n) = the RFC 3961 5.1 construction: lcm(n,k)/k copies of m, the i-th
// rotated right by 13*i bits, concatenated, cut into n-bit blocks and added with ones' complement addition.
func VH_C08_NfoldStructure() {
	mlen, n := zzverif.Param("mlen"), zzverif.Param("nbits")
	m := zzverif.Bytes(mlen)
	got := Nfold(m, n)
	k := mlen * 8
	l := n * k / vhGCD(n, k)
	var buf []byte
	for i := 0; i < l/k; i++ {
		buf = append(buf, vhRotR(m, 13*i)...)
	}
	acc := make([]byte, n/8)
	for i := 0; i < l/n; i++ {
		acc = zzverif.OnesAdd(acc, buf[i*n/8:(i+1)*n/8])
	}
	zzverif.Assert("nfold-length", len(got) == n/8)
	zzverif.Assert("nfold-equals-rfc-construction", zzverif.EqBytes(got, acc))
	zzverif.Reach("done")
}
