package crypto

import (
	"github.com/jcmturner/gokrb5/v8/crypto/etype"
	"github.com/jcmturner/gokrb5/v8/types"
)

func vhKey(et int32, kv []byte) types.EncryptionKey { return types.EncryptionKey{KeyType: et, KeyValue: kv} }

// Exported views of the RFC reference models for harnesses in other packages (overlay only).

func VHSpecChecksum(et int, key, data []byte, usage uint32) []byte {
	return vhChecksum(vhProfileOf(et), key, data, usage)
}
func VHSpecEncrypt(et int, key, conf, msg []byte, usage uint32) []byte {
	return vhEncrypt(vhProfileOf(et), key, conf, msg, usage)
}
func VHKeyLen(et int) int   { return vhProfileOf(et).keyLen }
func VHMacLen(et int) int   { return vhProfileOf(et).macLen }
func VHConfLen(et int) int  { return vhProfileOf(et).conf }
func VHCksumID(et int) int32 { return vhProfileOf(et).cksumID }

func vhGenerateKey(e etype.EType) (types.EncryptionKey, error) { return types.GenerateEncryptionKey(e) }

// the way the library generates authenticator subkeys (types.NewAuthenticator / spnego): key size from the etype
func vhGenerateSubKey(e etype.EType) (types.EncryptionKey, error) {
	var a types.Authenticator
	err := a.GenerateSeqNumberAndSubKey(e.GetETypeID(), e.GetKeyByteSize())
	return a.SubKey, err
}

// VHMacLenForPAC: signature size of the PAC checksum types ([MS-PAC] 2.8): HMAC-MD5 16, AES 12/12/16/24
func VHMacLenForPAC(et int) int { return vhProfileOf(et).macLen }
