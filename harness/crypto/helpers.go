package crypto

import "github.com/jcmturner/gokrb5/v8/types"

func vhKey(et int32, kv []byte) types.EncryptionKey { return types.EncryptionKey{KeyType: et, KeyValue: kv} }
