package zzverif

import (
	"encoding/hex"
	"fmt"
	"io"
	"net"
	"time"
)

// Native scripted endpoints for the replay of network harnesses: real listeners on 127.0.0.1 that
// behave as the symbolic run's endpoints did (see engine/netstubs.go for the behaviour codes).

type endpointRec struct {
	Epoch int    `json:"epoch"`
	Addr  string `json:"addr"`
	TCP   int    `json:"tcp"`
	UDP   int    `json:"udp"`
	Reply    string `json:"reply"`
	ReplyTCP string `json:"reply_tcp"`
	Hdr   string `json:"hdr"`
}

var endpointAddrs = map[int]string{}

type liveEndpoint struct {
	port int
	tl   net.Listener
	ul   *net.UDPConn
}

var liveEndpoints = map[int]*liveEndpoint{}
var endpointEpoch = 0

func endpointRecFor(i, epoch int) endpointRec {
	want := fmt.Sprintf("k%d:88", i)
	rec := endpointRec{Addr: want, TCP: 1, UDP: 1}
	for _, e := range rf.Endpoints {
		if e.Addr == want && e.Epoch == epoch {
			rec = e
		}
	}
	return rec
}

// serve starts endpoint i's listeners on its port with the behaviour recorded for the current epoch.
func (le *liveEndpoint) serve(i int) bool {
	rec := endpointRecFor(i, endpointEpoch)
	reply, _ := hex.DecodeString(rec.Reply)
	replyTCP, _ := hex.DecodeString(rec.ReplyTCP)
	hdr, _ := hex.DecodeString(rec.Hdr)
	if rec.TCP != 1 {
		tl, err := net.Listen("tcp", fmt.Sprintf("127.0.0.1:%d", le.port))
		if err != nil {
			return false
		}
		le.tl = tl
		go serveTCP(tl, rec.TCP, hdr, replyTCP)
	}
	if rec.UDP != 1 {
		ul, err := net.ListenUDP("udp", &net.UDPAddr{IP: net.IPv4(127, 0, 0, 1), Port: le.port})
		if err != nil {
			return false
		}
		le.ul = ul
		go serveUDP(ul, rec.UDP, reply)
	}
	return true
}

func (le *liveEndpoint) stop() {
	if le.tl != nil {
		le.tl.Close()
		le.tl = nil
	}
	if le.ul != nil {
		le.ul.Close()
		le.ul = nil
	}
}

// NextEpoch: from now on every endpoint behaves in a new, unrelated way (same addresses).
func NextEpoch() {
	load()
	endpointEpoch++
	for i, le := range liveEndpoints {
		le.stop()
		for try := 0; try < 50 && !le.serve(i); try++ {
			le.stop()
			time.Sleep(20 * time.Millisecond)
		}
	}
}

// Endpoint returns the address of KDC endpoint i ("k<i>:88" under gosym; a live loopback port natively).
func Endpoint(i int) string {
	load()
	if a, ok := endpointAddrs[i]; ok {
		return a
	}
	for try := 0; try < 50; try++ {
		// reserve a port number that is free for TCP and UDP
		tl, err := net.Listen("tcp", "127.0.0.1:0")
		if err != nil {
			continue
		}
		port := tl.Addr().(*net.TCPAddr).Port
		ul, err := net.ListenUDP("udp", &net.UDPAddr{IP: net.IPv4(127, 0, 0, 1), Port: port})
		tl.Close()
		if err != nil {
			continue
		}
		ul.Close()
		le := &liveEndpoint{port: port}
		if !le.serve(i) {
			le.stop()
			continue
		}
		liveEndpoints[i] = le
		a := fmt.Sprintf("127.0.0.1:%d", port)
		endpointAddrs[i] = a
		return a
	}
	panic("zzverif: cannot set up endpoint")
}

func serveTCP(l net.Listener, beh int, hdr, reply []byte) {
	for {
		c, err := l.Accept()
		if err != nil {
			return
		}
		go func(c net.Conn) {
			defer c.Close()
			c.SetDeadline(time.Now().Add(3 * time.Second))
			// a KDC answers only a complete request: 4-byte length, then exactly that many bytes
			lh := make([]byte, 4)
			if _, err := io.ReadFull(c, lh); err != nil {
				return
			}
			n := int(lh[0])<<24 | int(lh[1])<<16 | int(lh[2])<<8 | int(lh[3])
			buf := make([]byte, n)
			for got := 0; got < n; {
				k, err := c.Read(buf[got:])
				if err != nil {
					return
				}
				got += k
			}
			switch beh {
			case 0:
				c.Write(append(append([]byte{}, hdr...), reply...))
			case 2:
				// close without answering
			case 3:
				// announce the whole reply but send only its first byte, then close
				c.Write(append(append([]byte{}, hdr...), reply[:1]...))
			}
		}(c)
	}
}

func serveUDP(c *net.UDPConn, beh int, reply []byte) {
	buf := make([]byte, 65536)
	for {
		n, from, err := c.ReadFromUDP(buf)
		if err != nil {
			return
		}
		if n == 0 {
			continue // an empty datagram is not a request
		}
		if beh == 0 {
			c.WriteToUDP(reply, from)
		}
	}
}

// EndpointAnswers: whether endpoint i answers correctly over TCP (tcp) / UDP (ghost knowledge of the harness).
func EndpointAnswers(i int, tcp bool) bool {
	load()
	e := endpointRecFor(i, endpointEpoch)
	if tcp {
		return e.TCP == 0
	}
	return e.UDP == 0
}
