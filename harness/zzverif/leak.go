package zzverif

import (
	"bytes"
	"encoding/base64"
	"encoding/hex"
	"fmt"
	"strings"
)

// ---- secrecy (C20) ----------------------------------------------------------------------------------
//
// Secret(n): n input bytes that must never show in anything handed to Public.  Under gosym Public is
// decided by self-composition (does the value depend on the secret at all?); natively it is the literal
// statement of the property: the secret itself - raw, hex or base64 - occurs in the output.

var secrets [][]byte

func Secret(n int) []byte {
	b := Bytes(n)
	secrets = append(secrets, b)
	return b
}

// Public: the values leave the library (diagnostics, errors, log lines, wire encodings).
func Public(label string, vals ...interface{}) {
	for _, v := range vals {
		var out []byte
		switch x := v.(type) {
		case nil:
			continue
		case string:
			out = []byte(x)
		case []byte:
			out = x
		case error:
			out = []byte(x.Error())
		case fmt.Stringer:
			out = []byte(x.String())
		default:
			out = []byte(fmt.Sprintf("%v", x))
		}
		if containsSecret(out) {
			failed = append(failed, "no-secret-in-"+label)
			return
		}
	}
}

func containsSecret(out []byte) bool {
	for _, s := range secrets {
		if len(s) < 4 {
			continue // too short to tell from coincidence
		}
		h := hex.EncodeToString(s)
		forms := [][]byte{s, []byte(h), []byte(strings.ToUpper(h))}
		// half of a key is a leak too: every window of 8 secret bytes, raw or hex
		for i := 0; len(s) > 8 && i+8 <= len(s); i++ {
			w := hex.EncodeToString(s[i : i+8])
			forms = append(forms, s[i:i+8], []byte(w), []byte(strings.ToUpper(w)))
		}
		// base64 of the secret at any alignment inside a longer encoded field: search the three
		// phase-shifted encodings with their boundary characters dropped
		for _, enc := range []*base64.Encoding{base64.StdEncoding, base64.URLEncoding} {
			for pad := 0; pad < 3; pad++ {
				e := enc.EncodeToString(append(make([]byte, pad), s...))
				lo := (pad*8 + 5) / 6
				hi := len(e) - 4
				if len(s) >= 8 && hi > lo+4 {
					forms = append(forms, []byte(e[lo:hi]))
				}
			}
			forms = append(forms, []byte(strings.TrimRight(enc.EncodeToString(s), "=")))
		}
		for _, f := range forms {
			if len(f) > 0 && bytes.Contains(out, f) {
				return true
			}
		}
	}
	return false
}

// Sink is an io.Writer whose content is public (diagnostic dumps, log output).
type Sink struct{ Label string }

func (s Sink) Write(p []byte) (int, error) {
	Public(s.Label, p)
	return len(p), nil
}
