// Package zzverif is the runtime of the gosym harnesses.  It exists only in the overlay used by
// /verif (never in /repo).  Under gosym every function below is intercepted by name and its body
// never runs: inputs become SMT variables, Assume/Assert become path constraints / obligations.
// Compiled natively (replay), the bodies run: inputs are popped from a recorded counterexample in
// call order and the "uninterpreted" primitives are the real ones.
package zzverif

import (
	"crypto/aes"
	"crypto/cipher"
	"crypto/des"
	"crypto/hmac"
	"crypto/md5"
	"crypto/rand"
	"crypto/rc4"
	"crypto/sha1"
	"crypto/sha256"
	"crypto/sha512"
	"encoding/hex"
	"encoding/json"
	"errors"
	"fmt"
	"hash"
	"math/big"
	"os"
	"reflect"
	"runtime"
	"strings"
	"testing"
	"time"
	"unsafe"

	"golang.org/x/crypto/md4"
	"golang.org/x/crypto/pbkdf2"
)

// ---- replay state ---------------------------------------------------------------------------

type replayFile struct {
	Harness   string            `json:"harness"`
	Params    map[string]int64  `json:"params"`
	Inputs    []string          `json:"inputs"` // hex, in creation order
	Stubs     []json.RawMessage `json:"stubs"`
	Clock     []string          `json:"clock"`    // harness clock readings, ns since 0001-01-01 UTC
	RandInts  []string          `json:"randints"` // results of crypto/rand.Int, in call order
	Endpoints []endpointRec     `json:"endpoints"`
	Schedule  []int             `json:"schedule"` // thread ids in the order they were given the baton at lock operations
}

var (
	rf     replayFile
	queue  []*big.Int
	loaded bool
)

func load() {
	if loaded {
		return
	}
	loaded = true
	f := os.Getenv("ZZVERIF_REPLAY")
	if f == "" {
		return
	}
	b, err := os.ReadFile(f)
	if err != nil {
		panic(err)
	}
	if err := json.Unmarshal(b, &rf); err != nil {
		panic(err)
	}
	for _, v := range rf.Inputs {
		n, ok := new(big.Int).SetString(v, 16)
		if !ok {
			panic("bad input " + v)
		}
		queue = append(queue, n)
	}
	rand.Reader = scriptedRand{}
}

// scriptedRand makes crypto/rand deliver the recorded bytes (confounders, generated keys).
type scriptedRand struct{}

var randLog []byte

func (scriptedRand) Read(p []byte) (int, error) {
	// crypto/rand.Int reads big-endian bytes and rejection-samples; deliver the recorded result directly
	pcs := make([]uintptr, 8)
	fr := runtime.CallersFrames(pcs[:runtime.Callers(2, pcs)])
	for {
		f, more := fr.Next()
		if f.Function == "crypto/rand.Int" {
			v := big.NewInt(0)
			if len(rf.RandInts) > 0 {
				v, _ = new(big.Int).SetString(rf.RandInts[0], 10)
				rf.RandInts = rf.RandInts[1:]
			}
			v.FillBytes(p)
			return len(p), nil
		}
		if !more {
			break
		}
	}
	for i := range p {
		p[i] = Byte()
	}
	randLog = append(randLog, p...)
	return len(p), nil
}

// RandLog returns (and clears) the bytes that crypto/rand has delivered since the last call.
func RandLog() []byte {
	l := randLog
	randLog = nil
	return l
}

func pop() *big.Int {
	load()
	if len(queue) == 0 {
		return big.NewInt(0)
	}
	v := queue[0]
	queue = queue[1:]
	return v
}

// Skip is panicked by a failed Assume: the recorded model does not satisfy the harness natively.
type Skip struct{}

// Failure is panicked by a failed Assert.
type Failure struct{ Label string }

// ---- inputs -------------------------------------------------------------------------------------

func Byte() byte     { return byte(pop().Uint64()) }
func Uint16() uint16 { return uint16(pop().Uint64()) }
func Uint32() uint32 { return uint32(pop().Uint64()) }
func Int32() int32   { return int32(uint32(pop().Uint64())) }
func Int16() int16   { return int16(uint16(pop().Uint64())) }
func Uint64() uint64 { return pop().Uint64() }
func Int64() int64   { return int64(pop().Uint64()) }
func Int() int       { return int(pop().Uint64()) }
func Bool() bool     { return pop().Sign() != 0 }
func Bytes(n int) []byte {
	b := make([]byte, n)
	for i := range b {
		b[i] = Byte()
	}
	return b
}
func String(n int) string { return string(Bytes(n)) }

// Choose returns an arbitrary value in [lo,hi]; under gosym each feasible value is its own path.
func Choose(lo, hi int) int { return Int() }

// Param returns a concrete per-instance parameter (length, etype, ...).
func Param(name string) int {
	load()
	return int(rf.Params[name])
}

func Assume(b bool) {
	if !b {
		panic(Skip{})
	}
}

// Assert records a failed assertion and continues (like the symbolic execution, which reports the
// obligation and continues on the side where it holds), so that one replay run confirms every
// assertion that fails for the recorded inputs.
func Assert(label string, b bool) {
	if !b {
		failed = append(failed, label)
	}
}

var failed []string

func Reach(label string) {}

// ---- specification-side primitives (uninterpreted under gosym, real natively) -------------------

func hashByName(alg string) func() hash.Hash {
	switch alg {
	case "md4":
		return md4.New
	case "md5":
		return md5.New
	case "sha1":
		return sha1.New
	case "sha256":
		return sha256.New
	case "sha384":
		return sha512.New384
	}
	panic("unknown hash " + alg)
}

func HMAC(alg string, key, data []byte) []byte {
	m := hmac.New(hashByName(alg), key)
	m.Write(data)
	return m.Sum(nil)
}
func Hash(alg string, data []byte) []byte {
	h := hashByName(alg)()
	h.Write(data)
	return h.Sum(nil)
}

func blockCipher(alg string, key []byte) cipher.Block {
	var c cipher.Block
	var err error
	switch alg {
	case "aes":
		c, err = aes.NewCipher(key)
	case "des3":
		c, err = des.NewTripleDESCipher(key)
	default:
		panic("unknown cipher " + alg)
	}
	if err != nil {
		panic(err)
	}
	return c
}

// BlockEnc / BlockDec: one raw block operation of the named cipher (ECB, a single block).
func BlockEnc(alg string, key, block []byte) []byte {
	out := make([]byte, len(block))
	blockCipher(alg, key).Encrypt(out, block)
	return out
}
func BlockDec(alg string, key, block []byte) []byte {
	out := make([]byte, len(block))
	blockCipher(alg, key).Decrypt(out, block)
	return out
}

// RC4 returns data xor keystream(key).
func RC4(key, data []byte) []byte {
	c, err := rc4.NewCipher(key)
	if err != nil {
		panic(err)
	}
	out := make([]byte, len(data))
	c.XORKeyStream(out, data)
	return out
}

func PBKDF2(alg string, pw, salt []byte, iter int64, keyLen int) []byte {
	return pbkdf2.Key(pw, salt, int(iter), keyLen, hashByName(alg))
}

// ---- replay driver ------------------------------------------------------------------------------

// RunReplay runs the harness named in the replay file and prints one machine-readable line.
func RunReplay(t *testing.T, hs map[string]func()) {
	load()
	h, ok := hs[rf.Harness]
	if !ok {
		fmt.Printf("ZZREPLAY result=error msg=%q\n", "unknown harness "+rf.Harness)
		return
	}
	var m0, m1 runtime.MemStats
	runtime.ReadMemStats(&m0)
	defer func() {
		runtime.ReadMemStats(&m1)
		alloc := m1.TotalAlloc - m0.TotalAlloc
		e := recover()
		switch x := e.(type) {
		case nil:
			if len(failed) > 0 {
				fmt.Printf("ZZREPLAY result=assert label=%q alloc=%d\n", strings.Join(failed, ","), alloc)
			} else {
				fmt.Printf("ZZREPLAY result=pass alloc=%d\n", alloc)
			}
		case Skip:
			fmt.Printf("ZZREPLAY result=assume-failed alloc=%d\n", alloc)
		case Failure:
			fmt.Printf("ZZREPLAY result=assert label=%q alloc=%d\n", x.Label, alloc)
		default:
			msg := fmt.Sprint(e)
			var where []string
			pcs := make([]uintptr, 32)
			n := runtime.Callers(2, pcs)
			fr := runtime.CallersFrames(pcs[:n])
			for {
				f, more := fr.Next()
				if strings.Contains(f.Function, "gokrb5") && !strings.Contains(f.Function, "zzverif") {
					where = append(where, fmt.Sprintf("%s@%s:%d", f.Function, shortFile(f.File), f.Line))
				}
				if !more || len(where) >= 4 {
					break
				}
			}
			fmt.Printf("ZZREPLAY result=panic msg=%q where=%q label=%q alloc=%d\n", msg, strings.Join(where, " <- "), strings.Join(failed, ","), alloc)
		}
	}()
	h()
}

func shortFile(f string) string {
	if i := strings.LastIndex(f, "/"); i >= 0 {
		return f[i+1:]
	}
	return f
}

// Hex is a debugging aid for harness authors.
func Hex(b []byte) string { return hex.EncodeToString(b) }

// ---- branch-free boolean connectives (a harness oracle written with && / || forks the path) -------

func And(a, b bool) bool     { return a && b }
func Or(a, b bool) bool      { return a || b }
func Implies(a, b bool) bool { return !a || b }
func All(bs ...bool) bool {
	for _, b := range bs {
		if !b {
			return false
		}
	}
	return true
}
func Any(bs ...bool) bool {
	for _, b := range bs {
		if b {
			return true
		}
	}
	return false
}

// EqBytes compares two byte strings without forking (different lengths: false).
func EqBytes(a, b []byte) bool { return string(a) == string(b) }

// IteInt returns a if c else b without forking.
func IteInt(c bool, a, b int) int {
	if c {
		return a
	}
	return b
}

// Nfold is an independent implementation of RFC 3961 5.1 n-fold (transcribed from the RFC's
// description in the style of the MIT reference: rotate-by-13 copies added with end-around carry).
func Nfold(in []byte, nbits int) []byte {
	inb, outb := len(in), nbits/8
	a, b := outb, inb
	for b != 0 {
		a, b = b, a%b
	}
	lcm := outb * inb / a
	out := make([]byte, outb)
	acc := 0
	for i := lcm - 1; i >= 0; i-- {
		// the most significant bit of the input that lands in this output byte
		msbit := (((inb << 3) - 1) + (((inb << 3) + 13) * (i / inb)) + ((inb - (i % inb)) << 3)) % (inb << 3)
		acc += (((int(in[((inb-1)-(msbit>>3))%inb]) << 8) | int(in[(inb-(msbit>>3))%inb])) >> ((uint(msbit) & 7) + 1)) & 0xff
		acc += int(out[i%outb])
		out[i%outb] = byte(acc & 0xff)
		acc >>= 8
	}
	if acc != 0 {
		for i := outb - 1; i >= 0; i-- {
			acc += int(out[i])
			out[i] = byte(acc & 0xff)
			acc >>= 8
		}
	}
	return out
}

// DES3RandomToKey is an independent implementation of RFC 3961 6.3.1 (des3 random-to-key): each 7
// bytes are spread over 8 bytes with odd parity in the low bit, weak and semi-weak DES keys are
// corrected by xor 0xF0 into the last byte.
func DES3RandomToKey(r []byte) []byte {
	var out []byte
	for g := 0; g < 3; g++ {
		b := r[7*g : 7*g+7]
		k := make([]byte, 8)
		for i := 0; i < 7; i++ {
			k[i] = b[i] &^ 1
			k[7] |= (b[i] & 1) << uint(i+1)
		}
		for i := range k {
			ones := 0
			for j := 1; j < 8; j++ {
				ones += int(k[i]>>uint(j)) & 1
			}
			if ones%2 == 0 {
				k[i] |= 1
			} else {
				k[i] &^= 1
			}
		}
		for _, w := range desWeak {
			if string(k) == string(w[:]) {
				k[7] ^= 0xF0
				break
			}
		}
		out = append(out, k...)
	}
	return out
}

// FIPS 74 / RFC 3961 6.2: the 4 weak and 12 semi-weak DES keys
var desWeak = [][8]byte{
	{0x01, 0x01, 0x01, 0x01, 0x01, 0x01, 0x01, 0x01}, {0xFE, 0xFE, 0xFE, 0xFE, 0xFE, 0xFE, 0xFE, 0xFE}, {0x1F, 0x1F, 0x1F, 0x1F, 0x0E, 0x0E, 0x0E, 0x0E}, {0xE0, 0xE0, 0xE0, 0xE0, 0xF1, 0xF1, 0xF1, 0xF1},
	{0x01, 0xFE, 0x01, 0xFE, 0x01, 0xFE, 0x01, 0xFE}, {0xFE, 0x01, 0xFE, 0x01, 0xFE, 0x01, 0xFE, 0x01}, {0x1F, 0xE0, 0x1F, 0xE0, 0x0E, 0xF1, 0x0E, 0xF1}, {0xE0, 0x1F, 0xE0, 0x1F, 0xF1, 0x0E, 0xF1, 0x0E},
	{0x01, 0xE0, 0x01, 0xE0, 0x01, 0xF1, 0x01, 0xF1}, {0xE0, 0x01, 0xE0, 0x01, 0xF1, 0x01, 0xF1, 0x01}, {0x1F, 0xFE, 0x1F, 0xFE, 0x0E, 0xFE, 0x0E, 0xFE}, {0xFE, 0x1F, 0xFE, 0x1F, 0xFE, 0x0E, 0xFE, 0x0E},
	{0x01, 0x1F, 0x01, 0x1F, 0x01, 0x0E, 0x01, 0x0E}, {0x1F, 0x01, 0x1F, 0x01, 0x0E, 0x01, 0x0E, 0x01}, {0xE0, 0xFE, 0xE0, 0xFE, 0xF1, 0xFE, 0xF1, 0xFE}, {0xFE, 0xE0, 0xFE, 0xE0, 0xFE, 0xF1, 0xFE, 0xF1},
}

// OnesAdd is ones' complement (end-around carry) addition of two equal-length big-endian numbers.
func OnesAdd(a, b []byte) []byte {
	out := make([]byte, len(a))
	carry := 0
	for pass := 0; pass < 2; pass++ {
		for i := len(a) - 1; i >= 0; i-- {
			s := carry
			if pass == 0 {
				s += int(a[i]) + int(b[i])
			} else {
				s += int(out[i])
			}
			out[i] = byte(s)
			carry = s >> 8
		}
	}
	return out
}

// ---- clock and stub results (replay of harnesses that stub the environment) --------------------------

type stubRec struct {
	Name string            `json:"name"`
	Kind string            `json:"kind"`
	Outs []json.RawMessage `json:"outs"`
}

var (
	stubQ    []stubRec
	stubInit bool
	clockIdx = -1
)

func timeFromNS(s string) time.Time {
	ns, ok := new(big.Int).SetString(s, 10)
	if !ok {
		panic("bad time " + s)
	}
	sec, nsec := new(big.Int).DivMod(ns, big.NewInt(1000000000), new(big.Int))
	return time.Unix(sec.Int64()-62135596800, nsec.Int64()).UTC()
}

// Now is the harness clock: under gosym one arbitrary instant per run (until AdvanceClock); natively
// the recorded instant.  In linear-time harnesses the replay overlay routes time.Now() here.
func Now() time.Time {
	load()
	if len(rf.Clock) == 0 {
		return time.Now()
	}
	if clockIdx < 0 {
		clockIdx = 0
	}
	if clockIdx >= len(rf.Clock) {
		return timeFromNS(rf.Clock[len(rf.Clock)-1])
	}
	return timeFromNS(rf.Clock[clockIdx])
}

// AdvanceClock moves the harness clock to a later (or equal) arbitrary instant.
func AdvanceClock() {
	load()
	if clockIdx < 0 {
		clockIdx = 0 // the first reading
		return
	}
	clockIdx++
}

// AnyTime is an arbitrary instant in years 0001..9999.
func AnyTime() time.Time {
	return timeFromNS(pop().String())
}

// Stub pops the next recorded stub result; outs are pointers that receive the recorded values.
func Stub(name string, outs ...interface{}) error {
	load()
	if !stubInit {
		stubInit = true
		for _, raw := range rf.Stubs {
			var r stubRec
			if err := json.Unmarshal(raw, &r); err != nil {
				panic(err)
			}
			stubQ = append(stubQ, r)
		}
	}
	if len(stubQ) == 0 {
		panic(fmt.Sprintf("zzverif: no recorded result left for stub %s (native run diverged from the symbolic path)", name))
	}
	r := stubQ[0]
	stubQ = stubQ[1:]
	if r.Name != name {
		panic(fmt.Sprintf("zzverif: stub order mismatch: native run calls %s, recorded %s", name, r.Name))
	}
	callOK[name] = append(callOK[name], r.Kind != "err")
	if os.Getenv("ZZVERIF_DEBUG") != "" {
		fmt.Fprintf(os.Stderr, "zzverif stub %s -> %s\n", name, r.Kind)
	}
	if sc, ok := popScript(name); ok && (len(sc.outs) == len(outs) || sc.kind == "err") && sc.kind == r.Kind {
		fits := len(sc.outs) <= len(outs)
		for i := range sc.outs {
			if !fits || sc.outs[i] == nil || !reflect.TypeOf(sc.outs[i]).AssignableTo(reflect.TypeOf(outs[i]).Elem()) {
				fits = false
			}
		}
		if fits {
			for i := range sc.outs {
				reflect.ValueOf(outs[i]).Elem().Set(reflect.ValueOf(sc.outs[i]))
			}
			if r.Kind == "err" {
				return errors.New("zzverif stub: " + name + " failed")
			}
			return nil
		}
	}
	for i, o := range outs {
		if i < len(r.Outs) {
			ov := reflect.ValueOf(o).Elem()
			keep := keepPtrLike(ov)
			fill(ov, r.Outs[i])
			keep()
		}
	}
	if r.Kind == "err" {
		return errors.New("zzverif stub: " + name + " failed")
	}
	return nil
}

var timeType = reflect.TypeOf(time.Time{})

// keepPtrLike: a stubbed decoder leaves the unexported pointer-like fields of its output alone
// (settings, contexts, ...), as the real decoder does; the returned func restores them after fill.
func keepPtrLike(v reflect.Value) func() {
	if v.Kind() != reflect.Struct || v.Type() == timeType || !v.CanAddr() {
		return func() {}
	}
	var restore []func()
	for i := 0; i < v.NumField(); i++ {
		f := v.Field(i)
		switch f.Kind() {
		case reflect.Ptr, reflect.Interface, reflect.Map, reflect.Func, reflect.Chan:
			if !v.Type().Field(i).IsExported() {
				w := reflect.NewAt(f.Type(), unsafe.Pointer(f.UnsafeAddr())).Elem()
				old := reflect.New(f.Type()).Elem()
				old.Set(w)
				restore = append(restore, func() { w.Set(old) })
			}
		}
	}
	return func() {
		for _, f := range restore {
			f()
		}
	}
}

func fill(v reflect.Value, raw json.RawMessage) {
	if len(raw) == 0 || string(raw) == "null" {
		return
	}
	if v.Type() == timeType {
		var m struct{ T string }
		if json.Unmarshal(raw, &m) == nil && m.T != "" {
			v.Set(reflect.ValueOf(timeFromNS(m.T)))
		}
		return
	}
	switch v.Kind() {
	case reflect.Bool:
		var b bool
		json.Unmarshal(raw, &b)
		v.SetBool(b)
	case reflect.Int, reflect.Int8, reflect.Int16, reflect.Int32, reflect.Int64:
		var s string
		json.Unmarshal(raw, &s)
		n, _ := new(big.Int).SetString(s, 10)
		v.SetInt(n.Int64())
	case reflect.Uint, reflect.Uint8, reflect.Uint16, reflect.Uint32, reflect.Uint64, reflect.Uintptr:
		var s string
		json.Unmarshal(raw, &s)
		n, _ := new(big.Int).SetString(s, 10)
		v.SetUint(n.Uint64())
	case reflect.String:
		var m struct{ S string }
		json.Unmarshal(raw, &m)
		b, _ := hex.DecodeString(m.S)
		v.SetString(string(b))
	case reflect.Slice:
		if v.Type().Elem().Kind() == reflect.Uint8 {
			var m struct{ B string }
			json.Unmarshal(raw, &m)
			b, _ := hex.DecodeString(m.B)
			v.Set(reflect.ValueOf(b).Convert(v.Type()))
			return
		}
		var l []json.RawMessage
		json.Unmarshal(raw, &l)
		s := reflect.MakeSlice(v.Type(), len(l), len(l))
		for i := range l {
			fill(s.Index(i), l[i])
		}
		v.Set(s)
	case reflect.Array:
		var l []json.RawMessage
		json.Unmarshal(raw, &l)
		for i := range l {
			if i < v.Len() {
				fill(v.Index(i), l[i])
			}
		}
	case reflect.Struct:
		var m struct{ F map[string]json.RawMessage }
		json.Unmarshal(raw, &m)
		// start from the zero value: fields the symbolic run never looked at stay zero
		v.Set(reflect.Zero(v.Type()))
		for name, fr := range m.F {
			f := v.FieldByName(name)
			if f.IsValid() && !f.CanSet() && f.CanAddr() {
				// unexported field: the stubbed function is in the type's own package and sets it directly
				f = reflect.NewAt(f.Type(), unsafe.Pointer(f.UnsafeAddr())).Elem()
			}
			if f.IsValid() && f.CanSet() {
				fill(f, fr)
			}
		}
	case reflect.Ptr:
		var m struct{ P json.RawMessage }
		json.Unmarshal(raw, &m)
		if len(m.P) == 0 {
			return
		}
		if v.IsNil() {
			v.Set(reflect.New(v.Type().Elem()))
		}
		fill(v.Elem(), m.P)
	}
}

// ---- the log of stub calls, for oracles that talk about what the code asked its environment ---------

var (
	callArgs = map[string][][]interface{}{}
	callOK   = map[string][]bool{}
)

// StubArgs is called by the replay overlay at the top of every stubbed function.
func StubArgs(name string, args ...interface{}) { callArgs[name] = append(callArgs[name], args) }

func fullStubName(short string) string {
	for k := range callArgs {
		if strings.HasSuffix(k, short) {
			return k
		}
	}
	return short
}

// CallCount: how often the stubbed function (named by a suffix of its full name) was called.
func CallCount(short string) int { return len(callArgs[fullStubName(short)]) }

// CallArg: argument j (receiver first) of call i of the stubbed function.
func CallArg(short string, i, j int) interface{} { return callArgs[fullStubName(short)][i][j] }

// CallOK: whether call i of the stubbed function succeeded.
func CallOK(short string, i int) bool { return callOK[fullStubName(short)][i] }

// Intn stands in for math/rand.Intn in harnesses that make the shuffle outcome symbolic: natively it
// returns the recorded outcome.
func Intn(n int) int {
	var v int
	if err := Stub("math/rand.Intn", &v); err != nil {
		panic(err)
	}
	return v
}

// ScriptStub fixes what the named stub (suffix of its full name) returns on its next unscripted call:
// kind "val" or "err", outs in the order of the stub's outputs.  The symbolic run logs what the stub
// returned, scripted or not, and the replay pops that log.
func ScriptStub(short, kind string, outs ...interface{}) {
	scriptQ[short] = append(scriptQ[short], scriptRec{kind, outs})
}

type scriptRec struct {
	kind string
	outs []interface{}
}

// natively the scripted objects themselves are handed out (when they fit the stub's outputs), so that
// whatever the harness built with the real code (tickets, keys) reaches the code under test unchanged
var scriptQ = map[string][]scriptRec{}

func popScript(name string) (scriptRec, bool) {
	for k, q := range scriptQ {
		if strings.HasSuffix(name, k) && len(q) > 0 {
			scriptQ[k] = q[1:]
			return q[0], true
		}
	}
	return scriptRec{}, false
}

// Par runs the closures as concurrent threads.  Under gosym every interleaving at the lock
// operations is explored; natively the recorded schedule is followed (see Yield).
func Par(fs ...func()) { runPar(fs) }

// GhostCount: the size of a ghost log of the symbolic run (e.g. "dials": connection attempts).  Ghost
// state has no native counterpart: 0 natively (an assertion over it is decided symbolically only).
func GhostCount(key string) int { return 0 }

// Since and Until: time.Since / time.Until on the harness's clock (the replay overlay rewrites the calls of the code
// under test when linear time is stubbed; they read the wall clock inside package time otherwise).
func Since(t time.Time) time.Duration { return Now().Sub(t) }
func Until(t time.Time) time.Duration { return t.Sub(Now()) }
