package zzverif

import (
	"bytes"
	"runtime"
	"strconv"
)

// goid: the current goroutine's id (parsed from the stack header; replay tooling only).
func goid() int64 {
	b := make([]byte, 64)
	b = b[:runtime.Stack(b, false)]
	b = bytes.TrimPrefix(b, []byte("goroutine "))
	if i := bytes.IndexByte(b, ' '); i > 0 {
		n, _ := strconv.ParseInt(string(b[:i]), 10, 64)
		return n
	}
	return -1
}
