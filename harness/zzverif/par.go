package zzverif

import (
	"sync"
	"time"
)

// Native cooperative scheduler for schedule replay.  The replay overlay inserts zzverif.Yield()
// before every lock acquisition of the code under test; with a recorded schedule only the thread
// whose turn it is proceeds past a yield point.  Without a schedule the threads simply run.

var (
	parMu    sync.Mutex
	parCond  = sync.NewCond(&parMu)
	parTurn  = -1 // thread allowed to run (-1: free running)
	parSched []int
	parIDs   = map[int64]int{}
	parAlive map[int]bool
)

func runPar(fs []func()) {
	load()
	parSched = append([]int{}, rf.Schedule...)
	if len(parSched) == 0 {
		var wg sync.WaitGroup
		for _, f := range fs {
			wg.Add(1)
			go func(f func()) { defer wg.Done(); f() }(f)
		}
		wg.Wait()
		return
	}
	parAlive = map[int]bool{}
	var wg sync.WaitGroup
	for i, f := range fs {
		wg.Add(1)
		parAlive[i+1] = true
		go func(id int, f func()) {
			defer wg.Done()
			parMu.Lock()
			parIDs[goid()] = id
			parMu.Unlock()
			waitTurn(id)
			f()
			parMu.Lock()
			parAlive[id] = false
			nextTurn()
			parMu.Unlock()
		}(i+1, f)
	}
	parMu.Lock()
	nextTurn()
	parMu.Unlock()
	wg.Wait()
	parTurn = -1
}

// nextTurn: hand the baton to the next thread of the recorded schedule (caller holds parMu).
func nextTurn() {
	for len(parSched) > 0 {
		t := parSched[0]
		parSched = parSched[1:]
		if parAlive[t] {
			parTurn = t
			parCond.Broadcast()
			return
		}
	}
	// schedule exhausted: let the remaining threads run freely
	parTurn = -1
	parCond.Broadcast()
}

func waitTurn(id int) {
	parMu.Lock()
	for parTurn != -1 && parTurn != id {
		parCond.Wait()
	}
	parMu.Unlock()
}

// Yield is a scheduling point: the current thread gives the baton back and waits for its next turn.
func Yield() {
	parMu.Lock()
	id, ok := parIDs[goid()]
	if !ok || parTurn == -1 {
		parMu.Unlock()
		return
	}
	nextTurn()
	for parTurn != -1 && parTurn != id {
		parCond.Wait()
	}
	parMu.Unlock()
}

// ---- background goroutines started by the code under test (stub set "bgo") -----------------------------------
//
// Under gosym a `go` statement is recorded and zzverif.Background(i, n) runs that goroutine through n wake-ups
// from time.Sleep.  Natively the goroutine really runs; the replay overlay turns its time.Sleep into
// zzverif.Sleep, which parks it until Background wakes it, so that it takes exactly the recorded steps.

var bgIdle = make(chan chan struct{})
var bgParked []chan struct{}

// Sleep parks the calling (background) goroutine until the harness wakes it; the clock then moves on.
func Sleep(d time.Duration) {
	wake := make(chan struct{})
	bgIdle <- wake
	<-wake
	AdvanceClock()
}

// Background lets the i-th goroutine started by the code under test take n wake-ups and waits until it sleeps again.
// (Natively goroutines are not told apart: harnesses use it with a single background goroutine.)
func Background(i, n int) {
	for k := 0; k < n; k++ {
		w := <-bgIdle
		w <- struct{}{}
	}
	bgParked = append(bgParked, <-bgIdle)
}

// BackgroundCount: how many goroutines the code under test has started (0 natively: not observable).
func BackgroundCount() int { return 0 }
