package kadmin

import "github.com/jcmturner/gokrb5/v8/zzverif"

// VH_C04_ReplyUnmarshal: arbitrary kpasswd reply bytes (the embedded Kerberos messages are decoded by stubs).
func VH_C04_ReplyUnmarshal() {
	n := zzverif.Param("n")
	b := zzverif.Bytes(n)
	var r Reply
	r.Unmarshal(b)
	zzverif.Reach("returned")
}

func VH_C04_ParseResponse() {
	n := zzverif.Param("n")
	parseResponse(zzverif.Bytes(n))
	zzverif.Reach("returned")
}
