package keytab

import (
	"time"

	"github.com/jcmturner/gokrb5/v8/types"
)

// VHAddEntry appends a raw entry (harness helper; overlay only).
func (kt *Keytab) VHAddEntry(realm string, comps []string, etype int32, kvno uint32, key []byte, ts time.Time) {
	var e entry
	e.Principal.Realm = realm
	e.Principal.Components = comps
	e.Principal.NumComponents = int16(len(comps))
	e.Key = types.EncryptionKey{KeyType: etype, KeyValue: key}
	e.KVNO = kvno
	e.KVNO8 = uint8(kvno)
	e.Timestamp = ts
	kt.Entries = append(kt.Entries, e)
}
