package keytab

import (
	"time"

	"github.com/jcmturner/gokrb5/v8/types"
	"github.com/jcmturner/gokrb5/v8/zzverif"
)

// ---- helpers ------------------------------------------------------------------------------------

// vhStr: a symbolic string of exactly n bytes, or (varlen) of every length 0..n.
func vhStr(n int, varlen bool) string {
	if varlen {
		return zzverif.String(zzverif.Choose(0, n))
	}
	return zzverif.String(n)
}

func vhAnyEntry(ncomp, slen, klen int) entry { return vhAnyEntryV(ncomp, slen, klen, false) }

func vhAnyEntryV(ncomp, slen, klen int, varlen bool) entry {
	var e entry
	e.Principal.Realm = zzverif.String(slen)
	for i := 0; i < ncomp; i++ {
		e.Principal.Components = append(e.Principal.Components, vhStr(slen, varlen))
	}
	e.Key.KeyType = zzverif.Int32()
	e.Key.KeyValue = zzverif.Bytes(klen)
	e.KVNO = zzverif.Uint32()
	e.Timestamp = time.Unix(int64(zzverif.Int32()), 0)
	return e
}

// vhMatch is the property's matching predicate written without short-circuit operators
// (each && in a harness forks the symbolic execution).
func vhMatch(e entry, pn types.PrincipalName, realm string, kvno int, et int32) bool {
	if len(e.Principal.Components) != len(pn.NameString) {
		return false
	}
	ok := zzverif.And(e.Principal.Realm == realm, e.Key.KeyType == et)
	for i := range pn.NameString {
		ok = zzverif.And(ok, e.Principal.Components[i] == pn.NameString[i])
	}
	return zzverif.And(ok, zzverif.Or(kvno == 0, e.KVNO == uint32(kvno)))
}

func vhSameBytes(a, b []byte) bool {
	return zzverif.EqBytes(a, b)
}

// ---- C14: lookup --------------------------------------------------------------------------------

// VH_C14_Lookup: GetEncryptionKey returns only the key of a matching entry that no matching entry is
// newer than, and fails when nothing matches.
func VH_C14_Lookup() {
	maxE, maxC, slen, maxK := zzverif.Param("entries"), zzverif.Param("comps"), zzverif.Param("slen"), zzverif.Param("klen")
	qlen := zzverif.Param("qlen") // > 0: component strings of every length 0..slen (entries) and 0..qlen (query)
	ne := zzverif.Choose(0, maxE)
	kt := New()
	for i := 0; i < ne; i++ {
		kt.Entries = append(kt.Entries, vhAnyEntryV(zzverif.Choose(0, maxC), slen, zzverif.Choose(0, maxK), qlen > 0))
	}
	var pn types.PrincipalName
	nq := zzverif.Choose(0, maxC)
	for i := 0; i < nq; i++ {
		if qlen > 0 {
			pn.NameString = append(pn.NameString, vhStr(qlen, true))
		} else {
			pn.NameString = append(pn.NameString, zzverif.String(slen))
		}
	}
	realm := zzverif.String(slen)
	kvno := zzverif.Int()
	zzverif.Assume(kvno >= 0 && kvno < 1<<32)
	et := zzverif.Int32()
	key, kv, err := kt.GetEncryptionKey(pn, realm, kvno, et)
	anyMatch := false
	allNonEmpty := true
	for _, e := range kt.Entries {
		m := vhMatch(e, pn, realm, kvno, et)
		anyMatch = zzverif.Or(anyMatch, m)
		allNonEmpty = zzverif.And(allNonEmpty, zzverif.Or(!m, len(e.Key.KeyValue) != 0))
	}
	if err == nil {
		zzverif.Reach("found")
		zzverif.Assert("found-key-nonempty", len(key.KeyValue) > 0)
		// the returned key is that of some matching entry and no matching entry is strictly newer
		ok := false
		for _, e := range kt.Entries {
			cand := zzverif.All(vhMatch(e, pn, realm, kvno, et), int(e.KVNO) == kv, vhSameBytes(e.Key.KeyValue, key.KeyValue), e.Key.KeyType == key.KeyType)
			newest := true
			for _, f := range kt.Entries {
				newest = zzverif.And(newest, !zzverif.And(vhMatch(f, pn, realm, kvno, et), f.Timestamp.After(e.Timestamp)))
			}
			ok = zzverif.Or(ok, zzverif.And(cand, newest))
		}
		zzverif.Assert("found-implies-matching-newest", ok)
		zzverif.Assert("found-kvno-is-requested", zzverif.Or(kvno == 0, kv == kvno))
	} else {
		zzverif.Reach("notfound")
		zzverif.Assert("all-matching-nonempty-implies-found", !zzverif.And(anyMatch, allNonEmpty))
	}
	zzverif.Assert("nomatch-implies-error", zzverif.Or(anyMatch, err != nil))
}

// ---- C14: Marshal/Unmarshal round trip ----------------------------------------------------------

func VH_C14_RoundTrip() {
	v, ne, maxC, slen, klen := zzverif.Param("version"), zzverif.Param("entries"), zzverif.Param("comps"), zzverif.Param("slen"), zzverif.Param("klen")
	kt := &Keytab{version: uint8(v)}
	for i := 0; i < ne; i++ {
		e := vhAnyEntry(zzverif.Choose(0, maxC), slen, klen)
		e.Principal.NumComponents = int16(len(e.Principal.Components))
		if v == 1 {
			e.Principal.NumComponents++
		}
		e.Principal.NameType = zzverif.Int32()
		e.KVNO8 = zzverif.Byte()
		// the file format stores the key type in 16 bits; a 32-bit kvno of 0 means "use the 8-bit one"
		zzverif.Assume(e.Key.KeyType >= -32768 && e.Key.KeyType <= 32767)
		zzverif.Assume(e.KVNO != 0 || e.KVNO8 == 0)
		kt.Entries = append(kt.Entries, e)
	}
	b, err := kt.Marshal()
	zzverif.Assert("marshal-ok", err == nil)
	back := New()
	err = back.Unmarshal(b)
	zzverif.Assert("unmarshal-ok", err == nil)
	zzverif.Assert("roundtrip-version", back.version == uint8(v))
	zzverif.Assert("roundtrip-count", len(back.Entries) == ne)
	for i := range kt.Entries {
		a, c := kt.Entries[i], back.Entries[i]
		zzverif.Assert("roundtrip-realm", a.Principal.Realm == c.Principal.Realm)
		zzverif.Assert("roundtrip-ncomp", len(a.Principal.Components) == len(c.Principal.Components))
		for j := range a.Principal.Components {
			zzverif.Assert("roundtrip-comp", a.Principal.Components[j] == c.Principal.Components[j])
		}
		if v == 2 {
			zzverif.Assert("roundtrip-nametype", a.Principal.NameType == c.Principal.NameType)
		}
		zzverif.Assert("roundtrip-timestamp", a.Timestamp.Unix() == c.Timestamp.Unix())
		zzverif.Assert("roundtrip-kvno8", a.KVNO8 == c.KVNO8)
		zzverif.Assert("roundtrip-kvno", a.KVNO == c.KVNO)
		zzverif.Assert("roundtrip-keytype", a.Key.KeyType == c.Key.KeyType)
		zzverif.Assert("roundtrip-key", vhSameBytes(a.Key.KeyValue, c.Key.KeyValue))
	}
	zzverif.Reach("compared")
}

// ---- C14: a file produced by an independent writer (MIT keytab format description) ---------------

type vhModelEntry struct {
	realm    string
	comps    []string
	nameType uint32
	ts       uint32
	vno8     byte
	keyType  uint16
	key      []byte
	has32    bool
	vno32    uint32
	hole     int // bytes of deleted-entry hole written before this entry
}

func vhPut16(b []byte, v uint16, ver int) []byte {
	if ver == 1 { // native order: this build is little-endian (amd64)
		return append(b, byte(v), byte(v>>8))
	}
	return append(b, byte(v>>8), byte(v))
}
func vhPut32(b []byte, v uint32, ver int) []byte {
	if ver == 1 {
		return append(b, byte(v), byte(v>>8), byte(v>>16), byte(v>>24))
	}
	return append(b, byte(v>>24), byte(v>>16), byte(v>>8), byte(v))
}
func vhPutStr(b []byte, s string, ver int) []byte {
	b = vhPut16(b, uint16(len(s)), ver)
	return append(b, s...)
}

func VH_C14_IndependentWriter() {
	ver, ne, maxC, slen, klen, maxHole := zzverif.Param("version"), zzverif.Param("entries"), zzverif.Param("comps"), zzverif.Param("slen"), zzverif.Param("klen"), zzverif.Param("hole")
	var model []vhModelEntry
	file := []byte{5, byte(ver)}
	for i := 0; i < ne; i++ {
		var m vhModelEntry
		m.hole = zzverif.Choose(0, maxHole)
		m.realm = zzverif.String(slen)
		nc := zzverif.Choose(0, maxC)
		for j := 0; j < nc; j++ {
			m.comps = append(m.comps, zzverif.String(slen))
		}
		m.nameType, m.ts, m.vno8, m.keyType = zzverif.Uint32(), zzverif.Uint32(), zzverif.Byte(), zzverif.Uint16()
		m.key = zzverif.Bytes(klen)
		m.has32 = zzverif.Choose(0, 1) == 1
		m.vno32 = zzverif.Uint32()
		model = append(model, m)
		if m.hole > 0 {
			// a deleted entry: negative length, then that many (arbitrary) bytes
			file = vhPut32(file, uint32(-int32(m.hole)), ver)
			file = append(file, zzverif.Bytes(m.hole)...)
		}
		var eb []byte
		n := len(m.comps)
		if ver == 1 {
			n++ // version 1 counts the realm
		}
		eb = vhPut16(eb, uint16(n), ver)
		eb = vhPutStr(eb, m.realm, ver)
		for _, c := range m.comps {
			eb = vhPutStr(eb, c, ver)
		}
		if ver != 1 {
			eb = vhPut32(eb, m.nameType, ver)
		}
		eb = vhPut32(eb, m.ts, ver)
		eb = append(eb, m.vno8)
		eb = vhPut16(eb, m.keyType, ver)
		eb = vhPut16(eb, uint16(len(m.key)), ver)
		eb = append(eb, m.key...)
		if m.has32 {
			eb = vhPut32(eb, m.vno32, ver)
		}
		file = vhPut32(file, uint32(len(eb)), ver)
		file = append(file, eb...)
	}
	kt := New()
	err := kt.Unmarshal(file)
	zzverif.Assert("wellformed-file-parses", err == nil)
	zzverif.Assert("entry-count", len(kt.Entries) == ne)
	for i, m := range model {
		e := kt.Entries[i]
		zzverif.Assert("realm", e.Principal.Realm == m.realm)
		zzverif.Assert("component-count", len(e.Principal.Components) == len(m.comps))
		for j := range m.comps {
			zzverif.Assert("component", e.Principal.Components[j] == m.comps[j])
		}
		if ver != 1 {
			zzverif.Assert("name-type", uint32(e.Principal.NameType) == m.nameType)
		}
		zzverif.Assert("timestamp", e.Timestamp.Unix() == int64(int32(m.ts)))
		zzverif.Assert("kvno8", e.KVNO8 == m.vno8)
		zzverif.Assert("key-type", e.Key.KeyType == int32(int16(m.keyType)))
		zzverif.Assert("key-bytes", vhSameBytes(e.Key.KeyValue, m.key))
		want := uint32(m.vno8)
		if m.has32 && m.vno32 != 0 {
			want = m.vno32
		}
		zzverif.Assert("kvno-32bit-overrides-8bit-when-present-and-nonzero", e.KVNO == want)
	}
	zzverif.Reach("compared")
}

// ---- C04: arbitrary bytes ------------------------------------------------------------------------

func VH_C04_Unmarshal() {
	n := zzverif.Param("n")
	b := zzverif.Bytes(n)
	// the first two bytes select the parser; fix them so that the bound is spent on the entries
	zzverif.Assume(b[0] == 5)
	zzverif.Assume(b[1] == 1 || b[1] == 2)
	kt := New()
	kt.Unmarshal(b)
	zzverif.Reach("returned")
}

func VH_C04_UnmarshalShort() {
	n := zzverif.Choose(0, 3)
	b := zzverif.Bytes(n)
	kt := New()
	kt.Unmarshal(b)
	zzverif.Reach("returned")
}

// ---- C20: a keytab's keys never show in its diagnostics or in the errors of its parser ---------------------

// VH_C20_KeytabSurfaces: a keytab holding a secret key: its JSON dump, the error of a failed lookup, and
// the error of parsing the keytab file truncated at every offset.
func VH_C20_KeytabSurfaces() {
	key := zzverif.Secret(zzverif.Param("keylen"))
	kt := New()
	kt.VHAddEntry("R", []string{"svc", "h"}, 18, 2, key, time.Unix(1500000000, 0))
	j, err := kt.JSON()
	zzverif.Public("keytab-json", j, err)
	for _, q := range []struct {
		name  string
		realm string
		kvno  int
		etype int32
	}{{"other", "R", 0, 18}, {"svc/h", "R", 9, 18}, {"svc/h", "R", 0, 17}, {"svc/h", "Q", 2, 18}, {"svc", "R", 2, 18}} {
		_, _, err = kt.GetEncryptionKey(types.NewPrincipalName(1, q.name), q.realm, q.kvno, q.etype)
		zzverif.Assume(err != nil)
		zzverif.Public("keytab-lookup-error", err)
	}
	b, err := kt.Marshal()
	zzverif.Public("keytab-marshal-error", err)
	zzverif.Assume(err == nil && len(b) > 0)
	cut := zzverif.Choose(0, len(b))
	var k2 Keytab
	err = k2.Unmarshal(b[:cut])
	if err != nil {
		zzverif.Reach("parse-error")
	} else {
		zzverif.Reach("parsed")
	}
	zzverif.Public("keytab-parse-error", err)
	j, _ = k2.JSON()
	zzverif.Public("keytab-json", j)
}
