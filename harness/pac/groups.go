package pac

import (
	"github.com/jcmturner/gokrb5/v8/zzverif"
	"github.com/jcmturner/rpc/v2/mstypes"
)

// ---- C19: the group memberships of a verified PAC are reported faithfully ---------------------------------

func vhSID(sub ...uint32) mstypes.RPCSID {
	return mstypes.RPCSID{Revision: 1, SubAuthorityCount: uint8(len(sub)), IdentifierAuthority: [6]byte{0, 0, 0, 0, 0, 5}, SubAuthority: sub}
}

func vhSmall() uint32 {
	v := zzverif.Uint32()
	zzverif.Assume(v < 4) // one decimal digit: SIDs collide and differ, their text stays cheap
	return v
}

func vhDigit(v uint32) string { return string([]byte{'0' + byte(v)}) }

func vhIn(list []string, s string) bool {
	in := false
	for _, e := range list {
		in = zzverif.Or(in, e == s)
	}
	return in
}

// VH_C19_GroupSIDs: GetGroupMembershipSIDs reports every SID the PAC lists (group ids under the logon
// domain, extra SIDs, resource groups under the resource domain) and nothing else, whatever repeats.
func VH_C19_GroupSIDs() {
	var k KerbValidationInfo
	d := vhSmall()
	k.LogonDomainID = vhSID(21, d)
	var want []string
	for i := 0; i < zzverif.Param("groups"); i++ {
		rid := vhSmall()
		k.GroupIDs = append(k.GroupIDs, mstypes.GroupMembership{RelativeID: rid})
		want = append(want, "S-1-5-21-"+vhDigit(d)+"-"+vhDigit(rid))
	}
	for i := 0; i < zzverif.Param("extra"); i++ {
		a, b := vhSmall(), vhSmall()
		k.ExtraSIDs = append(k.ExtraSIDs, mstypes.KerbSidAndAttributes{SID: vhSID(21, a, b)})
		want = append(want, "S-1-5-21-"+vhDigit(a)+"-"+vhDigit(b))
	}
	rd := vhSmall()
	k.ResourceGroupDomainSID = vhSID(21, rd)
	for i := 0; i < zzverif.Param("resource"); i++ {
		rid := vhSmall()
		k.ResourceGroupIDs = append(k.ResourceGroupIDs, mstypes.GroupMembership{RelativeID: rid})
		want = append(want, "S-1-5-21-"+vhDigit(rd)+"-"+vhDigit(rid))
	}
	got := k.GetGroupMembershipSIDs()
	for _, w := range want {
		zzverif.Assert("every-sid-of-the-pac-is-reported", vhIn(got, w))
	}
	for _, g := range got {
		zzverif.Assert("nothing-else-is-reported", vhIn(want, g))
	}
	zzverif.Assert("no-more-entries-than-listed", len(got) <= len(want))
	zzverif.Reach("done")
}
