package pac

import (
	"io"
	"log"

	"github.com/jcmturner/gokrb5/v8/crypto"
	"github.com/jcmturner/gokrb5/v8/types"
	"github.com/jcmturner/gokrb5/v8/zzverif"
)

func vhLE32(b []byte, v uint32) []byte { return append(b, byte(v), byte(v>>8), byte(v>>16), byte(v>>24)) }
func vhLE64(b []byte, v uint64) []byte { return vhLE32(vhLE32(b, uint32(v)), uint32(v>>32)) }

type vhBuf struct {
	typ  uint32
	data []byte
}

// vhPAC lays out a PACTYPE ([MS-PAC] 2.3): cBuffers, version, the PAC_INFO_BUFFER table, then the
// buffers at 8-byte aligned offsets.  Returns the bytes and the offset of each buffer.
func vhPAC(bufs []vhBuf) ([]byte, []int) {
	var b []byte
	b = vhLE32(b, uint32(len(bufs)))
	b = vhLE32(b, 0)
	off := 8 + 16*len(bufs)
	var offs []int
	for _, x := range bufs {
		off = (off + 7) / 8 * 8
		b = vhLE32(b, x.typ)
		b = vhLE32(b, uint32(len(x.data)))
		b = vhLE64(b, uint64(off))
		offs = append(offs, off)
		off += len(x.data)
	}
	for i, x := range bufs {
		for len(b) < offs[i] {
			b = append(b, 0)
		}
		b = append(b, x.data...)
	}
	return b, offs
}

func vhSigLen(et int) int { return crypto.VHMacLenForPAC(et) }

// VH_C19_Verify: a PAC with the four mandatory buffers (logon info, client info, server signature,
// KDC signature) in the order given, all contents symbolic; NDR decoding of the logon info is a stub.
// Accepted  =>  the server signature field equals the declared checksum of the PAC with both signature
// fields zeroed, keyed with the service key and usage 17.  A correctly signed PAC is accepted, and then
// any change of the signed data, the signature, the key or the declared type is rejected (idealised MAC).
func VH_C19_Verify() {
	et, mode, order, rodc := zzverif.Param("etype"), zzverif.Param("mode"), zzverif.Param("order"), zzverif.Param("rodc")
	ckType := uint32(int32(crypto.VHCksumID(et)))
	sl := vhSigLen(et)
	key := types.EncryptionKey{KeyType: int32(et), KeyValue: zzverif.Bytes(crypto.VHKeyLen(et))}
	logon := zzverif.Bytes(8)
	client := append(zzverif.Bytes(8), 2, 0, zzverif.Byte(), zzverif.Byte()) // FILETIME, name length 2 bytes, one UTF-16 unit
	srvSig := append(vhLE32(nil, ckType), zzverif.Bytes(sl)...)
	kdcSig := append(vhLE32(nil, ckType), zzverif.Bytes(sl)...)
	if rodc == 1 {
		srvSig = append(srvSig, zzverif.Byte(), zzverif.Byte())
		kdcSig = append(kdcSig, zzverif.Byte(), zzverif.Byte())
	}
	all := []vhBuf{{1, logon}, {10, client}, {6, srvSig}, {7, kdcSig}}
	orders := [][4]int{{0, 1, 2, 3}, {3, 2, 1, 0}, {2, 0, 3, 1}, {1, 3, 0, 2}}
	var bufs []vhBuf
	srvIdx, kdcIdx, cliIdx := 0, 0, 0
	for i, k := range orders[order] {
		bufs = append(bufs, all[k])
		if k == 1 {
			cliIdx = i
		}
		if k == 2 {
			srvIdx = i
		}
		if k == 3 {
			kdcIdx = i
		}
	}
	if zzverif.Param("extra") == 1 {
		// a fifth buffer of ANY type this library does not interpret (16 ticket signature, 19 full-PAC signature, ...),
		// shaped like signature data.  For the server signature it is ordinary signed data.
		typ := zzverif.Uint32()
		for _, known := range []uint32{1, 2, 6, 7, 10, 11, 12, 13, 14, 15} {
			zzverif.Assume(typ != known)
		}
		bufs = append(bufs, vhBuf{typ, zzverif.Bytes(4 + sl)})
	}
	data, offs := vhPAC(bufs)
	srvOff, kdcOff := offs[srvIdx]+4, offs[kdcIdx]+4 // the Signature fields
	cliOff := offs[cliIdx]
	zeroed := append([]byte{}, data...)
	for i := 0; i < sl; i++ {
		zeroed[srvOff+i], zeroed[kdcOff+i] = 0, 0
	}
	want := crypto.VHSpecChecksum(et, key.KeyValue, zeroed, 17)
	lg := log.New(io.Discard, "", 0)

	process := func(b []byte, k types.EncryptionKey) error {
		var p PACType
		if err := p.Unmarshal(b); err != nil {
			return err
		}
		return p.ProcessPACInfoBuffers(k, lg)
	}

	switch mode {
	case 0: // general form: whatever signature bytes the PAC carries
		err := process(data, key)
		if err == nil {
			zzverif.Reach("accepted")
			zzverif.Assert("accepted-implies-server-signature-is-checksum-of-zeroed-pac", zzverif.EqBytes(data[srvOff:srvOff+sl], want))
		} else {
			zzverif.Reach("rejected")
		}
	default:
		// a correctly signed PAC
		signed := append([]byte{}, data...)
		copy(signed[srvOff:], want)
		err0 := process(signed, key)
		// the NDR decoder of the logon information is a stub that may fail; that is a legitimate rejection
		ndrOK := zzverif.CallCount("KerbValidationInfo).Unmarshal") >= 1 && zzverif.CallOK("KerbValidationInfo).Unmarshal", 0)
		if !ndrOK {
			zzverif.Reach("checked")
			return
		}
		zzverif.Assert("correctly-signed-pac-accepted", err0 == nil)
		x := append([]byte{}, signed...)
		k2 := key
		switch mode {
		case 1: // any change to the buffers' contents outside the two signature fields and the type fields
			nz := false
			for i := 8 + 16*len(bufs); i < len(x); i++ {
				inSig := (i >= srvOff-4 && i < srvOff+sl) || (i >= kdcOff-4 && i < kdcOff+sl)
				structural := i >= cliOff+8 && i < cliOff+10 // the client-info name length steers the reader; left alone here (C04 covers it)
				if !inSig && !structural {
					m := zzverif.Byte()
					x[i] ^= m
					nz = zzverif.Or(nz, m != 0)
				}
			}
			zzverif.Assume(nz)
		case 2: // any change to the server signature
			nz := false
			for i := 0; i < sl; i++ {
				m := zzverif.Byte()
				x[srvOff+i] ^= m
				nz = zzverif.Or(nz, m != 0)
			}
			zzverif.Assume(nz)
		case 3: // another key
			k2.KeyValue = zzverif.Bytes(len(key.KeyValue))
			zzverif.Assume(!zzverif.EqBytes(k2.KeyValue, key.KeyValue))
		case 4: // version / buffer count / KDC signature content are covered by the signature too: flip the version field
			m := zzverif.Byte()
			zzverif.Assume(m != 0)
			x[4] ^= m
		}
		zzverif.Assert("modified-pac-rejected", process(x, k2) != nil)
		zzverif.Reach("checked")
	}
}

// VH_C19_OtherDeclaredType: the server signature declares a checksum type that is not the service key's
// (another Kerberos checksum type, or an unknown one, with the signature length the reader gives it - none
// for types it does not know).  Whatever the signature bytes are, the PAC is rejected.  (rc4's type is not
// among the others: HMAC-MD5 is defined for keys of every length, so "rejected" would be a MAC-forgery claim;
// for the same reason pairs in which the service key has the foreign type's key length are left out.)
func VH_C19_OtherDeclaredType() {
	et := zzverif.Param("etype")
	others := []struct {
		typ uint32
		sl  int
		kl  int // key length of the checksum type's encryption type (0: the library does not know the type)
	}{{12, 0, 24}, {15, 12, 16}, {16, 12, 32}, {1, 0, 0}, {7, 0, 0}, {0, 0, 0}} // (the RFC 8009 types 19/20 derive keys by HMAC from a key of any length: computable, left out)
	o := others[zzverif.Param("other")]
	zzverif.Assume(o.typ != uint32(int32(crypto.VHCksumID(et))))
	// with a key of the foreign type's own length the checksum is computable: "some signature bytes verify" is
	// then a statement about MAC forgery, not about this code
	zzverif.Assume(o.kl != crypto.VHKeyLen(et))
	key := types.EncryptionKey{KeyType: int32(et), KeyValue: zzverif.Bytes(crypto.VHKeyLen(et))}
	kdcType := uint32(int32(crypto.VHCksumID(et)))
	logon := zzverif.Bytes(8)
	client := append(zzverif.Bytes(8), 2, 0, zzverif.Byte(), zzverif.Byte())
	srvSig := append(vhLE32(nil, o.typ), zzverif.Bytes(o.sl)...)
	kdcSig := append(vhLE32(nil, kdcType), zzverif.Bytes(vhSigLen(et))...)
	data, _ := vhPAC([]vhBuf{{1, logon}, {10, client}, {6, srvSig}, {7, kdcSig}})
	var p PACType
	err := p.Unmarshal(data)
	if err == nil {
		err = p.ProcessPACInfoBuffers(key, log.New(io.Discard, "", 0))
	}
	zzverif.Assert("pac-with-a-foreign-server-signature-type-rejected", err != nil)
	zzverif.Reach("done")
}

// VH_C19_Mandatory: a PAC lacking one of the mandatory buffers is rejected whatever it contains.
func VH_C19_Mandatory() {
	et, drop := zzverif.Param("etype"), zzverif.Param("drop")
	ckType := uint32(int32(crypto.VHCksumID(et)))
	sl := vhSigLen(et)
	key := types.EncryptionKey{KeyType: int32(et), KeyValue: zzverif.Bytes(crypto.VHKeyLen(et))}
	all := []vhBuf{{1, zzverif.Bytes(8)}, {10, append(zzverif.Bytes(8), 0, 0)}, {6, append(vhLE32(nil, ckType), zzverif.Bytes(sl)...)}, {7, append(vhLE32(nil, ckType), zzverif.Bytes(sl)...)}}
	all[drop].typ = 99 // an unknown buffer type in its place
	data, _ := vhPAC(all)
	var p PACType
	err := p.Unmarshal(data)
	if err == nil {
		err = p.ProcessPACInfoBuffers(key, log.New(io.Discard, "", 0))
	}
	zzverif.Assert("pac-without-a-mandatory-buffer-rejected", err != nil)
	zzverif.Reach("checked")
}

// ---- C04: arbitrary bytes ---------------------------------------------------------------------------------

func VH_C04_PACUnmarshal() {
	n := zzverif.Param("n")
	b := zzverif.Bytes(n)
	var p PACType
	if p.Unmarshal(b) == nil {
		zzverif.Assume(p.CBuffers <= 2) // count bound, stated after the allocation obligation has been decided for every count
		p.ProcessPACInfoBuffers(types.EncryptionKey{KeyType: 18, KeyValue: zzverif.Bytes(32)}, log.New(io.Discard, "", 0))
	}
	zzverif.Reach("returned")
}

func VH_C04_PACSubBuffers() {
	n := zzverif.Param("n")
	b := zzverif.Bytes(n)
	var s SignatureData
	s.Unmarshal(b)
	if n < 10 || int(b[8])|int(b[9])<<8 <= 2*n {
		// a name length far beyond the data makes the reader allocate that many (<= 65535) bytes and then
		// fail with an error: inside the allocation bound; lengths up to twice the input are explored
		var c ClientInfo
		c.Unmarshal(b)
	}
	var u UPNDNSInfo
	u.Unmarshal(b)
	zzverif.Reach("returned")
}
