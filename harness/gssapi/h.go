package gssapi

import (
	"github.com/jcmturner/gokrb5/v8/crypto"
	"github.com/jcmturner/gokrb5/v8/types"
	"github.com/jcmturner/gokrb5/v8/zzverif"
)

// ---- C17: RFC 4121 4.2.6.2 Wrap token (no confidentiality) layout ------------------------------------

// VH_C17_WrapUnmarshal: for every token of n bytes and both expected directions, Unmarshal errors
// exactly when the token id, filler, direction flag or EC is not acceptable, and otherwise extracts
// the header fields, payload and checksum from the RFC positions.
func VH_C17_WrapUnmarshal() {
	n := zzverif.Param("n")
	b := zzverif.Bytes(n)
	exp := zzverif.Bool()
	var wt WrapToken
	err := wt.Unmarshal(b, exp)
	if n < 16 {
		zzverif.Assert("short-token-rejected", err != nil)
		zzverif.Reach("short")
		return
	}
	ec := int(b[4])<<8 | int(b[5])
	wellFormed := zzverif.All(b[0] == 0x05, b[1] == 0x04, b[3] == 0xFF, (b[2]&1 == 1) == exp, ec <= n-16)
	zzverif.Assert("unmarshal-ok-iff-wellformed", (err == nil) == wellFormed)
	if err == nil {
		zzverif.Reach("accepted")
		zzverif.Assert("flags-field", wt.Flags == b[2])
		zzverif.Assert("ec-field", int(wt.EC) == ec)
		zzverif.Assert("rrc-field", int(wt.RRC) == int(b[6])<<8|int(b[7]))
		seq := uint64(0)
		for i := 8; i < 16; i++ {
			seq = seq<<8 | uint64(b[i])
		}
		zzverif.Assert("seqnum-field", wt.SndSeqNum == seq)
		zzverif.Assert("payload-length", len(wt.Payload) == n-16-ec)
		zzverif.Assert("checksum-length", len(wt.CheckSum) == ec)
		zzverif.Assert("payload-bytes", zzverif.EqBytes(wt.Payload, b[16:16+len(wt.Payload)]))
		zzverif.Assert("checksum-bytes", zzverif.EqBytes(wt.CheckSum, b[n-len(wt.CheckSum):]))
	} else {
		zzverif.Reach("rejected")
	}
}

// VH_C17_WrapMarshal: Marshal produces the RFC 4121 layout byte for byte and Unmarshal inverts it.
func VH_C17_WrapMarshal() {
	np, nc := zzverif.Param("payload"), zzverif.Param("cksum")
	wt := WrapToken{Flags: zzverif.Byte(), EC: uint16(nc), RRC: zzverif.Uint16(), SndSeqNum: zzverif.Uint64(), Payload: zzverif.Bytes(np), CheckSum: zzverif.Bytes(nc)}
	b, err := wt.Marshal()
	zzverif.Assert("marshal-ok", err == nil)
	zzverif.Assert("length", len(b) == 16+np+nc)
	zzverif.Assert("tok-id", zzverif.And(b[0] == 0x05, b[1] == 0x04))
	zzverif.Assert("flags-octet", b[2] == wt.Flags)
	zzverif.Assert("filler-octet", b[3] == 0xFF)
	zzverif.Assert("ec-big-endian", zzverif.And(b[4] == byte(nc>>8), b[5] == byte(nc)))
	zzverif.Assert("rrc-big-endian", zzverif.And(b[6] == byte(wt.RRC>>8), b[7] == byte(wt.RRC)))
	for i := 0; i < 8; i++ {
		zzverif.Assert("seqnum-big-endian", b[8+i] == byte(wt.SndSeqNum>>(56-8*uint(i))))
	}
	zzverif.Assert("payload-after-header", zzverif.EqBytes(b[16:16+np], wt.Payload))
	zzverif.Assert("checksum-after-payload", zzverif.EqBytes(b[16+np:], wt.CheckSum))
	var back WrapToken
	err = back.Unmarshal(b, wt.Flags&1 == 1)
	zzverif.Assert("roundtrip-unmarshal-ok", err == nil)
	zzverif.Assert("roundtrip-fields", zzverif.All(back.Flags == wt.Flags, back.EC == wt.EC, back.RRC == wt.RRC, back.SndSeqNum == wt.SndSeqNum))
	zzverif.Assert("roundtrip-payload", zzverif.EqBytes(back.Payload, wt.Payload))
	zzverif.Assert("roundtrip-checksum", zzverif.EqBytes(back.CheckSum, wt.CheckSum))
	err = back.Unmarshal(b, wt.Flags&1 != 1)
	zzverif.Assert("wrong-direction-rejected", err != nil)
	zzverif.Reach("done")
}

// ---- C17: RFC 4121 4.2.6.1 MIC token layout -----------------------------------------------------------

func VH_C17_MICUnmarshal() {
	n := zzverif.Param("n")
	b := zzverif.Bytes(n)
	exp := zzverif.Bool()
	var mt MICToken
	err := mt.Unmarshal(b, exp)
	if n < 16 {
		zzverif.Assert("short-token-rejected", err != nil)
		zzverif.Reach("short")
		return
	}
	wellFormed := zzverif.All(b[0] == 0x04, b[1] == 0x04, b[3] == 0xFF, b[4] == 0xFF, b[5] == 0xFF, b[6] == 0xFF, b[7] == 0xFF, (b[2]&1 == 1) == exp)
	zzverif.Assert("unmarshal-ok-iff-wellformed", (err == nil) == wellFormed)
	if err == nil {
		zzverif.Reach("accepted")
		zzverif.Assert("flags-field", mt.Flags == b[2])
		seq := uint64(0)
		for i := 8; i < 16; i++ {
			seq = seq<<8 | uint64(b[i])
		}
		zzverif.Assert("seqnum-field", mt.SndSeqNum == seq)
		zzverif.Assert("checksum-bytes", zzverif.EqBytes(mt.Checksum, b[16:]))
	} else {
		zzverif.Reach("rejected")
	}
}

func VH_C17_MICMarshal() {
	nc := zzverif.Param("cksum")
	mt := MICToken{Flags: zzverif.Byte(), SndSeqNum: zzverif.Uint64(), Checksum: zzverif.Bytes(nc)}
	b, err := mt.Marshal()
	zzverif.Assert("marshal-ok", err == nil)
	zzverif.Assert("length", len(b) == 16+nc)
	zzverif.Assert("tok-id", zzverif.And(b[0] == 0x04, b[1] == 0x04))
	zzverif.Assert("flags-octet", b[2] == mt.Flags)
	zzverif.Assert("filler-octets", zzverif.All(b[3] == 0xFF, b[4] == 0xFF, b[5] == 0xFF, b[6] == 0xFF, b[7] == 0xFF))
	for i := 0; i < 8; i++ {
		zzverif.Assert("seqnum-big-endian", b[8+i] == byte(mt.SndSeqNum>>(56-8*uint(i))))
	}
	zzverif.Assert("checksum-after-header", zzverif.EqBytes(b[16:], mt.Checksum))
	var back MICToken
	err = back.Unmarshal(b, mt.Flags&1 == 1)
	zzverif.Assert("roundtrip-unmarshal-ok", err == nil)
	zzverif.Assert("roundtrip-fields", zzverif.And(back.Flags == mt.Flags, back.SndSeqNum == mt.SndSeqNum))
	zzverif.Assert("roundtrip-checksum", zzverif.EqBytes(back.Checksum, mt.Checksum))
	err = back.Unmarshal(b, mt.Flags&1 != 1)
	zzverif.Assert("wrong-direction-rejected", err != nil)
	zzverif.Reach("done")
}

// ---- C17: checksum binding (RFC 4121 4.2.4: checksum over payload | header with EC and RRC zero) -------

func vhWrapHeader(flags byte, seq uint64) []byte {
	h := []byte{0x05, 0x04, flags, 0xFF, 0, 0, 0, 0}
	for i := 0; i < 8; i++ {
		h = append(h, byte(seq>>(56-8*uint(i))))
	}
	return h
}

func vhMICHeader(flags byte, seq uint64) []byte {
	h := []byte{0x04, 0x04, flags, 0xFF, 0xFF, 0xFF, 0xFF, 0xFF}
	for i := 0; i < 8; i++ {
		h = append(h, byte(seq>>(56-8*uint(i))))
	}
	return h
}

// VH_C17_WrapChecksum: SetCheckSum stores cksum(key, usage, payload | header-with-EC=RRC=0) as the RFC
// reference computes it; Verify succeeds exactly for that value; any change of payload, flags,
// sequence number, key or usage between computation and verification fails (idealised MAC).
func VH_C17_WrapChecksum() {
	et, n := zzverif.Param("etype"), zzverif.Param("n")
	key := types.EncryptionKey{KeyType: int32(et), KeyValue: zzverif.Bytes(crypto.VHKeyLen(et))}
	usage := zzverif.Uint32()
	wt := WrapToken{Flags: zzverif.Byte(), EC: uint16(crypto.VHMacLen(et)), RRC: zzverif.Uint16(), SndSeqNum: zzverif.Uint64(), Payload: zzverif.Bytes(n)}
	err := wt.SetCheckSum(key, usage)
	zzverif.Assert("setchecksum-ok", err == nil)
	want := crypto.VHSpecChecksum(et, key.KeyValue, append(append([]byte{}, wt.Payload...), vhWrapHeader(wt.Flags, wt.SndSeqNum)...), usage)
	zzverif.Assert("checksum-equals-rfc4121", zzverif.EqBytes(wt.CheckSum, want))
	ok, _ := wt.Verify(key, usage)
	zzverif.Assert("verify-accepts-own-checksum", ok)
	// Verify is exact: truncated / extended / changed checksums fail
	t2 := wt
	t2.CheckSum = want[:len(want)-1]
	ok, _ = t2.Verify(key, usage)
	zzverif.Assert("verify-rejects-truncated-checksum", !ok)
	t2.CheckSum = append(append([]byte{}, want...), zzverif.Byte())
	ok, _ = t2.Verify(key, usage)
	zzverif.Assert("verify-rejects-extended-checksum", !ok)
	t2.CheckSum = []byte{}
	t2.EC = 0
	ok, _ = t2.Verify(key, usage)
	zzverif.Assert("verify-rejects-empty-checksum", !ok)
	cand := zzverif.Bytes(len(want))
	t2.CheckSum = cand
	t2.EC = wt.EC
	ok, _ = t2.Verify(key, usage)
	zzverif.Assert("verify-iff-exact-checksum", ok == zzverif.EqBytes(cand, want))
	zzverif.Reach("done")
}

// VH_C17_WrapBinding: every field the checksum must bind.
func VH_C17_WrapBinding() {
	et, n, mode := zzverif.Param("etype"), zzverif.Param("n"), zzverif.Param("mode")
	key := types.EncryptionKey{KeyType: int32(et), KeyValue: zzverif.Bytes(crypto.VHKeyLen(et))}
	usage := zzverif.Uint32()
	wt := WrapToken{Flags: zzverif.Byte(), EC: uint16(crypto.VHMacLen(et)), RRC: zzverif.Uint16(), SndSeqNum: zzverif.Uint64(), Payload: zzverif.Bytes(n)}
	zzverif.Assert("setchecksum-ok", wt.SetCheckSum(key, usage) == nil)
	t2 := wt
	k2, u2 := key, usage
	switch mode {
	case 0:
		t2.Payload = zzverif.Bytes(n)
		zzverif.Assume(!zzverif.EqBytes(t2.Payload, wt.Payload))
	case 1:
		t2.Flags = zzverif.Byte()
		zzverif.Assume(t2.Flags != wt.Flags)
	case 2:
		t2.SndSeqNum = zzverif.Uint64()
		zzverif.Assume(t2.SndSeqNum != wt.SndSeqNum)
	case 3:
		k2.KeyValue = zzverif.Bytes(len(key.KeyValue))
		zzverif.Assume(!zzverif.EqBytes(vhEffKey(et, k2.KeyValue), vhEffKey(et, key.KeyValue)))
	case 4:
		u2 = zzverif.Uint32()
		zzverif.Assume(u2 != usage)
		if et == 23 {
			zzverif.Assume(vhRC4Alias(u2) != vhRC4Alias(usage))
		}
	}
	ok, _ := t2.Verify(k2, u2)
	zzverif.Assert("changed-field-fails-verification", !ok)
	zzverif.Reach("checked")
}

func vhRC4Alias(u uint32) uint32 {
	switch u {
	case 3, 9:
		return 8
	case 23:
		return 13
	}
	return u
}

func vhEffKey(et int, k []byte) []byte {
	if et != 16 {
		return k
	}
	out := make([]byte, len(k))
	for i := range k {
		out[i] = k[i] &^ 1
	}
	return out
}

func VH_C17_MICChecksum() {
	et, n := zzverif.Param("etype"), zzverif.Param("n")
	key := types.EncryptionKey{KeyType: int32(et), KeyValue: zzverif.Bytes(crypto.VHKeyLen(et))}
	usage := zzverif.Uint32()
	mt := MICToken{Flags: zzverif.Byte(), SndSeqNum: zzverif.Uint64(), Payload: zzverif.Bytes(n)}
	zzverif.Assert("setchecksum-ok", mt.SetChecksum(key, usage) == nil)
	want := crypto.VHSpecChecksum(et, key.KeyValue, append(append([]byte{}, mt.Payload...), vhMICHeader(mt.Flags, mt.SndSeqNum)...), usage)
	zzverif.Assert("checksum-equals-rfc4121", zzverif.EqBytes(mt.Checksum, want))
	ok, _ := mt.Verify(key, usage)
	zzverif.Assert("verify-accepts-own-checksum", ok)
	t2 := mt
	t2.Checksum = want[:len(want)-1]
	ok, _ = t2.Verify(key, usage)
	zzverif.Assert("verify-rejects-truncated-checksum", !ok)
	t2.Checksum = append(append([]byte{}, want...), zzverif.Byte())
	ok, _ = t2.Verify(key, usage)
	zzverif.Assert("verify-rejects-extended-checksum", !ok)
	cand := zzverif.Bytes(len(want))
	t2.Checksum = cand
	ok, _ = t2.Verify(key, usage)
	zzverif.Assert("verify-iff-exact-checksum", ok == zzverif.EqBytes(cand, want))
	// end to end: marshal, flip nothing, unmarshal, verify
	b, err := mt.Marshal()
	zzverif.Assert("marshal-ok", err == nil)
	var back MICToken
	zzverif.Assert("unmarshal-ok", back.Unmarshal(b, mt.Flags&1 == 1) == nil)
	back.Payload = mt.Payload
	ok, _ = back.Verify(key, usage)
	zzverif.Assert("marshalled-token-verifies", ok)
	zzverif.Reach("done")
}

func VH_C17_MICBinding() {
	et, n, mode := zzverif.Param("etype"), zzverif.Param("n"), zzverif.Param("mode")
	key := types.EncryptionKey{KeyType: int32(et), KeyValue: zzverif.Bytes(crypto.VHKeyLen(et))}
	usage := zzverif.Uint32()
	mt := MICToken{Flags: zzverif.Byte(), SndSeqNum: zzverif.Uint64(), Payload: zzverif.Bytes(n)}
	zzverif.Assert("setchecksum-ok", mt.SetChecksum(key, usage) == nil)
	t2 := mt
	k2, u2 := key, usage
	switch mode {
	case 0:
		t2.Payload = zzverif.Bytes(n)
		zzverif.Assume(!zzverif.EqBytes(t2.Payload, mt.Payload))
	case 1:
		t2.Flags = zzverif.Byte()
		zzverif.Assume(t2.Flags != mt.Flags)
	case 2:
		t2.SndSeqNum = zzverif.Uint64()
		zzverif.Assume(t2.SndSeqNum != mt.SndSeqNum)
	case 3:
		k2.KeyValue = zzverif.Bytes(len(key.KeyValue))
		zzverif.Assume(!zzverif.EqBytes(vhEffKey(et, k2.KeyValue), vhEffKey(et, key.KeyValue)))
	case 4:
		u2 = zzverif.Uint32()
		zzverif.Assume(u2 != usage)
		if et == 23 {
			zzverif.Assume(vhRC4Alias(u2) != vhRC4Alias(usage))
		}
	}
	ok, _ := t2.Verify(k2, u2)
	zzverif.Assert("changed-field-fails-verification", !ok)
	zzverif.Reach("checked")
}

// VH_C17_InitiatorTokens: the constructors produce initiator tokens (flags 0, sequence 0) with the
// RFC 4121 key usages 24 (initiator seal) and 25 (initiator sign) and EC = checksum length.
func VH_C17_InitiatorTokens() {
	et, n := zzverif.Param("etype"), zzverif.Param("n")
	key := types.EncryptionKey{KeyType: int32(et), KeyValue: zzverif.Bytes(crypto.VHKeyLen(et))}
	payload := zzverif.Bytes(n)
	wt, err := NewInitiatorWrapToken(payload, key)
	zzverif.Assert("wrap-ok", err == nil)
	zzverif.Assert("wrap-initiator-fields", zzverif.All(wt.Flags == 0, wt.RRC == 0, wt.SndSeqNum == 0, int(wt.EC) == crypto.VHMacLen(et)))
	zzverif.Assert("wrap-checksum-usage-24", zzverif.EqBytes(wt.CheckSum, crypto.VHSpecChecksum(et, key.KeyValue, append(append([]byte{}, payload...), vhWrapHeader(0, 0)...), 24)))
	mt, err := NewInitiatorMICToken(payload, key)
	zzverif.Assert("mic-ok", err == nil)
	zzverif.Assert("mic-initiator-fields", zzverif.And(mt.Flags == 0, mt.SndSeqNum == 0))
	zzverif.Assert("mic-checksum-usage-25", zzverif.EqBytes(mt.Checksum, crypto.VHSpecChecksum(et, key.KeyValue, append(append([]byte{}, payload...), vhMICHeader(0, 0)...), 25)))
	zzverif.Reach("done")
}

// VH_C17_KeyBufferReuse: a history.  The caller keeps one key buffer: it protects a token under the key the buffer
// holds, the buffer is then refilled in place with an unrelated key (the next session's key read into the same
// buffer), and the same calls are made again.  Verification must depend on the key bytes presented NOW: the old
// token no longer verifies, and a token protected now carries the RFC checksum under the new key.
func VH_C17_KeyBufferReuse() {
	et, n, wrap := zzverif.Param("etype"), zzverif.Param("n"), zzverif.Param("wrap")
	kl := crypto.VHKeyLen(et)
	k1, k2 := zzverif.Bytes(kl), zzverif.Bytes(kl)
	zzverif.Assume(!zzverif.EqBytes(vhEffKey(et, k2), vhEffKey(et, k1)))
	buf := append([]byte{}, k1...)
	key := types.EncryptionKey{KeyType: int32(et), KeyValue: buf}
	usage := zzverif.Uint32()
	flags, seq, payload := zzverif.Byte(), zzverif.Uint64(), zzverif.Bytes(n)
	if wrap == 1 {
		wt := WrapToken{Flags: flags, EC: uint16(crypto.VHMacLen(et)), SndSeqNum: seq, Payload: payload}
		zzverif.Assert("setchecksum-ok", wt.SetCheckSum(key, usage) == nil)
		ok, _ := wt.Verify(key, usage)
		zzverif.Assert("verify-accepts-own-checksum", ok)
		copy(buf, k2)
		ok, _ = wt.Verify(key, usage)
		zzverif.Assert("token-of-the-old-key-rejected-under-the-new-key", !ok)
		w2 := WrapToken{Flags: flags, EC: uint16(crypto.VHMacLen(et)), SndSeqNum: seq, Payload: payload}
		zzverif.Assert("setchecksum-ok", w2.SetCheckSum(key, usage) == nil)
		want := crypto.VHSpecChecksum(et, k2, append(append([]byte{}, payload...), vhWrapHeader(flags, seq)...), usage)
		zzverif.Assert("checksum-under-the-new-key-equals-rfc4121", zzverif.EqBytes(w2.CheckSum, want))
	} else {
		mt := MICToken{Flags: flags, SndSeqNum: seq, Payload: payload}
		zzverif.Assert("setchecksum-ok", mt.SetChecksum(key, usage) == nil)
		ok, _ := mt.Verify(key, usage)
		zzverif.Assert("verify-accepts-own-checksum", ok)
		copy(buf, k2)
		ok, _ = mt.Verify(key, usage)
		zzverif.Assert("token-of-the-old-key-rejected-under-the-new-key", !ok)
		m2 := MICToken{Flags: flags, SndSeqNum: seq, Payload: payload}
		zzverif.Assert("setchecksum-ok", m2.SetChecksum(key, usage) == nil)
		want := crypto.VHSpecChecksum(et, k2, append(append([]byte{}, payload...), vhMICHeader(flags, seq)...), usage)
		zzverif.Assert("checksum-under-the-new-key-equals-rfc4121", zzverif.EqBytes(m2.Checksum, want))
	}
	zzverif.Reach("done")
}
