package gssapi

import (
	"github.com/jcmturner/gokrb5/v8/zzverif"
)

// ---- C17: RFC 4121 4.2.6.2 Wrap token (no confidentiality) layout ------------------------------------

// VH_C17_WrapUnmarshal: for every token of n bytes and both expected directions, Unmarshal errors
// exactly when the token id, filler, direction flag or EC is not acceptable, and otherwise extracts
// the header fields, payload and checksum from the RFC positions.
func VH_C17_WrapUnmarshal() {
	n := zzverif.Param("n")
	b := zzverif.Bytes(n)
	exp := zzverif.Bool()
	var wt WrapToken
	err := wt.Unmarshal(b, exp)
	if n < 16 {
		zzverif.Assert("short-token-rejected", err != nil)
		zzverif.Reach("short")
		return
	}
	ec := int(b[4])<<8 | int(b[5])
	wellFormed := zzverif.All(b[0] == 0x05, b[1] == 0x04, b[3] == 0xFF, (b[2]&1 == 1) == exp, ec <= n-16)
	zzverif.Assert("unmarshal-ok-iff-wellformed", (err == nil) == wellFormed)
	if err == nil {
		zzverif.Reach("accepted")
		zzverif.Assert("flags-field", wt.Flags == b[2])
		zzverif.Assert("ec-field", int(wt.EC) == ec)
		zzverif.Assert("rrc-field", int(wt.RRC) == int(b[6])<<8|int(b[7]))
		seq := uint64(0)
		for i := 8; i < 16; i++ {
			seq = seq<<8 | uint64(b[i])
		}
		zzverif.Assert("seqnum-field", wt.SndSeqNum == seq)
		zzverif.Assert("payload-length", len(wt.Payload) == n-16-ec)
		zzverif.Assert("checksum-length", len(wt.CheckSum) == ec)
		zzverif.Assert("payload-bytes", zzverif.EqBytes(wt.Payload, b[16:16+len(wt.Payload)]))
		zzverif.Assert("checksum-bytes", zzverif.EqBytes(wt.CheckSum, b[n-len(wt.CheckSum):]))
	} else {
		zzverif.Reach("rejected")
	}
}

// VH_C17_WrapMarshal: Marshal produces the RFC 4121 layout byte for byte and Unmarshal inverts it.
func VH_C17_WrapMarshal() {
	np, nc := zzverif.Param("payload"), zzverif.Param("cksum")
	wt := WrapToken{Flags: zzverif.Byte(), EC: uint16(nc), RRC: zzverif.Uint16(), SndSeqNum: zzverif.Uint64(), Payload: zzverif.Bytes(np), CheckSum: zzverif.Bytes(nc)}
	b, err := wt.Marshal()
	zzverif.Assert("marshal-ok", err == nil)
	zzverif.Assert("length", len(b) == 16+np+nc)
	zzverif.Assert("tok-id", zzverif.And(b[0] == 0x05, b[1] == 0x04))
	zzverif.Assert("flags-octet", b[2] == wt.Flags)
	zzverif.Assert("filler-octet", b[3] == 0xFF)
	zzverif.Assert("ec-big-endian", zzverif.And(b[4] == byte(nc>>8), b[5] == byte(nc)))
	zzverif.Assert("rrc-big-endian", zzverif.And(b[6] == byte(wt.RRC>>8), b[7] == byte(wt.RRC)))
	for i := 0; i < 8; i++ {
		zzverif.Assert("seqnum-big-endian", b[8+i] == byte(wt.SndSeqNum>>(56-8*uint(i))))
	}
	zzverif.Assert("payload-after-header", zzverif.EqBytes(b[16:16+np], wt.Payload))
	zzverif.Assert("checksum-after-payload", zzverif.EqBytes(b[16+np:], wt.CheckSum))
	var back WrapToken
	err = back.Unmarshal(b, wt.Flags&1 == 1)
	zzverif.Assert("roundtrip-unmarshal-ok", err == nil)
	zzverif.Assert("roundtrip-fields", zzverif.All(back.Flags == wt.Flags, back.EC == wt.EC, back.RRC == wt.RRC, back.SndSeqNum == wt.SndSeqNum))
	zzverif.Assert("roundtrip-payload", zzverif.EqBytes(back.Payload, wt.Payload))
	zzverif.Assert("roundtrip-checksum", zzverif.EqBytes(back.CheckSum, wt.CheckSum))
	err = back.Unmarshal(b, wt.Flags&1 != 1)
	zzverif.Assert("wrong-direction-rejected", err != nil)
	zzverif.Reach("done")
}

// ---- C17: RFC 4121 4.2.6.1 MIC token layout -----------------------------------------------------------

func VH_C17_MICUnmarshal() {
	n := zzverif.Param("n")
	b := zzverif.Bytes(n)
	exp := zzverif.Bool()
	var mt MICToken
	err := mt.Unmarshal(b, exp)
	if n < 16 {
		zzverif.Assert("short-token-rejected", err != nil)
		zzverif.Reach("short")
		return
	}
	wellFormed := zzverif.All(b[0] == 0x04, b[1] == 0x04, b[3] == 0xFF, b[4] == 0xFF, b[5] == 0xFF, b[6] == 0xFF, b[7] == 0xFF, (b[2]&1 == 1) == exp)
	zzverif.Assert("unmarshal-ok-iff-wellformed", (err == nil) == wellFormed)
	if err == nil {
		zzverif.Reach("accepted")
		zzverif.Assert("flags-field", mt.Flags == b[2])
		seq := uint64(0)
		for i := 8; i < 16; i++ {
			seq = seq<<8 | uint64(b[i])
		}
		zzverif.Assert("seqnum-field", mt.SndSeqNum == seq)
		zzverif.Assert("checksum-bytes", zzverif.EqBytes(mt.Checksum, b[16:]))
	} else {
		zzverif.Reach("rejected")
	}
}

func VH_C17_MICMarshal() {
	nc := zzverif.Param("cksum")
	mt := MICToken{Flags: zzverif.Byte(), SndSeqNum: zzverif.Uint64(), Checksum: zzverif.Bytes(nc)}
	b, err := mt.Marshal()
	zzverif.Assert("marshal-ok", err == nil)
	zzverif.Assert("length", len(b) == 16+nc)
	zzverif.Assert("tok-id", zzverif.And(b[0] == 0x04, b[1] == 0x04))
	zzverif.Assert("flags-octet", b[2] == mt.Flags)
	zzverif.Assert("filler-octets", zzverif.All(b[3] == 0xFF, b[4] == 0xFF, b[5] == 0xFF, b[6] == 0xFF, b[7] == 0xFF))
	for i := 0; i < 8; i++ {
		zzverif.Assert("seqnum-big-endian", b[8+i] == byte(mt.SndSeqNum>>(56-8*uint(i))))
	}
	zzverif.Assert("checksum-after-header", zzverif.EqBytes(b[16:], mt.Checksum))
	var back MICToken
	err = back.Unmarshal(b, mt.Flags&1 == 1)
	zzverif.Assert("roundtrip-unmarshal-ok", err == nil)
	zzverif.Assert("roundtrip-fields", zzverif.And(back.Flags == mt.Flags, back.SndSeqNum == mt.SndSeqNum))
	zzverif.Assert("roundtrip-checksum", zzverif.EqBytes(back.Checksum, mt.Checksum))
	err = back.Unmarshal(b, mt.Flags&1 != 1)
	zzverif.Assert("wrong-direction-rejected", err != nil)
	zzverif.Reach("done")
}
