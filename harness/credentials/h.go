package credentials

import (
	"github.com/jcmturner/gokrb5/v8/zzverif"
)

// ---- C04: arbitrary bytes into the credential cache parser -----------------------------------------

func VH_C04_CCacheUnmarshal() {
	n := zzverif.Param("n")
	ver := zzverif.Param("version")
	b := zzverif.Bytes(n)
	if n >= 2 && ver > 0 {
		// spend the bound on one format version per instance
		zzverif.Assume(b[0] == 5)
		zzverif.Assume(int(b[1]) == ver)
	}
	c := new(CCache)
	c.Unmarshal(b)
	zzverif.Reach("returned")
}
