package credentials

import (
	"encoding/json"
	"time"

	"github.com/jcmturner/gokrb5/v8/keytab"
	"github.com/jcmturner/gokrb5/v8/types"
	"github.com/jcmturner/gokrb5/v8/zzverif"
)

// ---- C04: arbitrary bytes into the credential cache parser -----------------------------------------

func VH_C04_CCacheUnmarshal() {
	n := zzverif.Param("n")
	ver := zzverif.Param("version")
	b := zzverif.Bytes(n)
	if n >= 2 && ver > 0 {
		// spend the bound on one format version per instance
		zzverif.Assume(b[0] == 5)
		zzverif.Assume(int(b[1]) == ver)
	}
	c := new(CCache)
	c.Unmarshal(b)
	zzverif.Reach("returned")
}

// ---- C15: a file rendered by an independent writer (MIT ccache format description) parses to the model ---

type vhPrinc struct {
	nameType uint32
	realm    string
	comps    []string
}
type vhAddr struct {
	typ  uint16
	data []byte
}
type vhCred struct {
	client, server vhPrinc
	keyType        uint16
	key            []byte
	times          [4]uint32
	isSKey         byte
	flags          [4]byte
	addrs          []vhAddr
	authdata       []vhAddr
	ticket, second []byte
}

type vhW struct {
	b   []byte
	ver int
}

func (w *vhW) u16(v uint16) {
	if w.ver <= 2 { // versions 1 and 2 use native byte order: this build is little-endian
		w.b = append(w.b, byte(v), byte(v>>8))
	} else {
		w.b = append(w.b, byte(v>>8), byte(v))
	}
}
func (w *vhW) u32(v uint32) {
	if w.ver <= 2 {
		w.b = append(w.b, byte(v), byte(v>>8), byte(v>>16), byte(v>>24))
	} else {
		w.b = append(w.b, byte(v>>24), byte(v>>16), byte(v>>8), byte(v))
	}
}
func (w *vhW) data(d []byte) { w.u32(uint32(len(d))); w.b = append(w.b, d...) }
func (w *vhW) princ(p vhPrinc) {
	if w.ver != 1 {
		w.u32(p.nameType)
	}
	n := len(p.comps)
	if w.ver == 1 {
		n++ // version 1 counts the realm as a component
	}
	w.u32(uint32(n))
	w.data([]byte(p.realm))
	for _, c := range p.comps {
		w.data([]byte(c))
	}
}

func vhAnyPrinc(maxC, slen int) vhPrinc {
	p := vhPrinc{nameType: zzverif.Uint32(), realm: zzverif.String(slen)}
	nc := zzverif.Choose(0, maxC)
	for i := 0; i < nc; i++ {
		p.comps = append(p.comps, zzverif.String(slen))
	}
	return p
}

func vhPrincEq(p principal, m vhPrinc, ver int) bool {
	ok := zzverif.And(p.Realm == m.realm, len(p.PrincipalName.NameString) == len(m.comps))
	if len(p.PrincipalName.NameString) != len(m.comps) {
		return false
	}
	for i := range m.comps {
		ok = zzverif.And(ok, p.PrincipalName.NameString[i] == m.comps[i])
	}
	if ver != 1 {
		ok = zzverif.And(ok, uint32(p.PrincipalName.NameType) == m.nameType)
	}
	return ok
}

func VH_C15_IndependentWriter() {
	ver, ncred, maxC, slen, klen := zzverif.Param("version"), zzverif.Param("creds"), zzverif.Param("comps"), zzverif.Param("slen"), zzverif.Param("klen")
	maxA, tlen, nhdr, conf := zzverif.Param("addrs"), zzverif.Param("tlen"), zzverif.Param("hdr"), zzverif.Param("conf")
	w := &vhW{ver: ver}
	w.b = append(w.b, 5, byte(ver))
	var offset []byte
	if ver == 4 {
		// header: 16-bit total length, then fields (16-bit tag, 16-bit length, data); tag 1 = KDC time offset (8 bytes)
		w.u16(uint16(12 * nhdr))
		for i := 0; i < nhdr; i++ {
			w.u16(1)
			w.u16(8)
			offset = zzverif.Bytes(8)
			w.b = append(w.b, offset...)
		}
	}
	def := vhAnyPrinc(maxC, slen)
	w.princ(def)
	var creds []vhCred
	for i := 0; i < ncred; i++ {
		var c vhCred
		c.client, c.server = vhAnyPrinc(maxC, slen), vhAnyPrinc(maxC, slen)
		if i == conf-1 {
			c.server.realm = "X-CACHECONF:" // a configuration entry
		}
		c.keyType = zzverif.Uint16()
		c.key = zzverif.Bytes(klen)
		for j := range c.times {
			c.times[j] = zzverif.Uint32()
		}
		c.isSKey = zzverif.Byte()
		copy(c.flags[:], zzverif.Bytes(4))
		na := zzverif.Choose(0, maxA)
		for j := 0; j < na; j++ {
			c.addrs = append(c.addrs, vhAddr{zzverif.Uint16(), zzverif.Bytes(zzverif.Choose(0, 1))})
		}
		nd := zzverif.Choose(0, maxA)
		for j := 0; j < nd; j++ {
			c.authdata = append(c.authdata, vhAddr{zzverif.Uint16(), zzverif.Bytes(1)})
		}
		c.ticket = zzverif.Bytes(tlen)
		c.second = zzverif.Bytes(zzverif.Choose(0, 1))
		creds = append(creds, c)
		w.princ(c.client)
		w.princ(c.server)
		w.u16(c.keyType)
		if ver == 3 {
			w.u16(c.keyType) // version 3 repeats the encryption type
		}
		w.data(c.key)
		for _, t := range c.times {
			w.u32(t)
		}
		w.b = append(w.b, c.isSKey)
		w.b = append(w.b, c.flags[:]...) // ticket flags are stored in big-endian bit order in all versions that gokrb5 reads as raw bytes
		w.u32(uint32(len(c.addrs)))
		for _, a := range c.addrs {
			w.u16(a.typ)
			w.data(a.data)
		}
		w.u32(uint32(len(c.authdata)))
		for _, a := range c.authdata {
			w.u16(a.typ)
			w.data(a.data)
		}
		w.data(c.ticket)
		w.data(c.second)
	}
	cc := new(CCache)
	err := cc.Unmarshal(w.b)
	zzverif.Assert("wellformed-file-parses", err == nil)
	zzverif.Assert("version", int(cc.Version) == ver)
	if ver == 4 {
		zzverif.Assert("header-field-count", len(cc.Header.fields) == nhdr)
		if nhdr > 0 {
			zzverif.Assert("header-field", zzverif.All(cc.Header.fields[nhdr-1].tag == 1, cc.Header.fields[nhdr-1].length == 8, zzverif.EqBytes(cc.Header.fields[nhdr-1].value, offset)))
		}
	}
	zzverif.Assert("default-principal", vhPrincEq(cc.DefaultPrincipal, def, ver))
	zzverif.Assert("credential-count", len(cc.Credentials) == ncred)
	for i, m := range creds {
		c := cc.Credentials[i]
		zzverif.Assert("client-principal", vhPrincEq(c.Client, m.client, ver))
		zzverif.Assert("server-principal", vhPrincEq(c.Server, m.server, ver))
		zzverif.Assert("key-type", c.Key.KeyType == int32(int16(m.keyType)))
		zzverif.Assert("key-bytes", zzverif.EqBytes(c.Key.KeyValue, m.key))
		zzverif.Assert("times", zzverif.All(c.AuthTime.Unix() == int64(int32(m.times[0])), c.StartTime.Unix() == int64(int32(m.times[1])), c.EndTime.Unix() == int64(int32(m.times[2])), c.RenewTill.Unix() == int64(int32(m.times[3]))))
		zzverif.Assert("is-skey", c.IsSKey == (m.isSKey != 0))
		zzverif.Assert("ticket-flags", zzverif.And(zzverif.EqBytes(c.TicketFlags.Bytes, m.flags[:]), c.TicketFlags.BitLength == 32))
		zzverif.Assert("address-count", len(c.Addresses) == len(m.addrs))
		for j, a := range m.addrs {
			zzverif.Assert("address", zzverif.And(c.Addresses[j].AddrType == int32(int16(a.typ)), zzverif.EqBytes(c.Addresses[j].Address, a.data)))
		}
		zzverif.Assert("authdata-count", len(c.AuthData) == len(m.authdata))
		for j, a := range m.authdata {
			zzverif.Assert("authdata", zzverif.And(c.AuthData[j].ADType == int32(int16(a.typ)), zzverif.EqBytes(c.AuthData[j].ADData, a.data)))
		}
		zzverif.Assert("ticket-bytes", zzverif.EqBytes(c.Ticket, m.ticket))
		zzverif.Assert("second-ticket-bytes", zzverif.EqBytes(c.SecondTicket, m.second))
	}
	zzverif.Reach("parsed")
	// accessors
	zzverif.Assert("client-realm-accessor", cc.GetClientRealm() == def.realm)
	zzverif.Assert("client-name-accessor", len(cc.GetClientPrincipalName().NameString) == len(def.comps))
	cr := cc.GetClientCredentials()
	zzverif.Assert("client-credentials", zzverif.And(cr.Domain() == def.realm, len(cr.CName().NameString) == len(def.comps)))
	// GetEntries drops exactly the configuration entries, keeps order
	ents := cc.GetEntries()
	want := 0
	for i := range creds {
		if i != conf-1 {
			zzverif.Assert("entries-keeps-ordinary-credentials-in-order", want < len(ents) && ents[want] == cc.Credentials[i])
			want++
		}
	}
	zzverif.Assert("entries-drops-exactly-configuration-entries", len(ents) == want)
	// parsing is not disturbed by the accessors
	zzverif.Assert("credentials-unchanged-by-accessors", len(cc.Credentials) == ncred)
	for i := range creds {
		zzverif.Assert("credentials-unchanged-by-accessors", vhPrincEq(cc.Credentials[i].Server, creds[i].server, ver))
	}
	// GetEntry / Contains: the first credential whose server name equals the query
	var q types.PrincipalName
	q.NameType = int32(zzverif.Uint32())
	nq := zzverif.Choose(0, maxC)
	for i := 0; i < nq; i++ {
		q.NameString = append(q.NameString, zzverif.String(slen))
	}
	got, found := cc.GetEntry(q)
	first := -1
	for i := len(creds) - 1; i >= 0; i-- {
		if vhNameEq(cc.Credentials[i].Server.PrincipalName, q) {
			first = i
		}
	}
	zzverif.Assert("getentry-found-iff-some-server-name-equal", found == (first >= 0))
	zzverif.Assert("contains-iff-some-server-name-equal", cc.Contains(q) == (first >= 0))
	if first >= 0 {
		zzverif.Assert("getentry-returns-first-match", got == cc.Credentials[first])
	}
	zzverif.Reach("done")
}

// RFC 4120 principal name equality as the library defines it (type and all components)
func vhNameEq(a, b types.PrincipalName) bool {
	if len(a.NameString) != len(b.NameString) {
		return false
	}
	for i := range a.NameString {
		if a.NameString[i] != b.NameString[i] {
			return false
		}
	}
	return true
}


// ---- C20: credentials never show their password or keys -------------------------------------------------------

// VH_C20_Credentials: credentials holding a secret password and a keytab with a secret key: the JSON dump,
// the gob encoding kept in HTTP sessions (checked where it is encoded), and the JSON of a key.
func VH_C20_Credentials() {
	pw := string(zzverif.Secret(8))
	key := zzverif.Secret(16)
	kt := keytab.New()
	kt.VHAddEntry("R", []string{"u"}, 18, 1, key, time.Unix(1500000000, 0))
	c := New("u", "R").WithPassword(pw).WithKeytab(kt)
	c.SetAuthenticated(true)
	c.SetDisplayName("user")
	j, err := c.JSON()
	zzverif.Public("credentials-json", j, err)
	b, err := c.Marshal()
	zzverif.Public("credentials-gob", b, err)
	kb, err := json.Marshal(types.EncryptionKey{KeyType: 18, KeyValue: key})
	zzverif.Public("encryptionkey-json", kb, err)
	kb, err = json.Marshal(kt)
	zzverif.Public("keytab-json", kb, err)
	zzverif.Reach("dumped")
}


// VH_C20_CCacheParseErrors: a credential cache file (version 4, written by the independent writer) holding
// a secret session key, truncated at every offset: whatever the parser returns does not show the key.
// (That the parser panics on some truncations is C04's finding, not this harness's subject.)
func VH_C20_CCacheParseErrors() {
	key := zzverif.Secret(16)
	w := &vhW{ver: zzverif.Param("version")}
	w.b = append(w.b, 5, byte(w.ver))
	if w.ver == 4 {
		w.u16(0)
	}
	p := vhPrinc{nameType: 1, realm: "R", comps: []string{"u"}}
	sp := vhPrinc{nameType: 2, realm: "R", comps: []string{"krbtgt", "R"}}
	w.princ(p)
	w.princ(p)
	w.princ(sp)
	w.u16(18)
	if w.ver == 3 {
		w.u16(18)
	}
	w.data(key)
	for i := 0; i < 4; i++ {
		w.u32(1500000000)
	}
	w.b = append(w.b, 0, 0, 0, 0, 0)
	w.u32(0)
	w.u32(0)
	w.data([]byte{0x61, 0x03})
	w.data(nil)
	cut := zzverif.Choose(0, len(w.b))
	c := new(CCache)
	err := c.Unmarshal(w.b[:cut])
	zzverif.Reach("returned")
	zzverif.Public("ccache-parse-error", err)
}
