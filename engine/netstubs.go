package main

import (
	"fmt"
	"go/types"

	"golang.org/x/tools/go/ssa"
)

// Scripted network endpoints (stub set "netstub").  The behaviour of every (transport, address)
// endpoint is a symbolic variable:
//   0 answers (the reply is an opaque byte; whether it decodes as a KRB-ERROR is the decoder stub's choice)
//   1 refuses the connection (dial error for TCP, read error for UDP)
//   2 accepts and then closes / stays silent: the first read fails
//   3 TCP only: announces more bytes than it sends and closes mid-body
// The native replay starts real listeners on 127.0.0.1 that behave the same way (zzverif.Endpoint).

type connObj struct {
	tcp   bool
	addr  string
	beh   *Term
	reply []*Term
	hdr   []*Term // TCP: the 4-byte length header the peer sends
	reads   int
	written []*Term // the bytes the client has written to the connection
}

// wellFramed: what the peer received is a complete request: over TCP a 4-byte big-endian length followed
// by exactly that many bytes (RFC 4120 7.2.2); over UDP a non-empty datagram.  A KDC answers nothing else.
func (c *connObj) wellFramed() *Term {
	if !c.tcp {
		return boolTerm(len(c.written) > 0)
	}
	if len(c.written) < 4 {
		return False
	}
	l := Concat(Concat(Concat(c.written[0], c.written[1]), c.written[2]), c.written[3])
	return Eq(l, BVu(uint64(len(c.written)-4), 32))
}

type endpointState struct {
	epoch         int
	addr          string
	tcpBeh, udpBeh *Term
	reply         []*Term
	hdr           []*Term
}

// EndpointRec is an endpoint's behaviour under a model.
type EndpointRec struct {
	Epoch int    `json:"epoch"`
	Addr  string `json:"addr"`
	TCP   int    `json:"tcp"`
	UDP   int    `json:"udp"`
	Reply    string `json:"reply"`     // hex, over UDP
	ReplyTCP string `json:"reply_tcp"` // hex, over TCP
	Hdr   string `json:"hdr"`   // hex, 4 bytes
}

func (r *Run) endpoint(addr string) *endpointState {
	for _, e := range r.endpoints {
		if e.addr == addr && e.epoch == r.epoch {
			return e
		}
	}
	// the reply identifies the endpoint (two bytes: marker, endpoint number)
	var num uint64
	fmt.Sscanf(addr, "k%d:", &num)
	// the reply identifies the endpoint, the transport and the epoch (three bytes), so that replies over
	// different transports or in different exchanges need not decode alike
	e := &endpointState{epoch: r.epoch, addr: addr, tcpBeh: r.hvar(8), udpBeh: r.hvar(8), reply: []*Term{BVu(0x6b, 8), BVu(num, 8), BVu(uint64(2*r.epoch), 8)}}
	r.addPC(ULe(e.tcpBeh, BVu(3, 8)))
	r.addPC(ULe(e.udpBeh, BVu(2, 8)))
	if r.param("tcphdr", 0) == 1 {
		// the peer announces an arbitrary length (C04: allocation from a peer-supplied length)
		e.hdr = []*Term{r.hvar(8), r.hvar(8), r.hvar(8), r.hvar(8)}
	} else {
		e.hdr = []*Term{BVu(0, 8), BVu(0, 8), BVu(0, 8), BVu(3, 8)}
	}
	r.endpoints = append(r.endpoints, e)
	return e
}

func (r *Run) evalEndpoints() []EndpointRec {
	var out []EndpointRec
	hexOf := func(ts []*Term) string {
		s := ""
		for _, t := range ts {
			s += fmt.Sprintf("%02x", r.sol.Value(t).Uint64())
		}
		return s
	}
	for _, e := range r.endpoints {
		out = append(out, EndpointRec{Epoch: e.epoch, Addr: e.addr, TCP: int(r.sol.Value(e.tcpBeh).Int64()), UDP: int(r.sol.Value(e.udpBeh).Int64()), Reply: hexOf(e.reply), ReplyTCP: hexOf(tcpReply(e.reply)), Hdr: hexOf(e.hdr)})
	}
	return out
}

func (e *Engine) registerNet() {
	ns := func(name string, f intrinsic) { e.intrinsics["netstub:"+name] = f }
	netT := func(r *Run, name string) types.Type {
		return types.NewPointer(r.eng.prog.ImportedPackage("net").Type(name).Type())
	}
	conn := func(v Value) *connObj { return v.(*PtrV).obj.val.(*connObj) }
	ns(rtPkg+".Endpoint", func(r *Run, fr *Frame, cc *ssa.CallCommon, a []Value) Value {
		i := r.concretise(a[0].(*Term), "endpoint index")
		addr := fmt.Sprintf("k%d:88", i)
		r.endpoint(addr)
		return concStr(addr)
	})
	ns(rtPkg+".NextEpoch", func(r *Run, fr *Frame, cc *ssa.CallCommon, a []Value) Value {
		r.epoch++ // every endpoint gets fresh, unrelated behaviour variables from now on
		return TupleV{}
	})
	ns(rtPkg+".EndpointAnswers", func(r *Run, fr *Frame, cc *ssa.CallCommon, a []Value) Value {
		ep := r.endpoint(fmt.Sprintf("k%d:88", r.concretise(a[0].(*Term), "endpoint index")))
		return Ite(a[1].(*Term), Eq(ep.tcpBeh, BVu(0, 8)), Eq(ep.udpBeh, BVu(0, 8)))
	})
	ns("net.DialTimeout", func(r *Run, fr *Frame, cc *ssa.CallCommon, a []Value) Value {
		network, _ := a[0].(*StrV).Concrete()
		addr, ok := a[1].(*StrV).Concrete()
		if !ok {
			endPath("engine", "symbolic dial address")
		}
		r.ghostLog("dials", concStr(network+":"+addr))
		ep := r.endpoint(addr)
		tcp := network == "tcp"
		beh := ep.udpBeh
		if tcp {
			beh = ep.tcpBeh
			if r.branch(Eq(beh, BVu(1, 8))) {
				return TupleV{&IfaceV{}, r.errNew(fr, "dial tcp: connection refused")}
			}
		}
		tn := "UDPConn"
		if tcp {
			tn = "TCPConn"
		}
		reply := ep.reply
		if tcp {
			reply = tcpReply(reply)
		}
		o := r.newObj(types.Typ[types.Int], &connObj{tcp: tcp, addr: addr, beh: beh, reply: reply, hdr: ep.hdr}, "conn")
		return TupleV{&IfaceV{t: netT(r, tn), v: &PtrV{obj: o}}, &IfaceV{}}
	})
	for _, t := range []string{"TCPConn", "UDPConn", "conn"} {
		ns("(*net."+t+").SetDeadline", func(r *Run, fr *Frame, cc *ssa.CallCommon, a []Value) Value { return &IfaceV{} })
		ns("(*net."+t+").Close", func(r *Run, fr *Frame, cc *ssa.CallCommon, a []Value) Value { return &IfaceV{} })
		ns("(*net."+t+").Write", func(r *Run, fr *Frame, cc *ssa.CallCommon, a []Value) Value {
			c := conn(a[0])
			c.written = append(c.written, sliceBytes(a[1].(*SliceV))...)
			return TupleV{BVi(int64(a[1].(*SliceV).len), 64), &IfaceV{}}
		})
		// net.Buffers.WriteTo(conn): every buffer is written, and the Buffers value is consumed (its elements
		// are set to nil in the shared backing array and the slice is advanced), as the real code does
		ns("(*net."+t+").writeBuffers", func(r *Run, fr *Frame, cc *ssa.CallCommon, a []Value) Value {
			c := conn(a[0])
			bp := a[1].(*PtrV)
			bufs := r.load(bp, lbl("net.Buffers")).(*SliceV)
			total := 0
			for i := 0; i < bufs.len; i++ {
				if b, ok := r.force(&elemsOf(bufs)[bufs.off+i]).(*SliceV); ok && b.len > 0 {
					c.written = append(c.written, sliceBytes(b)...)
					total += b.len
				}
				elemsOf(bufs)[bufs.off+i] = &SliceV{}
			}
			r.store(bp, &SliceV{arr: bufs.arr, base: bufs.base, off: bufs.off + bufs.len, len: 0, cap: bufs.cap - bufs.len}, lbl("net.Buffers"))
			return TupleV{BVi(int64(total), 64), &IfaceV{}}
		})
		ns("(*net."+t+").RemoteAddr", func(r *Run, fr *Frame, cc *ssa.CallCommon, a []Value) Value {
			return &IfaceV{t: addrType, v: BVi(0, 64)}
		})
	}
	e.intrinsics["gosym.Addr.String"] = func(r *Run, fr *Frame, cc *ssa.CallCommon, a []Value) Value { return concStr("peer") }
	// TCP: first read delivers the 4-byte header, later reads the body (short when the peer closes mid-body)
	tcpRead := func(r *Run, fr *Frame, cc *ssa.CallCommon, a []Value) Value {
		c := conn(a[0])
		buf := a[1].(*SliceV)
		if r.branch(Eq(c.beh, BVu(2, 8))) {
			return TupleV{BVi(0, 64), r.errNew(fr, "read: connection reset by peer")}
		}
		if !r.branch(c.wellFramed()) {
			return TupleV{BVi(0, 64), r.eofError(fr)} // the peer never saw a complete request: it closes without answering
		}
		c.reads++
		var data []*Term
		if c.reads == 1 {
			data = c.hdr
		} else if c.reads == 2 {
			data = c.reply
			if r.branch(Eq(c.beh, BVu(3, 8))) {
				data = c.reply[:1] // only part of the announced bytes arrives, then the peer closes
			}
		} else {
			return TupleV{BVi(0, 64), r.eofError(fr)}
		}
		if c.reads == 2 && buf.len < len(data) {
			c.reads-- // the rest is delivered by the next read
		}
		n := len(data)
		if buf.len < n {
			n = buf.len
		}
		for i := 0; i < n; i++ {
			elemsOf(buf)[buf.off+i] = data[i]
		}
		return TupleV{BVi(int64(n), 64), &IfaceV{}}
	}
	ns("(*net.conn).Read", tcpRead)
	ns("(*net.TCPConn).Read", tcpRead)
	ns("(*net.UDPConn).ReadFrom", func(r *Run, fr *Frame, cc *ssa.CallCommon, a []Value) Value {
		c := conn(a[0])
		buf := a[1].(*SliceV)
		if r.branch(Not(Eq(c.beh, BVu(0, 8)))) || !r.branch(c.wellFramed()) {
			return TupleV{BVi(0, 64), &IfaceV{}, r.errNew(fr, "read udp: connection refused / i/o timeout")}
		}
		for i := range c.reply {
			elemsOf(buf)[buf.off+i] = c.reply[i]
		}
		return TupleV{BVi(int64(len(c.reply)), 64), &IfaceV{}, &IfaceV{}}
	})
	// deadlines are computed from the wall clock; its value does not matter to the stubs
	ns("time.Now", func(r *Run, fr *Frame, cc *ssa.CallCommon, a []Value) Value {
		return StructV{BVu(0, 64), BVi(63800000000, 64), &PtrV{}}
	})
}

// eofError returns io.EOF (the package-level error value).
func (r *Run) eofError(fr *Frame) Value {
	g := r.eng.prog.ImportedPackage("io").Var("EOF")
	return r.load(&PtrV{obj: r.global(g)}, lbl("io.EOF"))
}

var addrType = fakeNamed("Addr")

// tcpReply: the reply an endpoint gives over TCP (last byte odd).
func tcpReply(udp []*Term) []*Term {
	out := append([]*Term{}, udp...)
	out[len(out)-1] = BVu(out[len(out)-1].Uint()+1, 8)
	return out
}
