package main

import (
	"go/token"
	"go/types"

	"golang.org/x/tools/go/ssa"
)

// Scripted network endpoints: behaviour per (network, address) is a symbolic variable.
//   0 answers "OK", 1 dial refused, 2 read error after connect, 3 answers "ER" (a KRB-ERROR)

type connObj struct {
	beh   *Term
	reads int
}

var addrType = types.NewNamed(types.NewTypeName(token.NoPos, fakePkg, "Addr", nil), types.NewStruct(nil, nil), nil)

func (e *Engine) registerNet() {
	in := e.intrinsics
	errv := func(r *Run, fr *Frame, msg string) Value {
		en := r.eng.prog.ImportedPackage("errors").Func("New")
		return r.callFn(fr, en, []Value{concStr(msg)}, lbl("net"))
	}
	netT := func(r *Run, name string) types.Type {
		return types.NewPointer(r.eng.prog.ImportedPackage("net").Type(name).Type())
	}
	behOf := func(r *Run, network, addr string) *Term {
		k := "beh:" + network + ":" + addr
		if v, ok := r.ghost[k]; ok {
			return v.(*Term)
		}
		v := r.input(8)
		r.addPC(ULe(v, BVu(2, 8)))
		r.ghost[k] = v
		return v
	}
	in["net.DialTimeout"] = func(r *Run, fr *Frame, cc *ssa.CallCommon, a []Value) Value {
		network, _ := a[0].(*StrV).Concrete()
		addr, ok := a[1].(*StrV).Concrete()
		if !ok {
			endPath("engine", "symbolic dial address")
		}
		r.ghostLog("dials", concStr(network+":"+addr))
		beh := behOf(r, network, addr)
		if r.branch(Eq(beh, BVu(1, 8))) {
			return TupleV{&IfaceV{}, errv(r, fr, "connection refused")}
		}
		tn := "TCPConn"
		if network == "udp" {
			tn = "UDPConn"
		}
		o := r.newObj(types.Typ[types.Int], StructV{&connObj{beh: beh}}, "conn")
		return TupleV{&IfaceV{t: netT(r, tn), v: &PtrV{obj: o}}, &IfaceV{}}
	}
	conn := func(v Value) *connObj { return v.(*PtrV).obj.val.(StructV)[0].(*connObj) }
	reply := func(r *Run, c *connObj) []*Term {
		if r.branch(Eq(c.beh, BVu(3, 8))) {
			return []*Term{BVu('E', 8), BVu('R', 8)}
		}
		return []*Term{BVu('O', 8), BVu('K', 8)}
	}
	for _, t := range []string{"TCPConn", "UDPConn", "conn"} {
		in["(*net."+t+").SetDeadline"] = func(r *Run, fr *Frame, cc *ssa.CallCommon, a []Value) Value { return &IfaceV{} }
		in["(*net."+t+").Close"] = func(r *Run, fr *Frame, cc *ssa.CallCommon, a []Value) Value { return &IfaceV{} }
		in["(*net."+t+").Write"] = func(r *Run, fr *Frame, cc *ssa.CallCommon, a []Value) Value {
			return TupleV{BVi(int64(a[1].(*SliceV).len), 64), &IfaceV{}}
		}
		in["(*net."+t+").RemoteAddr"] = func(r *Run, fr *Frame, cc *ssa.CallCommon, a []Value) Value {
			return &IfaceV{t: addrType, v: BVi(0, 64)}
		}
	}
	in["gosym.Addr.String"] = func(r *Run, fr *Frame, cc *ssa.CallCommon, a []Value) Value { return concStr("peer") }
	in["(*net.conn).Read"] = func(r *Run, fr *Frame, cc *ssa.CallCommon, a []Value) Value {
		c := conn(a[0])
		buf := a[1].(*SliceV)
		if r.branch(Eq(c.beh, BVu(2, 8))) {
			return TupleV{BVi(0, 64), errv(r, fr, "read: connection reset")}
		}
		c.reads++
		var data []*Term
		if c.reads == 1 {
			data = []*Term{BVu(0, 8), BVu(0, 8), BVu(0, 8), BVu(2, 8)}
		} else {
			data = reply(r, c)
		}
		n := len(data)
		if buf.len < n {
			n = buf.len
		}
		for i := 0; i < n; i++ {
			elemsOf(buf)[buf.off+i] = data[i]
		}
		return TupleV{BVi(int64(n), 64), &IfaceV{}}
	}
	in["(*net.UDPConn).ReadFrom"] = func(r *Run, fr *Frame, cc *ssa.CallCommon, a []Value) Value {
		c := conn(a[0])
		buf := a[1].(*SliceV)
		if r.branch(Eq(c.beh, BVu(2, 8))) {
			return TupleV{BVi(0, 64), &IfaceV{}, errv(r, fr, "read: timeout")}
		}
		data := reply(r, c)
		for i := range data {
			elemsOf(buf)[buf.off+i] = data[i]
		}
		return TupleV{BVi(int64(len(data)), 64), &IfaceV{}, &IfaceV{}}
	}
	in["(*github.com/jcmturner/gokrb5/v8/messages.KRBError).Unmarshal"] = func(r *Run, fr *Frame, cc *ssa.CallCommon, a []Value) Value {
		b := a[1].(*SliceV)
		if b.len == 2 {
			if t, ok := elemsOf(b)[b.off].(*Term); ok && t.IsConst() && t.Uint() == 'E' {
				return &IfaceV{}
			}
		}
		return errv(r, fr, "not a KRB-ERROR")
	}
	in[rtPkg+".GhostByte"] = func(r *Run, fr *Frame, cc *ssa.CallCommon, a []Value) Value {
		k, _ := a[0].(*StrV).Concrete()
		if v, ok := r.ghost[k]; ok {
			return v
		}
		return BVu(255, 8)
	}
	in[rtPkg+".GhostCount"] = func(r *Run, fr *Frame, cc *ssa.CallCommon, a []Value) Value {
		k, _ := a[0].(*StrV).Concrete()
		if v, ok := r.ghost[k]; ok {
			return BVi(int64(len(v.([]Value))), 64)
		}
		return BVi(0, 64)
	}
}
