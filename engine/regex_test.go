package main

import (
	"regexp"
	"testing"
)

// The regexp model against the real package: every string over a small alphabet up to length 6, for the patterns
// of config.NewFromScanner and a few with alternation, classes, laziness, anchors and captures.  On concrete text
// the model's terms fold to constants, so no solver is needed.
func TestRegexModelAgainstRealRegexp(t *testing.T) {
	pats := []string{`^\s*(#|;|\n)`, `^\s*\[libdefaults\]\s*`, `^\s*\[.*\]\s*`, `^\s*\[([^\]]*)\]\s*`, `^\s*(#|;|$)`, `a*?(b|ab)(a*)$`, `(a|ab)(c|bcd)?`,
		`\bab\b`, `(?i)aB`, `[^a]+b`, `(a*)*b`, `(a|b)*?b\s`, `^$`, `a{2,3}`, `(?m)^b$`, `x*`, `(\[)|(\])`}
	alpha := []byte("ab[] #\n")
	var gen func(cur []byte, n int, f func(string))
	gen = func(cur []byte, n int, f func(string)) {
		f(string(cur))
		if n == 0 {
			return
		}
		for _, c := range alpha {
			gen(append(cur, c), n-1, f)
		}
	}
	r := &Run{}
	for _, p := range pats {
		re := regexp.MustCompile(p)
		ro, err := compileRegex(p)
		if err != nil {
			t.Fatal(err)
		}
		count := 0
		gen(nil, 5, func(s string) {
			count++
			sv := concStr(s)
			m := r.regexMatch(ro, sv)
			if !m.IsConst() {
				t.Fatalf("%q on %q: match term not constant", p, s)
			}
			if (m == True) != re.MatchString(s) {
				t.Fatalf("%q on %q: model %v real %v", p, s, m == True, re.MatchString(s))
			}
			fm, caps := r.regexFind(ro, sv)
			want := re.FindStringSubmatchIndex(s)
			if (fm == True) != (want != nil) {
				t.Fatalf("%q on %q: find model %v real %v", p, s, fm == True, want)
			}
			if want != nil {
				for i := range want {
					if !caps[i].IsConst() || int(caps[i].Int()) != want[i] {
						t.Fatalf("%q on %q: cap %d model %v real %v", p, s, i, caps[i], want)
					}
				}
			}
		})
		t.Logf("%q: %d strings agree", p, count)
	}
}
