package main

import (
	"context"
	"encoding/json"
	"fmt"
	"os"
	"os/exec"
	"path/filepath"
	"regexp"
	"runtime"
	"sort"
	"strings"
	"sync"
	"time"
)

func copyStack(buf []byte) int { return runtime.Stack(buf, false) }

// ---- native replay ---------------------------------------------------------------------------
//
// A counterexample is replayed by compiling the real package together with the same harness
// (overlay) and running the harness with the model's input values popped in call order.

type replayReq struct {
	st *instState
	v  *foundViol
}

// pkgOfEntry: "keytab.VH_X" -> "keytab" ; "crypto/rfc3961.VH_X" -> "crypto/rfc3961"
func pkgOfEntry(entry string) (pkg, fn string) {
	entry = strings.TrimPrefix(entry, modPath)
	i := strings.LastIndex(entry, ".")
	return entry[:i], entry[i+1:]
}

func (ck *Checker) replayAll(states []*instState) {
	byPkg := map[string][]replayReq{}
	for _, st := range states {
		if st.in.Replay == "none" {
			for _, v := range st.viols {
				v.replay = "skipped"
			}
			continue
		}
		pkg, _ := pkgOfEntry(st.in.Entry)
		if st.in.Replay == "stubbed" {
			ss := append([]string{}, st.in.Stubs...)
			sort.Strings(ss)
			pkg += "|" + strings.Join(ss, ",")
		}
		for _, k := range st.violOrder {
			byPkg[pkg] = append(byPkg[pkg], replayReq{st, st.viols[k]})
		}
		for _, w := range st.wits {
			byPkg[pkg] = append(byPkg[pkg], replayReq{st, w})
		}
	}
	if len(byPkg) == 0 {
		return
	}
	scratch, err := os.MkdirTemp("", "gosym-replay-")
	if err != nil {
		panic(err)
	}
	if os.Getenv("GOSYM_KEEP") == "" {
		defer os.RemoveAll(scratch)
	} else {
		fmt.Println("replay scratch kept:", scratch)
	}
	os.MkdirAll("/verif/replays", 0o755)
	var wg sync.WaitGroup
	sem := make(chan struct{}, 4)
	for pkg, reqs := range byPkg {
		wg.Add(1)
		go func(pkg string, reqs []replayReq) {
			defer wg.Done()
			sem <- struct{}{}
			defer func() { <-sem }()
			ck.replayPkg(scratch, pkg, reqs)
		}(pkg, reqs)
	}
	wg.Wait()
}

func (ck *Checker) replayPkg(scratch, pkgKey string, reqs []replayReq) {
	fail := func(msg string) {
		for _, rq := range reqs {
			rq.v.replay, rq.v.replayMsg = "error", msg
		}
	}
	pkg := pkgKey
	stubbed := false
	if i := strings.Index(pkgKey, "|"); i >= 0 {
		pkg, stubbed = pkgKey[:i], true
	}
	// harness functions of the package
	var hs []string
	prefix := modPath + pkg + ".VH_"
	for name := range ck.eng.fnByName {
		if strings.HasPrefix(name, prefix) && !strings.Contains(name[len(prefix):], "$") && !strings.Contains(name[len(prefix):], ".") {
			hs = append(hs, strings.TrimPrefix(name, modPath+pkg+"."))
		}
	}
	sort.Strings(hs)
	pkgName := ck.eng.fnByName[prefix+strings.TrimPrefix(hs[0], "VH_")].Pkg.Pkg.Name()
	var sb strings.Builder
	fmt.Fprintf(&sb, "package %s\n\nimport (\n\t\"testing\"\n\n\t\"%szzverif\"\n)\n\nfunc TestZZReplay(t *testing.T) {\n\tzzverif.RunReplay(t, map[string]func(){\n", pkgName, modPath)
	for _, h := range hs {
		fmt.Fprintf(&sb, "\t\t%q: %s,\n", h, h)
	}
	sb.WriteString("\t})\n}\n")
	tag := sanitize(strings.ReplaceAll(pkgKey, "/", "_"))
	testFile := filepath.Join(scratch, tag+"_replay_test.go")
	os.WriteFile(testFile, []byte(sb.String()), 0o644)
	// overlay json
	repl := map[string]string{}
	filepath.Walk(ck.harness, func(p string, info os.FileInfo, err error) error {
		if err != nil || info.IsDir() || !strings.HasSuffix(p, ".go") {
			return nil
		}
		rel, _ := filepath.Rel(ck.harness, p)
		repl[filepath.Join(ck.repo, filepath.Dir(rel), "zz_"+filepath.Base(rel))] = p
		return nil
	})
	for k, v := range ck.extra {
		repl[k] = v
	}
	if stubbed {
		so, err := ck.stubOverlay(scratch, reqs[0].st.in)
		if err != nil {
			fail("stub overlay: " + err.Error())
			return
		}
		for k, v := range so {
			repl[k] = v
		}
	}
	repl[filepath.Join(ck.repo, pkg, "zz_replay_test.go")] = testFile
	ovb, _ := json.Marshal(map[string]interface{}{"Replace": repl})
	ovFile := filepath.Join(scratch, tag+"_overlay.json")
	os.WriteFile(ovFile, ovb, 0o644)
	bin := filepath.Join(scratch, tag+".test")
	ctx, cancel := context.WithTimeout(context.Background(), 5*time.Minute)
	defer cancel()
	cmd := exec.CommandContext(ctx, "go", "test", "-c", "-vet=off", "-overlay", ovFile, "-o", bin, "./"+pkg+"/")
	cmd.Dir = ck.repo
	cmd.Env = append(os.Environ(), goEnv...)
	if out, err := cmd.CombinedOutput(); err != nil {
		fail("replay build failed: " + lastLines(string(out), 6))
		return
	}
	for i, rq := range reqs {
		_, fn := pkgOfEntry(rq.st.in.Entry)
		try := func(v Violation) (string, string, string) {
			inputs := make([]string, len(v.Inputs))
			for j, iv := range v.Inputs {
				inputs[j] = iv.Hex
			}
			rfile := map[string]interface{}{"harness": fn, "params": rq.st.in.Params, "inputs": inputs, "property": rq.st.in.Property, "instance": rq.st.in.Name,
				"violation": map[string]string{"kind": v.Kind, "key": v.Key, "site": v.Site, "msg": v.Msg}, "stubs": v.Stubs, "clock": v.Clock, "randints": v.RandInts, "schedule": v.Schedule, "endpoints": v.Endpoints, "stub_sets": rq.st.in.Stubs,
				"how_to_replay": "gosym builds the package with the harness overlay (go test -c -overlay) and runs TestZZReplay with ZZVERIF_REPLAY=<this file>"}
			b, _ := json.MarshalIndent(rfile, "", " ")
			dir := filepath.Join("/verif/replays", rq.st.in.Property)
			os.MkdirAll(dir, 0o755)
			path := filepath.Join(dir, fmt.Sprintf("%s-%d.json", sanitize(rq.st.in.Name), i))
			if v.Kind == "witness" {
				path = filepath.Join(dir, fmt.Sprintf("witness-%s-%d.json", sanitize(rq.st.in.Name), i))
			}
			os.WriteFile(path, b, 0o644)
			res, msg := ck.runReplay(bin, filepath.Join(ck.repo, pkg), path, rq)
			return path, res, msg
		}
		rq.v.replayFile, rq.v.replay, rq.v.replayMsg = try(rq.v.Violation)
		// the same violation may have been found with several inputs; one that reproduces is enough
		for _, alt := range rq.v.alts {
			if rq.v.replay != "unconfirmed" {
				break
			}
			if f, res, msg := try(alt); res == "confirmed" {
				rq.v.Violation = alt
				rq.v.replayFile, rq.v.replay, rq.v.replayMsg = f, res, msg
			}
		}
	}
}

var reSan = regexp.MustCompile(`[^A-Za-z0-9_.-]+`)

func sanitize(s string) string { return reSan.ReplaceAllString(s, "_") }

func lastLines(s string, n int) string {
	ls := strings.Split(strings.TrimSpace(s), "\n")
	if len(ls) > n {
		ls = ls[len(ls)-n:]
	}
	return strings.Join(ls, " | ")
}

var reKV = regexp.MustCompile(`(\w+)=("(?:[^"\\]|\\.)*"|\S+)`)

func (ck *Checker) runReplay(bin, dir, file string, rq replayReq) (string, string) {
	ctx, cancel := context.WithTimeout(context.Background(), 60*time.Second)
	defer cancel()
	cmd := exec.CommandContext(ctx, bin, "-test.run", "^TestZZReplay$", "-test.timeout", "50s")
	cmd.Dir = dir
	cmd.Env = append(os.Environ(), "ZZVERIF_REPLAY="+file)
	out, _ := cmd.CombinedOutput()
	kind := rq.v.Kind
	var line string
	for _, l := range strings.Split(string(out), "\n") {
		if strings.HasPrefix(l, "ZZREPLAY ") {
			line = l
		}
	}
	if line == "" {
		if ctx.Err() != nil || strings.Contains(string(out), "test timed out") {
			if kind == "unwind" || kind == "deadlock" {
				return "confirmed", "native run did not terminate within 50 s"
			}
			return "unconfirmed", "native run timed out"
		}
		if strings.Contains(string(out), "fatal error") || strings.Contains(string(out), "out of memory") {
			return "confirmed", "native run died: " + lastLines(string(out), 2)
		}
		return "error", "no replay result: " + lastLines(string(out), 3)
	}
	kv := map[string]string{}
	for _, m := range reKV.FindAllStringSubmatch(line, -1) {
		v := m[2]
		if strings.HasPrefix(v, `"`) {
			var s string
			if json.Unmarshal([]byte(v), &s) == nil {
				v = s
			}
		}
		kv[m[1]] = v
	}
	var alloc int64
	fmt.Sscan(kv["alloc"], &alloc)
	switch kind {
	case "witness":
		// a path the symbolic run completed without a violation: the native run must complete the same way
		if kv["result"] == "pass" {
			return "confirmed", line
		}
		return "unconfirmed", line
	case "assert":
		label := strings.TrimPrefix(rq.v.Key, "assert|")
		for _, l := range strings.Split(kv["label"], ",") {
			if l == label {
				return "confirmed", line
			}
		}
	case "alloc":
		if alloc >= int64(rq.st.in.AllocLimit) || (kv["result"] == "panic" && (strings.Contains(kv["msg"], "makeslice") || strings.Contains(kv["msg"], "out of memory"))) {
			return "confirmed", line
		}
	case "unwind":
	default: // index, slice, nil, divzero, typeassert, panic
		if kv["result"] == "panic" {
			return "confirmed", line
		}
	}
	return "unconfirmed", line
}
