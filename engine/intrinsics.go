package main

import (
	"fmt"
	"go/types"
	"hash/fnv"
	"strings"

	"golang.org/x/tools/go/ssa"
)

const rtPkg = "github.com/jcmturner/gokrb5/v8/zzverif"

type intrinsic = func(r *Run, fr *Frame, cc *ssa.CallCommon, args []Value) Value

func (e *Engine) registerIntrinsics() {
	in := e.intrinsics
	in[rtPkg+".Byte"] = func(r *Run, fr *Frame, cc *ssa.CallCommon, a []Value) Value { return r.input(8) }
	in[rtPkg+".Uint16"] = func(r *Run, fr *Frame, cc *ssa.CallCommon, a []Value) Value { return r.input(16) }
	in[rtPkg+".Uint32"] = func(r *Run, fr *Frame, cc *ssa.CallCommon, a []Value) Value { return r.input(32) }
	in[rtPkg+".Int32"] = in[rtPkg+".Uint32"]
	in[rtPkg+".Int16"] = in[rtPkg+".Uint16"]
	in[rtPkg+".Int64"] = func(r *Run, fr *Frame, cc *ssa.CallCommon, a []Value) Value { return r.input(64) }
	in[rtPkg+".Param"] = func(r *Run, fr *Frame, cc *ssa.CallCommon, a []Value) Value {
		k, _ := a[0].(*StrV).Concrete()
		v, ok := r.inst.Params[k]
		if !ok {
			endPath("engine", "instance %s has no parameter %q", r.inst.Name, k)
		}
		return BVi(v, 64)
	}
	in[rtPkg+".Uint64"] = func(r *Run, fr *Frame, cc *ssa.CallCommon, a []Value) Value { return r.input(64) }
	in[rtPkg+".Int"] = in[rtPkg+".Uint64"]
	in[rtPkg+".Bool"] = func(r *Run, fr *Frame, cc *ssa.CallCommon, a []Value) Value {
		return Eq(r.input(1), BVu(1, 1))
	}
	in[rtPkg+".Bytes"] = func(r *Run, fr *Frame, cc *ssa.CallCommon, a []Value) Value {
		n := int(r.concretise(a[0].(*Term), "Bytes(n)"))
		s := r.makeSlice(types.Typ[types.Uint8], n, n)
		for i := 0; i < n; i++ {
			elemsOf(s)[i] = r.input(8)
		}
		return s
	}
	in[rtPkg+".String"] = func(r *Run, fr *Frame, cc *ssa.CallCommon, a []Value) Value {
		n := int(r.concretise(a[0].(*Term), "String(n)"))
		s := &StrV{b: make([]*Term, n)}
		for i := range s.b {
			s.b[i] = r.input(8)
		}
		return s
	}
	in[rtPkg+".Choose"] = func(r *Run, fr *Frame, cc *ssa.CallCommon, a []Value) Value {
		lo, hi := a[0].(*Term), a[1].(*Term)
		v := r.input(64)
		r.addPC(And(SLe(lo, v), SLe(v, hi)))
		return BVi(r.concretise(v, "Choose"), 64)
	}
	in[rtPkg+".Assume"] = func(r *Run, fr *Frame, cc *ssa.CallCommon, a []Value) Value {
		c := a[0].(*Term)
		if c.IsFalse() {
			endPath("assume", "assumption false")
		}
		if !c.IsTrue() {
			if r.sol.CheckWith(c) == "unsat" {
				endPath("assume", "assumption infeasible")
			}
			r.addPC(c)
		}
		return nil
	}
	in[rtPkg+".Assert"] = func(r *Run, fr *Frame, cc *ssa.CallCommon, a []Value) Value {
		label, _ := a[0].(*StrV).Concrete()
		r.mustNot(Not(a[1].(*Term)), "assert", lbl(label), "assertion "+label)
		return nil
	}
	in[rtPkg+".And"] = func(r *Run, fr *Frame, cc *ssa.CallCommon, a []Value) Value { return And(a[0].(*Term), a[1].(*Term)) }
	in[rtPkg+".Or"] = func(r *Run, fr *Frame, cc *ssa.CallCommon, a []Value) Value { return Or(a[0].(*Term), a[1].(*Term)) }
	in[rtPkg+".Implies"] = func(r *Run, fr *Frame, cc *ssa.CallCommon, a []Value) Value { return Or(Not(a[0].(*Term)), a[1].(*Term)) }
	in[rtPkg+".All"] = func(r *Run, fr *Frame, cc *ssa.CallCommon, a []Value) Value {
		res := True
		s := a[0].(*SliceV)
		for i := 0; i < s.len; i++ {
			res = And(res, elemsOf(s)[s.off+i].(*Term))
		}
		return res
	}
	in[rtPkg+".Any"] = func(r *Run, fr *Frame, cc *ssa.CallCommon, a []Value) Value {
		res := False
		s := a[0].(*SliceV)
		for i := 0; i < s.len; i++ {
			res = Or(res, elemsOf(s)[s.off+i].(*Term))
		}
		return res
	}
	in[rtPkg+".EqBytes"] = func(r *Run, fr *Frame, cc *ssa.CallCommon, a []Value) Value {
		x, y := a[0].(*SliceV), a[1].(*SliceV)
		if x.len != y.len {
			return False
		}
		if x.len == 0 {
			return True
		}
		return Eq(catBytes(sliceBytes(x)), catBytes(sliceBytes(y)))
	}
	in[rtPkg+".IteInt"] = func(r *Run, fr *Frame, cc *ssa.CallCommon, a []Value) Value { return Ite(a[0].(*Term), a[1].(*Term), a[2].(*Term)) }
	in[rtPkg+".Hex"] = func(r *Run, fr *Frame, cc *ssa.CallCommon, a []Value) Value {
		// lower-case hex of symbolic bytes without forking: nibble -> character by ite
		bs := sliceBytes(a[0].(*SliceV))
		out := &StrV{}
		nib := func(n *Term) *Term {
			return Ite(ULt(n, BVu(10, 4)), Add(ZExt(n, 8), BVu('0', 8)), Add(ZExt(n, 8), BVu('a'-10, 8)))
		}
		for _, b := range bs {
			out.b = append(out.b, nib(Extract(b, 7, 4)), nib(Extract(b, 3, 0)))
		}
		return out
	}
	in[rtPkg+".Reach"] = func(r *Run, fr *Frame, cc *ssa.CallCommon, a []Value) Value {
		label, _ := a[0].(*StrV).Concrete()
		r.reach[label] = true
		return nil
	}

	// fmt: opaque strings
	sprintf := func(r *Run, fr *Frame, cc *ssa.CallCommon, a []Value) Value {
		return r.opaqueFormat(a[0].(*StrV), a[1].(*SliceV))
	}
	in["fmt.Sprintf"] = sprintf
	in["fmt.Errorf"] = func(r *Run, fr *Frame, cc *ssa.CallCommon, a []Value) Value {
		s := r.opaqueFormat(a[0].(*StrV), a[1].(*SliceV))
		en := r.eng.prog.ImportedPackage("errors").Func("New")
		return r.callFn(fr, en, []Value{s}, lbl("fmt.Errorf"))
	}
	in["fmt.Fprintf"] = func(r *Run, fr *Frame, cc *ssa.CallCommon, a []Value) Value {
		return TupleV{BVi(0, 64), &IfaceV{}}
	}
	in["(*log.Logger).Printf"] = func(r *Run, fr *Frame, cc *ssa.CallCommon, a []Value) Value { return nil }
	in["(*log.Logger).Output"] = func(r *Run, fr *Frame, cc *ssa.CallCommon, a []Value) Value { return &IfaceV{} }

	in["strings.Join"] = func(r *Run, fr *Frame, cc *ssa.CallCommon, a []Value) Value {
		elems := a[0].(*SliceV)
		sep := a[1].(*StrV)
		res := &StrV{}
		for i := 0; i < elems.len; i++ {
			if i > 0 {
				res.b = append(res.b, sep.b...)
			}
			e := r.force(&elemsOf(elems)[elems.off+i]).(*StrV)
			if e.opaque != nil {
				// an opaque element makes the result opaque: a function of every element
				var ts []*Term
				name := "joined"
				for j := 0; j < elems.len; j++ {
					t := strTerm(r.force(&elemsOf(elems)[elems.off+j]).(*StrV))
					name += fmt.Sprintf("_w%d", t.w)
					ts = append(ts, t)
				}
				return &StrV{opaque: UF(name, 64, ts...)}
			}
			res.b = append(res.b, e.b...)
		}
		return res
	}
	for _, p := range []string{"github.com/jcmturner/gokrb5/v8/keytab", "github.com/jcmturner/gokrb5/v8/credentials"} {
		in[p+".isNativeEndianLittle"] = func(r *Run, fr *Frame, cc *ssa.CallCommon, a []Value) Value { return True }
	}
	in["encoding/binary.Read"] = binaryRead
	in["internal/bytealg.MakeNoZero"] = func(r *Run, fr *Frame, cc *ssa.CallCommon, a []Value) Value {
		n := int(r.concretise(a[0].(*Term), "MakeNoZero"))
		return r.makeSlice(types.Typ[types.Uint8], n, n)
	}
	in["internal/bytealg.CountString"] = func(r *Run, fr *Frame, cc *ssa.CallCommon, a []Value) Value {
		s, c := a[0].(*StrV), a[1].(*Term)
		n := BVi(0, 64)
		for _, b := range s.b {
			n = Add(n, BoolToBV(Eq(b, c), 64))
		}
		return n
	}
	in["internal/bytealg.IndexByteString"] = func(r *Run, fr *Frame, cc *ssa.CallCommon, a []Value) Value {
		s, c := a[0].(*StrV), a[1].(*Term)
		res := BVi(-1, 64)
		for i := len(s.b) - 1; i >= 0; i-- {
			res = Ite(Eq(s.b[i], c), BVi(int64(i), 64), res)
		}
		return res
	}
	in["internal/bytealg.IndexByte"] = func(r *Run, fr *Frame, cc *ssa.CallCommon, a []Value) Value {
		bs, c := sliceBytes(a[0].(*SliceV)), a[1].(*Term)
		res := BVi(-1, 64)
		for i := len(bs) - 1; i >= 0; i-- {
			res = Ite(Eq(bs[i], c), BVi(int64(i), 64), res)
		}
		return res
	}
	in["internal/bytealg.LastIndexByteString"] = func(r *Run, fr *Frame, cc *ssa.CallCommon, a []Value) Value {
		s, c := a[0].(*StrV), a[1].(*Term)
		res := BVi(-1, 64)
		for i := 0; i < len(s.b); i++ {
			res = Ite(Eq(s.b[i], c), BVi(int64(i), 64), res)
		}
		return res
	}
}

func (r *Run) opaqueFormat(f *StrV, args *SliceV) *StrV {
	fs, _ := f.Concrete()
	if fs == "%04x" && args.len == 1 {
		// exact model of the one numeric format whose text the library parses back (rc4 string-to-key)
		if t, ok := elemsOf(args)[args.off].(*IfaceV).v.(*Term); ok && t.w >= 8 {
			v := ZExt(t, 64)
			if t.w == 64 {
				v = t
			}
			digits := 4
			for digits < 16 && !r.branchQuiet(ULt(v, BVu(1<<(4*uint(digits)), 64))) {
				digits++
			}
			out := &StrV{}
			for i := digits - 1; i >= 0; i-- {
				n := Extract(v, 4*i+3, 4*i)
				out.b = append(out.b, Ite(ULt(n, BVu(10, 4)), Add(ZExt(n, 8), BVu('0', 8)), Add(ZExt(n, 8), BVu('a'-10, 8))))
			}
			return out
		}
	}
	h := fnv.New32a()
	h.Write([]byte(fs))
	var ts []*Term
	name := fmt.Sprintf("fmt_%08x", h.Sum32())
	if _, conc := f.Concrete(); !conc {
		// the format itself is data (fmt.Errorf(msg)): the result depends on it
		t := strTerm(f)
		name += fmt.Sprintf("_f%d", t.w)
		ts = append(ts, t)
	}
	for i := 0; i < args.len; i++ {
		iv := elemsOf(args)[args.off+i].(*IfaceV)
		var t *Term
		switch v := iv.v.(type) {
		case *Term:
			t = v
			if t.w == 0 {
				t = BoolToBV(t, 1)
			}
		case *StrV:
			t = strTerm(v)
		case *SliceV:
			// []byte printed: depends on contents
			t = BVu(0, 8)
			if v.arr != nil {
				for j := 0; j < v.len; j++ {
					if b, ok := elemsOf(v)[v.off+j].(*Term); ok {
						t = Concat(t, b)
					} else if r.inst.stubSet["leakcheck"] {
						// a slice of structs, strings, ...: whatever data the elements consist of
						for _, x := range r.sinkTerms(nil, r.force(&elemsOf(v)[v.off+j])) {
							if x.w == 0 {
								x = BoolToBV(x, 1)
							}
							t = Concat(t, x)
						}
					}
				}
			}
		default:
			// errors (by their message), structs, ...: whatever data the value consists of
			t = BVu(uint64(i), 8)
			var parts []*Term
			if r.inst.stubSet["leakcheck"] {
				parts = r.sinkTerms(nil, iv)
			}
			for _, x := range parts {
				if x.w == 0 {
					x = BoolToBV(x, 1)
				}
				t = Concat(t, x)
			}
		}
		name += fmt.Sprintf("_w%d", t.w)
		ts = append(ts, t)
	}
	return &StrV{opaque: UF(name, 64, ts...)}
}

// branchQuiet is branch for engine-internal case splits.
func (r *Run) branchQuiet(c *Term) bool { return r.branch(c) }

func binaryRead(r *Run, fr *Frame, cc *ssa.CallCommon, a []Value) Value {
	rd := a[0]
	order := a[1].(*IfaceV)
	data := a[2].(*IfaceV)
	little := strings.Contains(order.t.String(), "littleEndian")
	var n int
	var store func(bs []*Term)
	w := func(bs []*Term) *Term { // assemble integer
		var t *Term
		if little {
			for i := len(bs) - 1; i >= 0; i-- {
				if t == nil {
					t = bs[i]
				} else {
					t = Concat(t, bs[i])
				}
			}
		} else {
			for i := 0; i < len(bs); i++ {
				if t == nil {
					t = bs[i]
				} else {
					t = Concat(t, bs[i])
				}
			}
		}
		return t
	}
	switch dt := data.t.Underlying().(type) {
	case *types.Pointer:
		p := data.v.(*PtrV)
		switch et := dt.Elem().Underlying().(type) {
		case *types.Basic:
			n = widthOf(et) / 8
			store = func(bs []*Term) { r.store(p, w(bs), lbl("binary.Read")) }
		case *types.Slice:
			sl := r.load(p, lbl("binary.Read")).(*SliceV)
			n = sl.len
			store = func(bs []*Term) {
				for i, b := range bs {
					elemsOf(sl)[sl.off+i] = b
				}
			}
		default:
			endPath("engine", "binary.Read into %v", data.t)
		}
	case *types.Slice:
		sl := data.v.(*SliceV)
		n = sl.len
		store = func(bs []*Term) {
			for i, b := range bs {
				elemsOf(sl)[sl.off+i] = b
			}
		}
	default:
		endPath("engine", "binary.Read into %v", data.t)
	}
	buf := r.makeSlice(types.Typ[types.Uint8], n, n)
	rf := r.eng.prog.ImportedPackage("io").Func("ReadFull")
	res := r.callFn(fr, rf, []Value{rd, buf}, lbl("binary.Read")).(TupleV)
	errv := res[1].(*IfaceV)
	if errv.t != nil {
		return errv
	}
	bs := make([]*Term, n)
	for i := range bs {
		bs[i] = elemsOf(buf)[i].(*Term)
	}
	store(bs)
	return &IfaceV{}
}
