package main

import (
	"fmt"
	"go/types"

	"golang.org/x/tools/go/ssa"
)

// Value is one of: *Term (bool/int scalar), *StrV, *PtrV, *SliceV, StructV, ArrayV,
// *IfaceV, *FuncV, *MapV, TupleV, nil (zero-less placeholder is never used).
type Value interface{}

type StrV struct {
	b      []*Term // bytes (8-bit terms)
	opaque *Term   // non-nil => opaque string (UF-valued), b ignored
}

type PathElem struct {
	field int   // >=0: struct field
	idx   *Term // non-nil: array index (64-bit term)
}

type Object struct {
	id   int
	typ  types.Type // type of the stored value
	val  Value      // mutable tree: StructV / ArrayV are mutated in place
	name string
	born *Term // guard in force when allocated
}

type PtrV struct {
	obj  *Object // nil => nil pointer
	path []PathElem
}

type SliceV struct {
	arr           *Object    // nil => nil slice
	base          []PathElem // path from arr.val to the backing ArrayV (arrays nested in structs)
	off, len, cap int
}

// elemsOf returns the backing array of a slice value.
func elemsOf(s *SliceV) ArrayV {
	if s.arr == nil {
		return nil
	}
	v := s.arr.val
	for _, e := range s.base {
		if e.idx == nil {
			v = v.(StructV)[e.field]
		} else {
			v = v.(ArrayV)[int(e.idx.Int())]
		}
	}
	a, ok := v.(ArrayV)
	if !ok {
		endPath("engine", "slice backing store is %T", v)
	}
	return a
}

type StructV []Value
type ArrayV []Value
type TupleV []Value

type IfaceV struct {
	t types.Type // nil => nil interface
	v Value
}

type FuncV struct {
	fn  *ssa.Function // nil => nil func
	env []Value
	// bound intrinsic name for externally defined function values (e.g. sha1.New)
	ext string
}

type MapEntry struct {
	k, v Value
	del  bool
}
type MapV struct {
	id      int
	typ     *types.Map
	entries []MapEntry
	isNil   bool
}

func isScalarType(t types.Type) bool {
	switch u := t.Underlying().(type) {
	case *types.Basic:
		return u.Info()&(types.IsBoolean|types.IsInteger) != 0 || u.Kind() == types.UnsafePointer
	}
	return false
}

func widthOf(t types.Type) int {
	b, ok := t.Underlying().(*types.Basic)
	if !ok {
		panic(fmt.Sprintf("widthOf non-basic %v", t))
	}
	switch b.Kind() {
	case types.Bool, types.UntypedBool:
		return 0
	case types.Int8, types.Uint8:
		return 8
	case types.Int16, types.Uint16:
		return 16
	case types.Int32, types.Uint32, types.UntypedRune:
		return 32
	case types.Int, types.Uint, types.Int64, types.Uint64, types.Uintptr, types.UntypedInt, types.UnsafePointer:
		return 64
	}
	panic(fmt.Sprintf("widthOf %v", t))
}

func isSigned(t types.Type) bool {
	b, ok := t.Underlying().(*types.Basic)
	if !ok {
		return false
	}
	return b.Info()&types.IsUnsigned == 0 && b.Info()&types.IsInteger != 0
}

// zero value of a type
func zeroValue(t types.Type) Value {
	switch u := t.Underlying().(type) {
	case *types.Basic:
		switch {
		case u.Info()&types.IsBoolean != 0:
			return False
		case u.Info()&types.IsInteger != 0 || u.Kind() == types.UnsafePointer:
			return BVu(0, widthOf(t))
		case u.Info()&types.IsString != 0:
			return &StrV{}
		case u.Info()&types.IsFloat != 0:
			return BVu(0, 64) // floats unsupported; placeholder
		}
	case *types.Pointer:
		return &PtrV{}
	case *types.Slice:
		return &SliceV{}
	case *types.Struct:
		s := make(StructV, u.NumFields())
		for i := range s {
			s[i] = zeroValue(u.Field(i).Type())
		}
		return s
	case *types.Array:
		a := make(ArrayV, int(u.Len()))
		for i := range a {
			a[i] = zeroValue(u.Elem())
		}
		return a
	case *types.Interface:
		return &IfaceV{}
	case *types.Signature:
		return &FuncV{}
	case *types.Map:
		return &MapV{isNil: true, typ: u}
	case *types.Chan:
		return &PtrV{}
	case *types.Tuple:
		tv := make(TupleV, u.Len())
		for i := range tv {
			tv[i] = zeroValue(u.At(i).Type())
		}
		return tv
	}
	panic(fmt.Sprintf("zeroValue: unsupported type %v", t))
}

// deep copy of aggregates (value semantics on load/store)
func copyVal(v Value) Value {
	switch x := v.(type) {
	case StructV:
		n := make(StructV, len(x))
		for i := range x {
			n[i] = copyVal(x[i])
		}
		return n
	case ArrayV:
		n := make(ArrayV, len(x))
		for i := range x {
			n[i] = copyVal(x[i])
		}
		return n
	case TupleV:
		n := make(TupleV, len(x))
		for i := range x {
			n[i] = copyVal(x[i])
		}
		return n
	}
	return v
}

func concStr(s string) *StrV {
	r := &StrV{b: make([]*Term, len(s))}
	for i := 0; i < len(s); i++ {
		r.b[i] = BVu(uint64(s[i]), 8)
	}
	return r
}

func (s *StrV) Concrete() (string, bool) {
	if s.opaque != nil {
		return "", false
	}
	bs := make([]byte, len(s.b))
	for i, t := range s.b {
		if !t.IsConst() {
			return "", false
		}
		bs[i] = byte(t.Uint())
	}
	return string(bs), true
}

// ChanV: minimal buffered channel (sends only; receivers are not modelled)
type ChanV struct {
	cap int
	buf []Value
}
