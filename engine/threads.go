package main

import (
	"fmt"
	"go/types"

	"golang.org/x/tools/go/ssa"
)

// Cooperative threads: each symbolic thread runs on its own goroutine but only the baton holder
// executes.  Context switches happen only at synchronisation intrinsics (schedule decisions).

type thread struct {
	id      int
	resume  chan bool
	started bool
	done    bool
	wait    func() bool // nil => runnable
	hold    map[string]bool
}

type lockState struct {
	writer     int // thread id, -1 none
	readers    map[int]int
	relW, relR vc
}

type sched struct {
	threads  []*thread
	cur      *thread
	yield    chan struct{}
	locks    map[string]*lockState
	perr     interface{}
	switches int
	vcs      map[int]vc
	hist     map[string]*cellHist
}

func lockKey(p *PtrV) string {
	k := fmt.Sprintf("o%d", p.obj.id)
	for _, e := range p.path {
		if e.idx != nil {
			k += fmt.Sprintf("[%d]", e.idx.Int())
		} else {
			k += fmt.Sprintf(".%d", e.field)
		}
	}
	return k
}

func (r *Run) lockOf(p *PtrV) *lockState {
	if r.sch == nil {
		r.sch = &sched{locks: map[string]*lockState{}}
	}
	k := lockKey(p)
	l, ok := r.sch.locks[k]
	if !ok {
		l = &lockState{writer: -1, readers: map[int]int{}}
		r.sch.locks[k] = l
	}
	return l
}

func (r *Run) curID() int {
	if r.sch == nil || r.sch.cur == nil {
		return 0
	}
	return r.sch.cur.id
}

// syncPoint: the current thread offers a context switch and then waits until cond holds.
func (r *Run) syncPoint(cond func() bool) {
	s := r.sch
	if s == nil || s.cur == nil {
		if cond != nil && !cond() {
			r.mustNot(True, "deadlock", lbl("single thread"), "blocked forever")
		}
		return
	}
	t := s.cur
	t.wait = cond
	s.yield <- struct{}{}
	if !<-t.resume {
		panic(threadKilled{})
	}
	t.wait = nil
}

func (r *Run) schedule(n int) int {
	if n == 1 {
		return 0
	}
	i := len(r.taken)
	if i < len(r.prefix) {
		d := r.prefix[i]
		if d.Kind != 's' {
			endPath("engine", "decision vector mismatch at %d: want s got %c", i, d.Kind)
		}
		r.taken = append(r.taken, d)
		return int(d.Val)
	}
	for alt := 1; alt < n; alt++ {
		r.newWork = append(r.newWork, append(append([]Decision{}, r.taken...), Decision{Kind: 's', Val: int64(alt)}))
	}
	r.taken = append(r.taken, Decision{Kind: 's', Val: 0})
	return 0
}

func (e *Engine) registerThreads() {
	in := e.intrinsics
	in[rtPkg+".Par"] = func(r *Run, fr *Frame, cc *ssa.CallCommon, a []Value) Value {
		if r.sch == nil {
			r.sch = &sched{locks: map[string]*lockState{}}
		}
		s := r.sch
		s.yield = make(chan struct{})
		s.threads = nil
		var fns []Value
		if sl, ok := a[0].(*SliceV); ok { // variadic ...func()
			for i := 0; i < sl.len; i++ {
				fns = append(fns, elemsOf(sl)[sl.off+i])
			}
		} else {
			fns = a
		}
		for i, f := range fns {
			fv := f.(*FuncV)
			t := &thread{id: i + 1, resume: make(chan bool)}
			s.threads = append(s.threads, t)
			go func() {
				if !<-t.resume {
					t.done = true
					s.yield <- struct{}{}
					return
				}
				defer func() {
					if e := recover(); e != nil {
						if _, killed := e.(threadKilled); !killed {
							s.perr = e
						}
					}
					t.done = true
					s.yield <- struct{}{}
				}()
				r.callFn(fr, fv.fn, fv.env, lbl("thread"))
			}()
		}
		for {
			var en []*thread
			alive := 0
			for _, t := range s.threads {
				if t.done {
					continue
				}
				alive++
				if t.wait == nil || t.wait() {
					en = append(en, t)
				}
			}
			if alive == 0 {
				break
			}
			if len(en) == 0 {
				s.cur = nil
				r.mustNot(True, "deadlock", lbl("Par"), "all threads blocked")
			}
			t := en[r.schedule(len(en))]
			r.schedLog = append(r.schedLog, t.id)
			s.cur = t
			s.switches++
			t.resume <- true
			<-s.yield
			if s.perr != nil {
				e := s.perr
				s.perr = nil
				s.cur = nil
				panic(e)
			}
		}
		s.cur = nil
		return nil
	}
	// zzverif.Background(i, n): the i-th goroutine the code under test started runs (from where it is parked:
	// its start, in this model once per harness) through n wake-ups from time.Sleep and is parked at the next one
	in[rtPkg+".Background"] = func(r *Run, fr *Frame, cc *ssa.CallCommon, a []Value) Value {
		i := int(r.concretise(a[0].(*Term), "background goroutine"))
		n := int(r.concretise(a[1].(*Term), "wake-ups"))
		if i >= len(r.background) {
			endPath("engine", "Background(%d): the code under test started %d goroutines", i, len(r.background))
		}
		if r.background[i] == nil {
			endPath("engine", "Background(%d) called twice (a parked goroutine cannot be resumed in this model)", i)
		}
		rc, bfr := r.background[i], r.bgFrames[i]
		r.background[i] = nil
		r.bgActive, r.bgBudget = true, n
		depth := r.depth
		func() {
			defer func() {
				if e := recover(); e != nil {
					if _, ok := e.(bgParked); !ok {
						panic(e)
					}
				}
			}()
			r.invoke(bfr, rc, lbl("background goroutine"))
		}()
		r.depth = depth
		r.bgActive = false
		return TupleV{}
	}
	in[rtPkg+".BackgroundCount"] = func(r *Run, fr *Frame, cc *ssa.CallCommon, a []Value) Value {
		return BVi(int64(len(r.background)), 64)
	}
	// sync.Pool: Get hands back the most recently Put object (with whatever it still contains), else New()
	in["(*sync.Pool).Get"] = func(r *Run, fr *Frame, cc *ssa.CallCommon, a []Value) Value {
		p := a[0].(*PtrV)
		k := fmt.Sprintf("pool:%d", p.obj.id)
		if l, _ := r.ghost[k].([]Value); len(l) > 0 {
			v := l[len(l)-1]
			r.ghost[k] = l[:len(l)-1]
			return v
		}
		pt := r.eng.prog.ImportedPackage("sync").Type("Pool").Type()
		sv := r.load(p, lbl("sync.Pool")).(StructV)
		nf, _ := r.force(r.structField(pt, sv, "New")).(*FuncV)
		if nf == nil || nf.fn == nil {
			return &IfaceV{}
		}
		return r.callFn(fr, nf.fn, append([]Value{}, nf.env...), lbl("sync.Pool.New"))
	}
	in["(*sync.Pool).Put"] = func(r *Run, fr *Frame, cc *ssa.CallCommon, a []Value) Value {
		p := a[0].(*PtrV)
		k := fmt.Sprintf("pool:%d", p.obj.id)
		l, _ := r.ghost[k].([]Value)
		r.ghost[k] = append(l, a[1])
		return nil
	}
	in["(*sync.RWMutex).Lock"] = func(r *Run, fr *Frame, cc *ssa.CallCommon, a []Value) Value {
		l := r.lockOf(a[0].(*PtrV))
		r.syncPoint(func() bool { return l.writer == -1 && len(l.readers) == 0 })
		l.writer = r.curID()
		r.vcAcquire(l, false)
		return nil
	}
	in["(*sync.RWMutex).Unlock"] = func(r *Run, fr *Frame, cc *ssa.CallCommon, a []Value) Value {
		l := r.lockOf(a[0].(*PtrV))
		r.vcRelease(l, false)
		l.writer = -1
		return nil
	}
	// zzverif.Yield in a harness: a scheduling point with no synchronisation (a caller that does something else
	// between two steps).  Natively it is the baton's yield, so recorded schedules replay unchanged.
	in[rtPkg+".Yield"] = func(r *Run, fr *Frame, cc *ssa.CallCommon, a []Value) Value {
		if r.sch != nil && r.sch.cur != nil {
			r.syncPoint(func() bool { return true })
		}
		return nil
	}
	in["(*sync.RWMutex).RLock"] = func(r *Run, fr *Frame, cc *ssa.CallCommon, a []Value) Value {
		l := r.lockOf(a[0].(*PtrV))
		r.syncPoint(func() bool { return l.writer == -1 })
		l.readers[r.curID()]++
		r.vcAcquire(l, true)
		return nil
	}
	in["(*sync.RWMutex).RUnlock"] = func(r *Run, fr *Frame, cc *ssa.CallCommon, a []Value) Value {
		l := r.lockOf(a[0].(*PtrV))
		id := r.curID()
		r.vcRelease(l, true)
		l.readers[id]--
		if l.readers[id] <= 0 {
			delete(l.readers, id)
		}
		return nil
	}
}

type threadKilled struct{}

// killThreads terminates the goroutines of threads that are still blocked when a path ends.
func (r *Run) killThreads() {
	s := r.sch
	if s == nil {
		return
	}
	for _, t := range s.threads {
		if !t.done {
			t.resume <- false
			<-s.yield
		}
	}
	s.threads = nil
	s.cur = nil
}

// ---- sync.Map as an association list with symbolic keys ------------------------------------------

var anyType = types.NewInterfaceType(nil, nil)

func (r *Run) syncMapOf(p *PtrV) *MapV {
	if r.syncMaps == nil {
		r.syncMaps = map[string]*MapV{}
	}
	k := lockKey(p)
	m, ok := r.syncMaps[k]
	if !ok {
		r.nextObj++
		m = &MapV{id: r.nextObj, typ: types.NewMap(anyType, anyType)}
		r.syncMaps[k] = m
	}
	return m
}

func (e *Engine) registerSyncMap() {
	in := e.intrinsics
	in["(*sync.Map).Load"] = func(r *Run, fr *Frame, cc *ssa.CallCommon, a []Value) Value {
		v, ok := r.mapLookup(r.syncMapOf(a[0].(*PtrV)), a[1], lbl("sync.Map.Load"))
		return TupleV{v, ok}
	}
	in["(*sync.Map).Store"] = func(r *Run, fr *Frame, cc *ssa.CallCommon, a []Value) Value {
		r.mapUpdate(r.syncMapOf(a[0].(*PtrV)), a[1], a[2])
		return TupleV{}
	}
	in["(*sync.Map).LoadOrStore"] = func(r *Run, fr *Frame, cc *ssa.CallCommon, a []Value) Value {
		m := r.syncMapOf(a[0].(*PtrV))
		v, ok := r.mapLookup(m, a[1], lbl("sync.Map.LoadOrStore"))
		if ok.IsTrue() {
			return TupleV{v, True}
		}
		r.mapUpdate(m, a[1], a[2])
		return TupleV{a[2], False}
	}
	in["(*sync.Map).Delete"] = func(r *Run, fr *Frame, cc *ssa.CallCommon, a []Value) Value {
		m := r.syncMapOf(a[0].(*PtrV))
		m.entries = append(m.entries, MapEntry{k: a[1], del: true})
		return TupleV{}
	}
	in["(*sync.Map).LoadAndDelete"] = func(r *Run, fr *Frame, cc *ssa.CallCommon, a []Value) Value {
		m := r.syncMapOf(a[0].(*PtrV))
		v, ok := r.mapLookup(m, a[1], lbl("sync.Map.LoadAndDelete"))
		m.entries = append(m.entries, MapEntry{k: a[1], del: true})
		return TupleV{v, ok}
	}
	in["(*sync.Map).Range"] = func(r *Run, fr *Frame, cc *ssa.CallCommon, a []Value) Value {
		m := r.syncMapOf(a[0].(*PtrV))
		fv := a[1].(*FuncV)
		for _, e := range r.mapLive(m) {
			res := r.callFn(fr, fv.fn, append([]Value{e.k, copyVal(e.v)}, fv.env...), lbl("sync.Map.Range"))
			if !r.branch(res.(*Term)) {
				break
			}
		}
		return TupleV{}
	}
	// uncontended mutexes outside Par: plain no-ops handled by the lock intrinsics in registerThreads
}

func (e *Engine) registerSyncMisc() {
	in := e.intrinsics
	in["(*sync.Once).Do"] = func(r *Run, fr *Frame, cc *ssa.CallCommon, a []Value) Value {
		if r.onceDone == nil {
			r.onceDone = map[string]bool{}
		}
		k := lockKey(a[0].(*PtrV))
		if r.onceDone[k] {
			return TupleV{}
		}
		r.onceDone[k] = true
		fv := a[1].(*FuncV)
		r.callFn(fr, fv.fn, fv.env, lbl("sync.Once.Do"))
		return TupleV{}
	}
	in["(*sync.Mutex).Lock"] = func(r *Run, fr *Frame, cc *ssa.CallCommon, a []Value) Value {
		l := r.lockOf(a[0].(*PtrV))
		r.syncPoint(func() bool { return l.writer == -1 && len(l.readers) == 0 })
		l.writer = r.curID()
		r.vcAcquire(l, false)
		return TupleV{}
	}
	in["(*sync.Mutex).Unlock"] = func(r *Run, fr *Frame, cc *ssa.CallCommon, a []Value) Value {
		l := r.lockOf(a[0].(*PtrV))
		r.vcRelease(l, false)
		l.writer = -1
		return TupleV{}
	}
}

type bgParked struct{}
