package main

import (
	"fmt"
	"go/constant"
	"go/token"
	"go/types"
	"math/big"
	"strings"
	"sync"
	"time"

	"golang.org/x/tools/go/ssa"
)

// ---- path termination -------------------------------------------------------

type pathEnd struct {
	kind string // "done", "infeasible", "assume", "panic", "engine", "limit", "stop"
	msg  string
}

func endPath(kind, format string, a ...interface{}) {
	panic(pathEnd{kind, fmt.Sprintf(format, a...)})
}

type Decision struct {
	Kind   byte    // 'b' branch, 'c' concretise, 'o' obligation, 's' schedule
	Val    int64   // branch: 0/1 ; concretise: value ; obligation: 0 cannot fail,1 can fail+can pass,2 always fails,3 unknown
	Excl   []int64 // concretise alternatives: choose a value not in Excl (HasVal false)
	HasVal bool
}

type Violation struct {
	Endpoints []EndpointRec
	Schedule []int    // thread ids in the order they were given the baton
	RandInts []string // model values of crypto/rand.Int results, in call order
	Clock  []string // model values of the harness clock readings (ns since year 1)
	Kind   string // "assert", "index", "slice", "nil", "alloc", "panic", "divzero", "typeassert", "unwind", "race", "deadlock"
	Site   string // human readable
	Key    string // stable identity (known findings)
	Msg    string
	Inputs []InputVal
	Path   []Decision
	Stubs  []StubRec
}

// InputVal is one symbolic input with its model value, in creation order.
type InputVal struct {
	Name string `json:"name"`
	W    int    `json:"w"`
	Hex  string `json:"hex"`
}

type Frame struct {
	fn       *ssa.Function
	info     *fnInfo
	env      []Value
	defers   []func()
	prev     *ssa.BasicBlock
	caller   *Frame
	skipPhis bool
	panicking *goPanic // set while the frame's deferred calls run after a panic
}

// goPanic is a Go panic travelling up the interpreted call stack towards a deferred recover().
type goPanic struct {
	val  Value // the panic value (interface)
	kind string
	site Site
	msg  string
}

// fnInfo numbers the SSA values of a function so that frames can use slices instead of maps.
type fnInfo struct {
	idx           map[ssa.Value]int
	n             int
	defersRecover bool // the function defers a call to a function that calls recover()
	hasDefer      bool
}

func (e *Engine) infoOf(fn *ssa.Function) *fnInfo {
	if v, ok := e.fnInfos.Load(fn); ok {
		return v.(*fnInfo)
	}
	fi := &fnInfo{idx: map[ssa.Value]int{}}
	add := func(v ssa.Value) {
		if _, ok := fi.idx[v]; !ok {
			fi.idx[v] = fi.n
			fi.n++
		}
	}
	for _, p := range fn.Params {
		add(p)
	}
	for _, p := range fn.FreeVars {
		add(p)
	}
	for _, b := range fn.Blocks {
		for _, ins := range b.Instrs {
			if v, ok := ins.(ssa.Value); ok {
				add(v)
			}
		}
	}
	for _, b := range fn.Blocks {
		for _, ins := range b.Instrs {
			if d, ok := ins.(*ssa.Defer); ok {
				fi.hasDefer = true
				var callee *ssa.Function
				switch f := d.Call.Value.(type) {
				case *ssa.Function:
					callee = f
				case *ssa.MakeClosure:
					callee, _ = f.Fn.(*ssa.Function)
				}
				if callee != nil && callsRecover(callee) {
					fi.defersRecover = true
				}
			}
		}
	}
	v, _ := e.fnInfos.LoadOrStore(fn, fi)
	return v.(*fnInfo)
}

func callsRecover(fn *ssa.Function) bool {
	for _, b := range fn.Blocks {
		for _, ins := range b.Instrs {
			if c, ok := ins.(ssa.CallInstruction); ok {
				if bi, ok := c.Common().Value.(*ssa.Builtin); ok && bi.Name() == "recover" {
					return true
				}
			}
		}
	}
	return false
}

func (fr *Frame) set(v ssa.Value, x Value) { fr.env[fr.info.idx[v]] = x }

// Site identifies a program point lazily (formatting a position per executed instruction is too slow).
type Site struct {
	fn    *ssa.Function
	ins   ssa.Instruction
	label string
}

func lbl(s string) Site { return Site{label: s} }

func (s Site) String() string {
	if s.ins == nil {
		return s.label
	}
	return siteOf(s.fn, s.ins)
}

// Key is stable under edits elsewhere in the file: failure kind, function, ordinal of the
// instruction among the instructions of the same Go type in its function.
func (s Site) Key(kind string) string {
	if s.ins == nil {
		return kind + "|" + s.label
	}
	n, typ := 0, fmt.Sprintf("%T", s.ins)
outer:
	for _, b := range s.fn.Blocks {
		for _, i := range b.Instrs {
			if i == s.ins {
				break outer
			}
			if fmt.Sprintf("%T", i) == typ {
				n++
			}
		}
	}
	return fmt.Sprintf("%s|%s|%s#%d", kind, s.fn.String(), strings.TrimPrefix(typ, "*ssa."), n)
}

// Run is the execution of one path (one decision vector) of one harness instance.
type Run struct {
	eng        *Engine
	inst       *Instance
	sol        *Solver
	prefix     []Decision
	taken      []Decision
	newWork    [][]Decision
	pc         []*Term
	nextObj    int
	nsym       int
	globals    map[*ssa.Global]*Object
	raceSeen   map[string]bool
	inited     map[*ssa.Package]bool
	viol       []Violation
	unknowns   []string // inconclusive obligations / bounds
	feasUnk    int      // unknown feasibility answers (sound: side kept)
	reach      map[string]bool
	steps      int
	inputs     []*Term
	depth      int
	ghost      map[string]Value
	instrCount map[*ssa.Function]int
	poisoned   []string
	randLog    []*Term
	macApps    []macApp
	injApps    []injApp
	syncMaps   map[string]*MapV
	clockLog   []*Term
	randInts   []*Term
	pairs      []*pairEntry
	epoch      int // network epoch (zzverif.NextEpoch)
	background []*resolvedCall // goroutines started by the code under test (stub set "bgo")
	bgFrames   []*Frame
	bgBudget   int // wake-ups the running background goroutine may still take
	bgActive   bool
	recoverFrames int // active frames that defer a recover()
	secret     map[*Term]bool
	secretList []*Term
	shadow     map[*Term]*Term
	shadowPC   map[int]bool
	leakChecks int
	onceDone   map[string]bool
	curScript  *scripted
	schedLog   []int
	endpoints  []*endpointState
	guard      *Term
	merges     int
	predDepth  int
	sch        *sched
	stubLog    []stubCall
	deadline   time.Time
	oblUnsat   int
	oblSat     int
	concrete   map[string]*big.Int // concrete replay: input name -> value
	samples    []string
}

// Engine holds what is shared by all paths of all instances: the SSA program and intrinsic tables.
type Engine struct {
	prog       *ssa.Program
	intrinsics map[string]intrinsic
	fnInfos    sync.Map
	ipdomMu    sync.Mutex
	ipdom      map[*ssa.BasicBlock]*ssa.BasicBlock
	ipdomDone  map[*ssa.Function]bool
	mergePts   map[*ssa.BasicBlock]*ssa.BasicBlock
	fnByName   map[string]*ssa.Function
	nativeStubs map[string]*stubSpec
}

func (r *Run) addPC(c *Term) {
	if c.IsTrue() {
		return
	}
	r.pc = append(r.pc, c)
	r.sol.Assert(c)
}

func (r *Run) fresh(prefix string, w int) *Term {
	t := Var(fmt.Sprintf("%s_%d", prefix, r.nsym), w)
	r.nsym++
	return t
}

func (r *Run) input(w int) *Term {
	t := Var(fmt.Sprintf("in%d_w%d", len(r.inputs), w), w)
	r.inputs = append(r.inputs, t)
	if r.concrete != nil {
		if v, ok := r.concrete[t.name]; ok {
			return BV(v, w)
		}
		return BVu(0, w)
	}
	return t
}

func (r *Run) model() []InputVal {
	m := make([]InputVal, 0, len(r.inputs))
	for _, t := range r.inputs {
		v := r.sol.Value(t)
		m = append(m, InputVal{Name: t.name, W: t.w, Hex: v.Text(16)})
	}
	return m
}

func (r *Run) report(kind string, site Site, msg string) {
	r.viol = append(r.viol, r.snapshot(kind, site, msg))
}

// snapshot records the current model (inputs, stub results, clock, schedule, endpoints) after a sat Check.
func (r *Run) snapshot(kind string, site Site, msg string) Violation {
	v := Violation{Kind: kind, Site: site.String(), Key: site.Key(kind), Msg: msg, Inputs: r.model(), Path: append([]Decision{}, r.taken...)}
	v.Stubs = r.evalStubLog()
	for _, c := range r.clockLog {
		v.Clock = append(v.Clock, r.sol.Value(c).String())
	}
	v.Schedule = append([]int{}, r.schedLog...)
	v.Endpoints = r.evalEndpoints()
	for _, c := range r.randInts {
		v.RandInts = append(v.RandInts, r.sol.Value(c).String())
	}
	return v
}

// ---- decisions ---------------------------------------------------------------

func (r *Run) branch(c *Term) bool {
	if c.IsTrue() {
		return true
	}
	if c.IsFalse() {
		return false
	}
	i := len(r.taken)
	if i < len(r.prefix) {
		d := r.prefix[i]
		if d.Kind != 'b' {
			endPath("engine", "decision vector mismatch at %d: want b got %c", i, d.Kind)
		}
		r.taken = append(r.taken, d)
		if d.Val == 1 {
			r.addPC(c)
			return true
		}
		r.addPC(Not(c))
		return false
	}
	rt := r.sol.CheckWith(c)
	var rf string
	if rt == "unsat" {
		rf = "sat"
	} else {
		rf = r.sol.CheckWith(Not(c))
	}
	if rt == "unknown" || rf == "unknown" {
		r.feasUnk++
	}
	ft, ff := rt != "unsat", rf != "unsat"
	switch {
	case ft && ff:
		alt := append(append([]Decision{}, r.taken...), Decision{Kind: 'b', Val: 0})
		r.newWork = append(r.newWork, alt)
		r.taken = append(r.taken, Decision{Kind: 'b', Val: 1})
		r.addPC(c)
		return true
	case ft:
		r.taken = append(r.taken, Decision{Kind: 'b', Val: 1})
		r.addPC(c)
		return true
	case ff:
		r.taken = append(r.taken, Decision{Kind: 'b', Val: 0})
		r.addPC(Not(c))
		return false
	}
	endPath("infeasible", "both sides infeasible")
	return false
}

// concretise returns a concrete value for t (signed interpretation), forking over all feasible values.
func (r *Run) concretise(t *Term, what string) int64 {
	if t.IsConst() {
		return t.Int()
	}
	i := len(r.taken)
	var excl []int64
	if i < len(r.prefix) {
		d := r.prefix[i]
		if d.Kind != 'c' {
			endPath("engine", "decision vector mismatch at %d: want c got %c", i, d.Kind)
		}
		if d.HasVal {
			r.taken = append(r.taken, d)
			r.addPC(Eq(t, BVi(d.Val, t.w)))
			return d.Val
		}
		excl = d.Excl
	}
	if len(excl) >= r.inst.MaxConc {
		r.unknowns = append(r.unknowns, "concretisation bound for "+what)
		endPath("limit", "concretisation bound (%d values) for %s", len(excl), what)
	}
	r.sol.Push()
	for _, e := range excl {
		r.sol.Assert(Not(Eq(t, BVi(e, t.w))))
	}
	res := r.sol.Check()
	if res != "sat" {
		r.sol.Pop()
		if res == "unknown" {
			r.unknowns = append(r.unknowns, "concretise "+what)
		}
		endPath("infeasible", "no more values for %s", what)
	}
	v := r.sol.Value(t)
	val := BV(v, t.w).Int()
	// is there another value at all?  (saves re-executing the whole prefix only to find that there is none)
	r.sol.Assert(Not(Eq(t, BVi(val, t.w))))
	more := r.sol.Check() != "unsat"
	r.sol.Pop()
	if more {
		alt := append(append([]Decision{}, r.taken...), Decision{Kind: 'c', Excl: append(append([]int64{}, excl...), val)})
		r.newWork = append(r.newWork, alt)
	}
	r.taken = append(r.taken, Decision{Kind: 'c', Val: val, HasVal: true})
	r.addPC(Eq(t, BVi(val, t.w)))
	return val
}

// mustNot checks that fail cannot hold on this path; records a violation if it can; continues with ¬fail.
func (r *Run) mustNot(fail *Term, kind string, site Site, msg string) {
	if r.guard != nil && !r.guard.IsTrue() {
		fail = And(r.guard, fail)
	}
	if fail.IsFalse() {
		return
	}
	if r.recoverFrames > 0 && kind != "assert" && kind != "unwind" && kind != "alloc" && kind != "race" && kind != "deadlock" {
		// a run-time panic below a function that defers recover(): it travels up as a Go panic; if nothing
		// recovers it, it is reported where the path ends (see runPath)
		if r.branch(fail) {
			panic(&goPanic{val: &IfaceV{t: runtimeErrType, v: concStr("runtime error: " + msg)}, kind: kind, site: site, msg: msg})
		}
		return
	}
	if r.inst.OnlyAsserts && kind != "assert" {
		// this instance is about the harness's assertions only: a run-time panic ends the path quietly
		// (the panics themselves are another property's subject)
		if r.branch(fail) {
			endPath("panic", "%s at %s (not this instance's subject)", kind, site)
		}
		return
	}
	i := len(r.taken)
	if i < len(r.prefix) && !fail.IsTrue() {
		d := r.prefix[i]
		if d.Kind != 'o' {
			endPath("engine", "decision vector mismatch at %d: want o got %c", i, d.Kind)
		}
		r.taken = append(r.taken, d)
		switch d.Val {
		case 2:
			endPath("panic", "%s at %s (reported on first visit)", kind, site)
		default:
			r.addPC(Not(fail))
		}
		return
	}
	if fail.IsTrue() {
		// definite failure on this path; report once (when the path is first completed beyond its prefix)
		if len(r.taken) >= len(r.prefix) {
			if r.sol.Check() == "sat" {
				r.oblSat++
				r.report(kind, site, msg)
			}
		}
		endPath("panic", "%s at %s", kind, site)
	}
	r.sol.Push()
	r.sol.Assert(fail)
	res := r.sol.Check()
	out := int64(0)
	if res == "sat" {
		r.oblSat++
		r.report(kind, site, msg)
		out = 1
	} else if res == "unknown" {
		r.unknowns = append(r.unknowns, kind+" at "+site.String())
		out = 3
	} else {
		r.oblUnsat++
		if len(r.samples) < 3 {
			r.samples = append(r.samples, fmt.Sprintf("%s at %s: unsat", kind, site))
		}
	}
	r.sol.Pop()
	if out == 1 {
		if r.sol.CheckWith(Not(fail)) == "unsat" {
			r.taken = append(r.taken, Decision{Kind: 'o', Val: 2})
			endPath("panic", "%s at %s (always)", kind, site)
		}
	}
	r.taken = append(r.taken, Decision{Kind: 'o', Val: out})
	r.addPC(Not(fail))
}

// ---- memory ---------------------------------------------------------------------

func (r *Run) newObj(t types.Type, v Value, name string) *Object {
	r.nextObj++
	return &Object{id: r.nextObj, typ: t, val: v, name: name, born: r.guard}
}

func idxConst(t *Term) (int, bool) {
	if t.IsConst() {
		return int(t.Int()), true
	}
	return 0, false
}

func (r *Run) load(p *PtrV, site Site) Value {
	if p.obj == nil {
		r.mustNot(True, "nil", site, "nil pointer dereference")
	}
	if r.sch != nil && r.sch.cur != nil {
		r.access(cellKey(p), false, site)
	}
	return copyVal(r.loadPath(r.force(&p.obj.val), p.path, site))
}

func (r *Run) loadPath(v Value, path []PathElem, site Site) Value {
	if len(path) == 0 {
		return v
	}
	e := path[0]
	if e.idx == nil {
		return r.loadPath(r.force(&v.(StructV)[e.field]), path[1:], site)
	}
	arr := v.(ArrayV)
	if i, ok := idxConst(e.idx); ok {
		if i < 0 || i >= len(arr) {
			endPath("engine", "array index %d out of range %d at %s", i, len(arr), site)
		}
		return r.loadPath(r.force(&arr[i]), path[1:], site)
	}
	for i := range arr {
		r.force(&arr[i])
	}
	// symbolic index: ite chain over scalar leaves, else concretise
	if len(arr) > 0 {
		if _, scalar := r.loadPath(arr[0], path[1:], site).(*Term); scalar && len(arr) <= 4096 {
			var res *Term
			for i := len(arr) - 1; i >= 0; i-- {
				ev := r.loadPath(arr[i], path[1:], site).(*Term)
				if res == nil {
					res = ev
				} else {
					res = Ite(Eq(e.idx, BVi(int64(i), e.idx.w)), ev, res)
				}
			}
			return res
		}
	}
	i := r.concretise(e.idx, "index at "+site.String())
	return r.loadPath(arr[i], path[1:], site)
}

func (r *Run) store(p *PtrV, v Value, site Site) {
	if p.obj == nil {
		r.mustNot(True, "nil", site, "nil pointer dereference (store)")
	}
	if r.sch != nil && r.sch.cur != nil {
		r.access(cellKey(p), true, site)
	}
	v = copyVal(v)
	g := True
	if r.guard != nil {
		g = r.guard
	}
	if p.obj.born == r.guard {
		g = True // object allocated under the current guard: invisible outside it
	}
	if len(p.path) == 0 && g.IsTrue() {
		p.obj.val = v
		return
	}
	r.storePath(&p.obj.val, p.path, v, g, site)
}

func (r *Run) storePath(slot *Value, path []PathElem, v Value, guard *Term, site Site) {
	if len(path) == 0 {
		if guard.IsTrue() {
			*slot = v
			return
		}
		*slot = r.mergeVal(guard, v, r.force(slot), site)
		return
	}
	e := path[0]
	r.force(slot)
	if e.idx == nil {
		s := (*slot).(StructV)
		r.storePath(&s[e.field], path[1:], v, guard, site)
		return
	}
	arr := (*slot).(ArrayV)
	if i, ok := idxConst(e.idx); ok {
		if i < 0 || i >= len(arr) {
			endPath("engine", "array index %d out of range %d at %s", i, len(arr), site)
		}
		r.storePath(&arr[i], path[1:], v, guard, site)
		return
	}
	if _, scalar := v.(*Term); scalar && len(arr) <= 1024 {
		for i := range arr {
			r.storePath(&arr[i], path[1:], v, And(guard, Eq(e.idx, BVi(int64(i), e.idx.w))), site)
		}
		return
	}
	i := r.concretise(e.idx, "index at "+site.String())
	r.storePath(&arr[i], path[1:], v, guard, site)
}

// ---- constants ---------------------------------------------------------------------

func (r *Run) constValue(c *ssa.Const) Value {
	t := c.Type()
	if c.Value == nil {
		return zeroValue(t)
	}
	switch u := t.Underlying().(type) {
	case *types.Basic:
		switch {
		case u.Info()&types.IsBoolean != 0:
			return Bool(constant.BoolVal(c.Value))
		case u.Info()&types.IsInteger != 0:
			v := constant.ToInt(c.Value)
			if i, ok := constant.Int64Val(v); ok {
				return BVi(i, widthOf(t))
			}
			if i, ok := constant.Uint64Val(v); ok {
				return BVu(i, widthOf(t))
			}
			bi, _ := new(big.Int).SetString(v.ExactString(), 10)
			return BV(bi, widthOf(t))
		case u.Info()&types.IsString != 0:
			return concStr(constant.StringVal(c.Value))
		case u.Info()&types.IsFloat != 0:
			return BVu(0, 64)
		}
	}
	panic(fmt.Sprintf("constValue: %v %v", c, t))
}

func (r *Run) get(fr *Frame, v ssa.Value) Value {
	switch x := v.(type) {
	case *ssa.Const:
		return r.constValue(x)
	case *ssa.Global:
		return &PtrV{obj: r.global(x)}
	case *ssa.Function:
		return &FuncV{fn: x}
	case *ssa.Builtin:
		endPath("engine", "builtin %s used as value", x.Name())
	}
	i, ok := fr.info.idx[v]
	if !ok || fr.env[i] == nil {
		endPath("engine", "no value for %s in %s", v.Name(), fr.fn)
	}
	return fr.env[i]
}

func (r *Run) global(g *ssa.Global) *Object {
	if o, ok := r.globals[g]; ok {
		return o
	}
	// lazily run package init (concretely) the first time a global of the package is touched
	pkg := g.Pkg
	et := g.Type().(*types.Pointer).Elem()
	o := r.newObj(et, zeroValue(et), g.String())
	o.born = nil
	r.globals[g] = o
	if g.String() == "crypto/rand.Reader" {
		// the package's init is not run (it reaches into the operating system): Reader is the package's own reader,
		// whose Read is the same source of arbitrary bytes as rand.Read (crypto.go)
		if tn := pkg.Type("reader"); tn != nil {
			o.val = &IfaceV{t: types.NewPointer(tn.Type()), v: &PtrV{obj: r.newObj(tn.Type(), zeroValue(tn.Type()), "rand.reader")}}
		}
	}
	if !r.inited[pkg] {
		r.inited[pkg] = true
		if init := pkg.Func("init"); init != nil && !skipInit[pkg.Pkg.Path()] {
			func() {
				sg, sd := r.guard, r.depth
				r.guard = nil
				defer func() {
					r.guard = sg
					if e := recover(); e != nil {
						if pe, ok := e.(pathEnd); ok && pe.kind != "engine" {
							panic(e)
						}
						if _, ok := e.(solverDied); ok {
							panic(e)
						}
						if verbose {
							fmt.Printf("  [init of %s incomplete: %v]\n", pkg.Pkg.Path(), e)
						}
						r.depth = sd
						return
					}
				}()
				r.callFn(nil, init, nil, lbl("init"))
			}()
		}
	}
	return o
}

var skipInit = map[string]bool{"runtime": true, "os": true, "syscall": true, "net": true, "net/http": true, "reflect": true, "fmt": true, "sync": true, "log": true,
	"crypto/rand": true, "math/rand": true, "internal/godebug": true, "internal/cpu": true, "crypto/internal/boring": true}
var verbose = false

// ---- calls --------------------------------------------------------------------------

func (r *Run) callFn(caller *Frame, fn *ssa.Function, args []Value, site Site) Value {
	if in, ok := r.lookupIntrinsic(fn.String()); ok {
		return in(r, caller, nil, args)
	}
	return r.callReal(caller, fn, args, site)
}

// callReal executes the function's own SSA body (no intrinsic, no summary).
func (r *Run) callReal(caller *Frame, fn *ssa.Function, args []Value, site Site) Value {
	if fn.Blocks == nil {
		endPath("engine", "no body: %s (called at %s)", fn, site)
	}
	r.depth++
	if r.depth > 300 {
		endPath("limit", "call depth")
	}
	fi := r.eng.infoOf(fn)
	fr := &Frame{fn: fn, info: fi, env: make([]Value, fi.n), caller: caller}
	for i, p := range fn.Params {
		fr.env[fi.idx[p]] = args[i]
	}
	for i, fv := range fn.FreeVars {
		fr.env[fi.idx[fv]] = args[len(fn.Params)+i]
	}
	if fi.defersRecover || (r.recoverFrames > 0 && fi.hasDefer) {
		return r.callFnRecovering(fr, fn, site)
	}
	return r.runBody(fr, fn, fn.Blocks[0])
}

// callFnRecovering runs a function that defers a recover(): a panic raised below it (explicit, or an
// implicit run-time panic, which mustNot turns into a goPanic while recoverFrames > 0) runs the deferred
// calls; if one of them recovers, execution continues at the function's Recover block (named results).
func (r *Run) callFnRecovering(fr *Frame, fn *ssa.Function, site Site) Value {
	r.recoverFrames++
	depth := r.depth
	var ret Value
	pan := func() (p *goPanic) {
		defer func() {
			if e := recover(); e != nil {
				gp, ok := e.(*goPanic)
				if !ok {
					panic(e)
				}
				p = gp
			}
		}()
		ret = r.runBody(fr, fn, fn.Blocks[0])
		return nil
	}()
	r.recoverFrames--
	if pan == nil {
		return ret
	}
	r.depth = depth
	fr.panicking = pan
	r.runDefers(fr)
	if fr.panicking != nil {
		r.depth--
		panic(pan) // not recovered here: keeps travelling
	}
	if fn.Recover == nil {
		res := fn.Signature.Results()
		if res.Len() == 0 {
			r.depth--
			return nil
		}
		tv := make(TupleV, res.Len())
		for i := range tv {
			tv[i] = zeroValue(res.At(i).Type())
		}
		r.depth--
		if len(tv) == 1 {
			return tv[0]
		}
		return tv
	}
	return r.runBody(fr, fn, fn.Recover)
}

func (r *Run) runBody(fr *Frame, fn *ssa.Function, b *ssa.BasicBlock) Value {
	var ret Value
	var visits map[*ssa.BasicBlock]int
	isInit := fn.Name() == "init" && fn.Synthetic != ""
	counted := 0
blocks:
	for {
		if len(b.Preds) > 1 { // only join points can be loop heads
			if visits == nil {
				visits = map[*ssa.BasicBlock]int{}
			}
			visits[b]++
			if visits[b] > r.inst.Unwind {
				if r.sol.Check() == "sat" {
					r.report("unwind", Site{fn: fn, ins: b.Instrs[0]}, "unwinding bound reached")
				}
				r.unknowns = append(r.unknowns, fmt.Sprintf("unwind bound in %s block %d", fn, b.Index))
				endPath("limit", "unwind bound in %s block %d", fn, b.Index)
			}
		}
		r.steps += len(b.Instrs)
		counted += len(b.Instrs)
		if r.steps > r.inst.MaxSteps {
			r.unknowns = append(r.unknowns, "step limit")
			endPath("limit", "step limit")
		}
		for _, ins := range b.Instrs {
			if fr.skipPhis {
				if _, isPhi := ins.(*ssa.Phi); isPhi {
					continue
				}
				fr.skipPhis = false
			}
			switch x := ins.(type) {
			case *ssa.Jump:
				fr.prev = b
				b = b.Succs[0]
				continue blocks
			case *ssa.If:
				c := r.get(fr, x.Cond).(*Term)
				if !c.IsConst() && r.inst.mergeFns[fn.String()] {
					if j := r.eng.mergePoint(b); j != nil {
						r.predicate(fr, b, c, j)
						b = j
						fr.skipPhis = true
						continue blocks
					}
				}
				fr.prev = b
				if r.branch(c) {
					b = b.Succs[0]
				} else {
					b = b.Succs[1]
				}
				continue blocks
			case *ssa.Return:
				switch len(x.Results) {
				case 0:
				case 1:
					ret = r.get(fr, x.Results[0])
				default:
					tv := make(TupleV, len(x.Results))
					for i, rv := range x.Results {
						tv[i] = r.get(fr, rv)
					}
					ret = tv
				}
				break blocks
			case *ssa.Panic:
				v := r.get(fr, x.X)
				if r.recoverFrames > 0 {
					panic(&goPanic{val: v, kind: "panic", site: Site{fn: fn, ins: ins}, msg: "explicit panic: " + describe(v)})
				}
				r.mustNot(True, "panic", Site{fn: fn, ins: ins}, "explicit panic: "+describe(v))
			case *ssa.RunDefers:
				r.runDefers(fr)
			default:
				if isInit {
					r.execInit(fr, ins)
				} else {
					r.exec(fr, ins)
				}
			}
		}
		endPath("engine", "fell off block")
	}
	r.instrCount[fn] += counted
	r.depth--
	return ret
}

// execInit executes one instruction of a synthetic package initialiser: calls to other packages'
// init functions and to declared init#N functions are skipped; an instruction the engine cannot
// execute is skipped (the global it would have set keeps its zero value and is recorded as poisoned).
func (r *Run) execInit(fr *Frame, ins ssa.Instruction) {
	if c, ok := ins.(*ssa.Call); ok {
		if f := c.Call.StaticCallee(); f != nil {
			if f.Name() == "init" && f.Pkg != fr.fn.Pkg {
				return
			}
			if strings.HasPrefix(f.Name(), "init#") {
				return
			}
		}
	}
	d := r.depth
	defer func() {
		if e := recover(); e != nil {
			if pe, ok := e.(pathEnd); ok && pe.kind != "engine" && pe.kind != "limit" {
				panic(e)
			}
			if _, ok := e.(solverDied); ok {
				panic(e)
			}
			r.depth = d
			r.poisoned = append(r.poisoned, fmt.Sprintf("%s: %v", fr.fn.Pkg.Pkg.Path(), e))
			if v, ok := ins.(ssa.Value); ok {
				if fr.env[fr.info.idx[v]] == nil {
					func() {
						defer func() { recover() }()
						fr.set(v, zeroValue(v.Type()))
					}()
				}
			}
		}
	}()
	r.exec(fr, ins)
}

func (r *Run) runDefers(fr *Frame) {
	for len(fr.defers) > 0 {
		d := fr.defers[len(fr.defers)-1]
		fr.defers = fr.defers[:len(fr.defers)-1]
		d()
	}
}

func describe(v Value) string {
	switch x := v.(type) {
	case *IfaceV:
		if x.t == nil {
			return "nil"
		}
		if s, ok := x.v.(*StrV); ok {
			if cs, ok := s.Concrete(); ok {
				return cs
			}
		}
		return x.t.String()
	}
	return fmt.Sprintf("%T", v)
}

func siteOf(fn *ssa.Function, ins ssa.Instruction) string {
	pos := ins.Pos()
	if !pos.IsValid() {
		// fall back to the closest instruction of the block that has a position
		blk := ins.Block()
		if blk != nil {
			for _, o := range blk.Instrs {
				if o.Pos().IsValid() {
					pos = o.Pos()
					if o == ins {
						break
					}
				}
			}
		}
	}
	p := fn.Prog.Fset.Position(pos)
	f := p.Filename
	if i := strings.LastIndex(f, "/"); i >= 0 {
		f = f[i+1:]
	}
	return fmt.Sprintf("%s@%s:%d", fn.String(), f, p.Line)
}

// resolved call: callee and evaluated operands
type resolvedCall struct {
	cc   *ssa.CallCommon
	recv Value   // invoke receiver (IfaceV)
	fv   Value   // dynamic function value (FuncV) when not static
	args []Value // evaluated cc.Args
}

func (r *Run) resolveCall(fr *Frame, cc *ssa.CallCommon) *resolvedCall {
	rc := &resolvedCall{cc: cc}
	if cc.IsInvoke() {
		rc.recv = r.get(fr, cc.Value)
	} else {
		switch cc.Value.(type) {
		case *ssa.Builtin, *ssa.Function:
		default:
			rc.fv = r.get(fr, cc.Value)
		}
	}
	rc.args = make([]Value, len(cc.Args))
	for i, a := range cc.Args {
		rc.args[i] = r.get(fr, a)
	}
	return rc
}

func (r *Run) callCommon(fr *Frame, cc *ssa.CallCommon, site Site) Value {
	return r.invoke(fr, r.resolveCall(fr, cc), site)
}

func (r *Run) invoke(fr *Frame, rc *resolvedCall, site Site) Value {
	cc := rc.cc
	if cc.IsInvoke() {
		recv := rc.recv.(*IfaceV)
		if recv.t == nil {
			r.mustNot(True, "nil", site, "invoke on nil interface "+cc.Method.Name())
		}
		args := append([]Value{recv.v}, rc.args...)
		// intrinsic object types (modelled std objects) dispatch by type name
		if key, ok := intrinsicMethodKey(recv.t, cc.Method.Name()); ok {
			if in, ok := r.lookupIntrinsic(key); ok {
				return in(r, fr, cc, args)
			}
		}
		ms := r.eng.prog.MethodSets.MethodSet(recv.t)
		sel := ms.Lookup(cc.Method.Pkg(), cc.Method.Name())
		if sel == nil {
			endPath("engine", "method %s not found on %v", cc.Method.Name(), recv.t)
		}
		fn := r.eng.prog.MethodValue(sel)
		if fn == nil {
			endPath("engine", "no method value %s on %v", cc.Method.Name(), recv.t)
		}
		return r.callFn(fr, fn, args, site)
	}
	switch f := cc.Value.(type) {
	case *ssa.Builtin:
		return r.builtin(fr, f, cc, rc.args, site)
	case *ssa.Function:
		if in, ok := r.lookupIntrinsic(f.String()); ok {
			return in(r, fr, cc, rc.args)
		}
		return r.callFn(fr, f, rc.args, site)
	}
	fv := rc.fv.(*FuncV)
	if fv.fn == nil && fv.ext == "" {
		r.mustNot(True, "nil", site, "call of nil func")
	}
	if fv.ext != "" {
		in, ok := r.lookupIntrinsic(fv.ext)
		if !ok {
			endPath("engine", "no intrinsic for func value %s", fv.ext)
		}
		return in(r, fr, cc, append(append([]Value{}, fv.env...), rc.args...))
	}
	return r.callFn(fr, fv.fn, append(append([]Value{}, rc.args...), fv.env...), site)
}

func intrinsicMethodKey(t types.Type, m string) (string, bool) {
	s := t.String()
	if strings.HasPrefix(s, "*gosym.") || strings.HasPrefix(s, "gosym.") {
		return s + "." + m, true
	}
	return "", false
}

// ---- instruction execution ----------------------------------------------------------

func (r *Run) exec(fr *Frame, ins ssa.Instruction) {
	site := Site{fn: fr.fn, ins: ins}
	switch x := ins.(type) {
	case *ssa.DebugRef:
	case *ssa.Alloc:
		et := x.Type().(*types.Pointer).Elem()
		fr.set(x, &PtrV{obj: r.newObj(et, zeroValue(et), x.Comment)})
	case *ssa.Store:
		r.store(r.get(fr, x.Addr).(*PtrV), r.get(fr, x.Val), site)
	case *ssa.UnOp:
		fr.set(x, r.unop(fr, x, site))
	case *ssa.BinOp:
		fr.set(x, r.binop(x.Op, x.X.Type(), r.get(fr, x.X), r.get(fr, x.Y), x.Y.Type(), site))
	case *ssa.Phi:
		for i, p := range x.Block().Preds {
			if p == fr.prev {
				fr.set(x, r.get(fr, x.Edges[i]))
				return
			}
		}
		endPath("engine", "phi: no matching predecessor")
	case *ssa.Call:
		v := r.callCommon(fr, &x.Call, site)
		if v == nil {
			v = TupleV{}
		}
		fr.set(x, v)
	case *ssa.Defer:
		rc := r.resolveCall(fr, &x.Call)
		fr.defers = append(fr.defers, func() { r.invoke(fr, rc, site) })
	case *ssa.Go:
		// background goroutines are not started by themselves; with stub set "bgo" they are recorded and the
		// harness runs them step by step (zzverif.Background): each runs until it sleeps
		if r.inst.stubSet["bgo"] {
			r.background = append(r.background, r.resolveCall(fr, &x.Call))
			r.bgFrames = append(r.bgFrames, fr)
		}
	case *ssa.MakeInterface:
		fr.set(x, &IfaceV{t: x.X.Type(), v: r.get(fr, x.X)})
	case *ssa.ChangeInterface:
		fr.set(x, r.get(fr, x.X))
	case *ssa.ChangeType:
		fr.set(x, r.get(fr, x.X))
	case *ssa.Convert:
		fr.set(x, r.convert(x.X.Type(), x.Type(), r.get(fr, x.X), site))
	case *ssa.MakeClosure:
		fv := &FuncV{fn: x.Fn.(*ssa.Function)}
		for _, b := range x.Bindings {
			fv.env = append(fv.env, r.get(fr, b))
		}
		fr.set(x, fv)
	case *ssa.Extract:
		fr.set(x, r.get(fr, x.Tuple).(TupleV)[x.Index])
	case *ssa.Field:
		sv := r.get(fr, x.X).(StructV)
		fr.set(x, copyVal(r.force(&sv[x.Field])))
	case *ssa.FieldAddr:
		p := r.get(fr, x.X).(*PtrV)
		if p.obj == nil {
			r.mustNot(True, "nil", site, "field address of nil pointer")
		}
		np := &PtrV{obj: p.obj, path: append(append(make([]PathElem, 0, len(p.path)+1), p.path...), PathElem{field: x.Field})}
		fr.set(x, np)
	case *ssa.Index:
		xv := r.get(fr, x.X)
		idx := r.toInt64(r.get(fr, x.Index).(*Term), x.Index.Type())
		switch a := xv.(type) {
		case ArrayV:
			r.boundsCheck(idx, len(a), site)
			tmp := r.newObj(x.X.Type(), a, "tmpidx")
			fr.set(x, r.load(&PtrV{obj: tmp, path: []PathElem{{idx: idx}}}, site))
		case *StrV:
			fr.set(x, r.strIndex(a, idx, site))
		default:
			endPath("engine", "Index on %T", xv)
		}
	case *ssa.IndexAddr:
		xv := r.get(fr, x.X)
		idx := r.toInt64(r.get(fr, x.Index).(*Term), x.Index.Type())
		switch a := xv.(type) {
		case *SliceV:
			r.boundsCheck(idx, a.len, site)
			fr.set(x, &PtrV{obj: a.arr, path: append(append(make([]PathElem, 0, len(a.base)+1), a.base...), PathElem{idx: Add(idx, BVi(int64(a.off), 64))})})
		case *PtrV: // pointer to array
			if a.obj == nil {
				r.mustNot(True, "nil", site, "index of nil array pointer")
			}
			n := int(x.X.Type().Underlying().(*types.Pointer).Elem().Underlying().(*types.Array).Len())
			r.boundsCheck(idx, n, site)
			fr.set(x, &PtrV{obj: a.obj, path: append(append(make([]PathElem, 0, len(a.path)+1), a.path...), PathElem{idx: idx})})
		default:
			endPath("engine", "IndexAddr on %T", xv)
		}
	case *ssa.Lookup:
		xv := r.get(fr, x.X)
		switch a := xv.(type) {
		case *StrV:
			idx := r.toInt64(r.get(fr, x.Index).(*Term), x.Index.Type())
			fr.set(x, r.strIndex(a, idx, site))
		case *MapV:
			if r.sch != nil && r.sch.cur != nil {
				r.access(fmt.Sprintf("map%d", a.id), false, site)
			}
			v, ok := r.mapLookup(a, r.get(fr, x.Index), site)
			if x.CommaOk {
				fr.set(x, TupleV{v, ok})
			} else {
				fr.set(x, v)
			}
		default:
			endPath("engine", "Lookup on %T", xv)
		}
	case *ssa.Slice:
		fr.set(x, r.sliceOp(fr, x, site))
	case *ssa.MakeSlice:
		et := x.Type().Underlying().(*types.Slice).Elem()
		lt := r.toInt64(r.get(fr, x.Len).(*Term), x.Len.Type())
		ct := r.toInt64(r.get(fr, x.Cap).(*Term), x.Cap.Type())
		r.mustNot(Or(SLt(lt, BVi(0, 64)), SLt(ct, lt)), "alloc", site, "makeslice: len out of range")
		r.mustNot(SLt(BVi(int64(r.inst.AllocLimit), 64), ct), "alloc", site, "makeslice: allocation out of proportion to input")
		n := int(r.concretise(lt, "make len at "+site.String()))
		c := int(r.concretise(ct, "make cap at "+site.String()))
		fr.set(x, r.makeSlice(et, n, c))
	case *ssa.MakeChan:
		// minimal channels: a buffer; a send that would block has no modelled receiver
		n := int(r.concretise(r.toInt64(r.get(fr, x.Size).(*Term), x.Size.Type()), "chan size"))
		fr.set(x, &PtrV{obj: r.newObj(types.Typ[types.Int], &ChanV{cap: n}, "chan")})
	case *ssa.Send:
		cv := r.get(fr, x.Chan).(*PtrV)
		if cv.obj == nil {
			endPath("engine", "send on nil channel (blocks forever)")
		}
		ch := cv.obj.val.(*ChanV)
		if len(ch.buf) >= ch.cap {
			endPath("engine", "send on a full/unbuffered channel: no receiver is modelled")
		}
		ch.buf = append(ch.buf, r.get(fr, x.X))
	case *ssa.MakeMap:
		r.nextObj++
		fr.set(x, &MapV{id: r.nextObj, typ: x.Type().Underlying().(*types.Map)})
	case *ssa.MapUpdate:
		m := r.get(fr, x.Map).(*MapV)
		if m.isNil {
			r.mustNot(True, "nil", site, "assignment to entry in nil map")
		}
		if r.sch != nil && r.sch.cur != nil {
			r.access(fmt.Sprintf("map%d", m.id), true, site)
		}
		r.mapUpdate(m, r.get(fr, x.Key), r.get(fr, x.Value))
	case *ssa.TypeAssert:
		fr.set(x, r.typeAssert(x, r.get(fr, x.X).(*IfaceV), site))
	case *ssa.Range:
		fr.set(x, r.rangeInit(r.get(fr, x.X), site))
	case *ssa.Next:
		fr.set(x, r.rangeNext(r.get(fr, x.Iter).(*iterV), x.IsString, site))
	case *ssa.SliceToArrayPointer:
		s := r.get(fr, x.X).(*SliceV)
		n := int(x.Type().Underlying().(*types.Pointer).Elem().Underlying().(*types.Array).Len())
		if s.len < n {
			r.mustNot(True, "slice", site, "slice to array pointer: too short")
		}
		if s.off != 0 || len(s.base) != 0 || len(elemsOf(s)) != n {
			endPath("engine", "SliceToArrayPointer view unsupported")
		}
		fr.set(x, &PtrV{obj: s.arr})
	default:
		endPath("engine", "unsupported instruction %T in %s", ins, fr.fn)
	}
}

func (r *Run) toInt64(t *Term, typ types.Type) *Term {
	if t.w == 64 {
		return t
	}
	if isSigned(typ) {
		return SExt(t, 64)
	}
	return ZExt(t, 64)
}

func (r *Run) boundsCheck(idx *Term, n int, site Site) {
	r.mustNot(Not(ULt(idx, BVi(int64(n), 64))), "index", site, fmt.Sprintf("index out of range (len %d)", n))
}

func (r *Run) strIndex(s *StrV, idx *Term, site Site) Value {
	if s.opaque != nil {
		endPath("engine", "index of opaque string at %s", site)
	}
	r.boundsCheck(idx, len(s.b), site)
	if i, ok := idxConst(idx); ok {
		return s.b[i]
	}
	var res *Term
	for i := len(s.b) - 1; i >= 0; i-- {
		if res == nil {
			res = s.b[i]
		} else {
			res = Ite(Eq(idx, BVi(int64(i), 64)), s.b[i], res)
		}
	}
	return res
}

func (r *Run) makeSlice(et types.Type, n, c int) *SliceV {
	arr := make(ArrayV, c)
	z := zeroValue(et)
	for i := range arr {
		arr[i] = copyVal(z)
	}
	o := r.newObj(types.NewArray(et, int64(c)), arr, "makeslice")
	return &SliceV{arr: o, off: 0, len: n, cap: c}
}

// elems returns the backing array of a slice value (after navigating its base path).
func (r *Run) elems(s *SliceV) ArrayV {
	if s.arr == nil {
		return nil
	}
	v := r.force(&s.arr.val)
	for _, e := range s.base {
		if e.idx == nil {
			v = r.force(&v.(StructV)[e.field])
		} else {
			v = r.force(&v.(ArrayV)[int(e.idx.Int())])
		}
	}
	return v.(ArrayV)
}

func (r *Run) sliceOp(fr *Frame, x *ssa.Slice, site Site) Value {
	xv := r.get(fr, x.X)
	var length, capacity int
	switch a := xv.(type) {
	case *SliceV:
		length, capacity = a.len, a.cap
	case *StrV:
		if a.opaque != nil {
			endPath("engine", "slice of opaque string")
		}
		length, capacity = len(a.b), len(a.b)
	case *PtrV:
		if a.obj == nil {
			r.mustNot(True, "nil", site, "slice of nil array pointer")
		}
		n := int(x.X.Type().Underlying().(*types.Pointer).Elem().Underlying().(*types.Array).Len())
		length, capacity = n, n
	default:
		endPath("engine", "Slice on %T", xv)
	}
	lo, hi, mx := BVi(0, 64), BVi(int64(length), 64), BVi(int64(capacity), 64)
	if x.Low != nil {
		lo = r.toInt64(r.get(fr, x.Low).(*Term), x.Low.Type())
	}
	if x.High != nil {
		hi = r.toInt64(r.get(fr, x.High).(*Term), x.High.Type())
	}
	if x.Max != nil {
		mx = r.toInt64(r.get(fr, x.Max).(*Term), x.Max.Type())
	}
	capT := BVi(int64(capacity), 64)
	// 0 <= lo <= hi <= max <= cap   (unsigned compare catches negatives)
	bad := Or(Or(Not(ULe(mx, capT)), Not(ULe(hi, mx))), Not(ULe(lo, hi)))
	if _, isStr := xv.(*StrV); isStr {
		bad = Or(Not(ULe(hi, BVi(int64(length), 64))), Not(ULe(lo, hi)))
	}
	r.mustNot(bad, "slice", site, fmt.Sprintf("slice bounds out of range (len %d cap %d)", length, capacity))
	l := int(r.concretise(lo, "slice low at "+site.String()))
	h := int(r.concretise(hi, "slice high at "+site.String()))
	m := capacity
	if x.Max != nil {
		m = int(r.concretise(mx, "slice max at "+site.String()))
	}
	switch a := xv.(type) {
	case *SliceV:
		if a.arr == nil {
			return &SliceV{}
		}
		return &SliceV{arr: a.arr, base: a.base, off: a.off + l, len: h - l, cap: m - l}
	case *StrV:
		return &StrV{b: a.b[l:h]}
	case *PtrV:
		for _, e := range a.path {
			if e.idx != nil && !e.idx.IsConst() {
				endPath("engine", "slice of array behind symbolic index at %s", site)
			}
		}
		return &SliceV{arr: a.obj, base: a.path, off: l, len: h - l, cap: m - l}
	}
	return nil
}

func (r *Run) unop(fr *Frame, x *ssa.UnOp, site Site) Value {
	v := r.get(fr, x.X)
	switch x.Op {
	case token.MUL:
		return r.load(v.(*PtrV), site)
	case token.NOT:
		return Not(v.(*Term))
	case token.SUB:
		return Neg(v.(*Term))
	case token.XOR:
		return BNot(v.(*Term))
	}
	endPath("engine", "unsupported unop %v", x.Op)
	return nil
}
