package main

import (
	"fmt"
	"os"
	"sort"
	"strings"
	"sync"
	"time"

	"golang.org/x/tools/go/ssa"
)

// Checker explores harness instances in parallel: a work item is (instance, decision prefix).
type Checker struct {
	eng       *Engine
	repo      string
	harness   string
	solverBin string
	workers   int
	smtlog    string
	extra     map[string]string
	witnesses int // completed paths per instance whose model is replayed natively (translator validation)

	mu     sync.Mutex
	cond   *sync.Cond
	stack  []workItem
	active int
}

type workItem struct {
	st     *instState
	prefix []Decision
}

type foundViol struct {
	Violation
	replay    string // "", "confirmed", "unconfirmed", "skipped", "error"
	replayMsg string
	replayFile string
	class     string // "new", "known", "expected"
	count     int
	alts      []Violation // further counterexamples for the same key (tried when the first does not reproduce natively)
}

// instState accumulates the results of one instance.
type instState struct {
	in        *Instance
	fn        *ssa.Function
	mu        sync.Mutex
	pending   int
	paths     int
	steps     int
	ends      map[string]int
	viols     map[string]*foundViol
	violOrder []string
	reach     map[string]bool
	unknowns  map[string]int
	feasUnk   int
	instr     map[string]int
	poisoned  map[string]bool
	engineErr map[string]int
	queries   int
	qsat      int
	qunsat    int
	qunknown  int
	oblUnsat  int
	busy      time.Duration // accumulated execution time of the instance's paths over all workers
	wits      []*foundViol  // models of completed (violation-free) paths, replayed natively: the native run must pass too
	sinks     int // secrecy sinks checked (C20)
	oblSat    int
	merges    int
	solverT   time.Duration
	start     time.Time
	end       time.Time
	stopped   string // reason exploration was cut short ("" = complete)
	samples   []string
	maxPrefix int
}

func (ck *Checker) explore(insts []*Instance) []*instState {
	ck.cond = sync.NewCond(&ck.mu)
	var states []*instState
	for _, in := range insts {
		st := &instState{in: in, ends: map[string]int{}, viols: map[string]*foundViol{}, reach: map[string]bool{}, unknowns: map[string]int{},
			instr: map[string]int{}, poisoned: map[string]bool{}, engineErr: map[string]int{}}
		name := in.Entry
		if !strings.Contains(name, "/") || !strings.HasPrefix(name, "github.com") {
			name = modPath + name
		}
		st.fn = ck.eng.fnByName[name]
		states = append(states, st)
		if st.fn == nil {
			st.engineErr["entry not found: "+name]++
			st.stopped = "entry not found"
			continue
		}
		st.pending = 1
		ck.stack = append(ck.stack, workItem{st, nil})
	}
	// process larger instances first is not known; keep registry order (LIFO => reverse)
	for i, j := 0, len(ck.stack)-1; i < j; i, j = i+1, j-1 {
		ck.stack[i], ck.stack[j] = ck.stack[j], ck.stack[i]
	}
	var wg sync.WaitGroup
	for w := 0; w < ck.workers; w++ {
		wg.Add(1)
		go func(w int) {
			defer wg.Done()
			ck.worker(w)
		}(w)
	}
	wg.Wait()
	return states
}

func (ck *Checker) worker(w int) {
	solvers := map[string]*Solver{}
	defer func() {
		for _, s := range solvers {
			s.Close()
		}
	}()
	for {
		ck.mu.Lock()
		for len(ck.stack) == 0 && ck.active > 0 {
			ck.cond.Wait()
		}
		if len(ck.stack) == 0 {
			ck.mu.Unlock()
			ck.cond.Broadcast()
			return
		}
		it := ck.stack[len(ck.stack)-1]
		ck.stack = ck.stack[:len(ck.stack)-1]
		ck.active++
		ck.mu.Unlock()

		st := it.st
		st.mu.Lock()
		if st.start.IsZero() {
			st.start = time.Now()
		}
		skip := st.stopped != ""
		// the deadline is a budget of work, not of wall-clock time: TimeoutS seconds on all workers.  (Instances of a
		// property share the workers; with a wall-clock deadline an expensive sibling made cheap instances "time out".)
		if !skip && st.busy > time.Duration(st.in.TimeoutS)*time.Second*time.Duration(ck.workers) {
			st.stopped = "deadline"
			skip = true
		}
		if !skip && st.paths >= st.in.MaxPaths {
			st.stopped = "path limit"
			skip = true
		}
		st.mu.Unlock()
		var newWork [][]Decision
		if !skip {
			key := st.in.Logic + "/" + fmt.Sprint(st.in.SolverMs)
			sol := solvers[key]
			if sol == nil {
				sol = NewSolver(ck.solverBin, st.in.Logic, st.in.SolverMs)
				if ck.smtlog != "" && w == 0 {
					f, _ := os.Create(ck.smtlog)
					sol.log = f
				}
				solvers[key] = sol
			}
			t0 := time.Now()
			newWork = ck.runPath(st, sol, it.prefix)
			st.mu.Lock()
			st.busy += time.Since(t0)
			st.mu.Unlock()
		}
		st.mu.Lock()
		st.pending += len(newWork) - 1
		if st.pending == 0 {
			st.end = time.Now()
		}
		st.mu.Unlock()
		ck.mu.Lock()
		for _, p := range newWork {
			ck.stack = append(ck.stack, workItem{st, p})
		}
		ck.active--
		ck.mu.Unlock()
		ck.cond.Broadcast()
	}
}

// runPath executes one decision vector and merges its results into the instance state.
func (ck *Checker) runPath(st *instState, sol *Solver, prefix []Decision) (newWork [][]Decision) {
	in := st.in
	r := &Run{eng: ck.eng, inst: in, sol: sol, prefix: prefix, globals: map[*ssa.Global]*Object{}, inited: map[*ssa.Package]bool{}, reach: map[string]bool{},
		ghost: map[string]Value{}, instrCount: map[*ssa.Function]int{}}
	q0, s0, u0, k0, t0 := sol.Queries, sol.Sat, sol.Unsat, sol.Unknown, sol.Time
	base := sol.depth
	sol.Push()
	kind, msg := func() (kind, msg string) {
		defer func() {
			if e := recover(); e != nil {
				r.killThreads()
				switch pe := e.(type) {
				case pathEnd:
					kind, msg = pe.kind, pe.msg
				case *goPanic:
					// a panic nothing recovered: the violation it would have been without the deferred recover()
					kind, msg = "panic", fmt.Sprintf("%s at %s (not recovered)", pe.kind, pe.site)
					if !(r.inst.OnlyAsserts) && r.sol.Check() == "sat" {
						r.oblSat++
						r.report(pe.kind, pe.site, pe.msg)
					}
				case solverDied:
					kind, msg = "solver", pe.msg
				default:
					// an internal error of the interpreter (type assertion etc.): engine error with stack
					buf := make([]byte, 4096)
					n := runtimeStack(buf)
					kind, msg = "engine", fmt.Sprintf("internal: %v\n%s", e, buf[:n])
				}
			}
		}()
		r.callFn(nil, st.fn, nil, lbl("entry"))
		// translator validation: the model of a completed, violation-free path is kept for a native run
		if len(r.viol) == 0 && in.Replay != "none" && in.NoWitness == "" && ck.witnesses > 0 {
			st.mu.Lock()
			want := len(st.wits) < ck.witnesses
			st.mu.Unlock()
			if want && len(r.secretList) > 0 {
				// secrets take the high-entropy marker value, so that the native search for them cannot hit by coincidence
				mark := True
				for i, s := range r.secretList {
					mark = And(mark, Eq(s, BVu(markerByte(i), 8)))
				}
				r.sol.Push()
				r.sol.Assert(mark)
			}
			if want && r.sol.Check() == "sat" {
				w := &foundViol{Violation: r.snapshot("witness", lbl("completed path"), "completed path")}
				st.mu.Lock()
				if len(st.wits) < ck.witnesses {
					st.wits = append(st.wits, w)
				}
				st.mu.Unlock()
			}
		}
		return "done", ""
	}()
	if kind == "solver" || sol.dead {
		sol.Restart()
	} else {
		sol.PopTo(base)
		sol.in.Flush()
	}
	st.mu.Lock()
	defer st.mu.Unlock()
	st.paths++
	st.steps += r.steps
	st.ends[kind]++
	st.merges += r.merges
	if len(prefix) > st.maxPrefix {
		st.maxPrefix = len(prefix)
	}
	if kind == "engine" || kind == "solver" {
		m := msg
		if i := strings.Index(m, "\n"); i > 0 && !verbose {
			m = m[:i]
		}
		st.engineErr[m]++
	}
	if verbose && kind != "done" {
		fmt.Printf("  [%s] path ended: %s: %s\n", in.Name, kind, msg)
	}
	for f, n := range r.instrCount {
		st.instr[f.String()] += n
	}
	for _, u := range r.unknowns {
		st.unknowns[u]++
	}
	st.feasUnk += r.feasUnk
	for l := range r.reach {
		st.reach[l] = true
	}
	for _, p := range r.poisoned {
		st.poisoned[p] = true
	}
	st.queries += sol.Queries - q0
	st.qsat += sol.Sat - s0
	st.qunsat += sol.Unsat - u0
	st.qunknown += sol.Unknown - k0
	st.solverT += sol.Time - t0
	st.oblUnsat += r.oblUnsat
	st.sinks += r.leakChecks
	st.oblSat += r.oblSat
	if len(st.samples) < 4 {
		st.samples = append(st.samples, r.samples...)
	}
	for _, v := range r.viol {
		if fv, ok := st.viols[v.Key]; ok {
			fv.count++
			if fv.count >= 200 && st.stopped == "" && len(in.Expect) == 0 {
				// the same violation on 200 paths: more of them add nothing (12 alternates are kept for the replay)
				st.stopped = "violation budget"
			}
			if len(fv.alts) < 12 {
				fv.alts = append(fv.alts, v)
			}
			continue
		}
		st.viols[v.Key] = &foundViol{Violation: v, count: 1}
		st.violOrder = append(st.violOrder, v.Key)
	}
	// a defect can make a parser misread symbolic contents as lengths and multiply paths:
	// stop exploring an instance once it has several distinct violations
	if len(st.viols) >= 6 && st.stopped == "" && len(in.Expect) == 0 {
		st.stopped = "violation budget"
	}
	if st.stopped != "" {
		return nil
	}
	return r.newWork
}

func runtimeStack(buf []byte) int {
	return copyStack(buf)
}

func (st *instState) wall() time.Duration {
	if st.start.IsZero() {
		return 0
	}
	if st.end.IsZero() {
		return time.Since(st.start)
	}
	return st.end.Sub(st.start)
}

func (ck *Checker) printInstance(st *instState, full bool) {
	in := st.in
	fmt.Printf("== %s [%s] %s\n", in.ID(), in.paramStr(), in.Entry)
	fmt.Printf("   paths=%d steps=%d ends=%v merges=%d wall=%.2fs stopped=%q\n", st.paths, st.steps, st.ends, st.merges, st.wall().Seconds(), st.stopped)
	fmt.Printf("   solver: queries=%d sat=%d unsat=%d unknown=%d time=%.2fs ; obligations unsat=%d sat=%d ; feasibility-unknown=%d\n", st.queries, st.qsat, st.qunsat, st.qunknown, st.solverT.Seconds(), st.oblUnsat, st.oblSat, st.feasUnk)
	var rl []string
	for l := range st.reach {
		rl = append(rl, l)
	}
	sort.Strings(rl)
	fmt.Printf("   reach: %v ; functions from SSA: %d\n", rl, len(st.instr))
	if len(st.unknowns) > 0 {
		fmt.Printf("   INCONCLUSIVE items: %v\n", st.unknowns)
	}
	if len(st.engineErr) > 0 {
		fmt.Printf("   ENGINE errors: %v\n", st.engineErr)
	}
	if len(st.poisoned) > 0 && verbose {
		fmt.Printf("   poisoned initialisers: %v\n", st.poisoned)
	}
	if full && verbose {
		var fl []string
		for f, n := range st.instr {
			fl = append(fl, fmt.Sprintf("%s:%d", f, n))
		}
		sort.Strings(fl)
		for _, f := range fl {
			fmt.Println("      ", f)
		}
	}
	for _, k := range st.violOrder {
		v := st.viols[k]
		fmt.Printf("   violation key=%s site=%s msg=%q x%d inputs=%s\n", v.Key, v.Site, v.Msg, v.count, fmtInputs(v.Inputs))
	}
}

func fmtInputs(in []InputVal) string {
	var sb strings.Builder
	for i, v := range in {
		if i >= 48 {
			fmt.Fprintf(&sb, "...(%d more)", len(in)-i)
			break
		}
		fmt.Fprintf(&sb, "%s ", v.Hex)
	}
	return sb.String()
}
