package main

import (
	"fmt"
	"go/types"
	"math/big"
)

// Stub call log: every nondeterministic stub records what it returned so that a counterexample
// can be replayed natively with the same stub behaviour (see replay.go).

type stubCall struct {
	name string
	kind string // "err" (returned an error), "val" (returned/stored values)
	vals []Value
	typs []types.Type
}

// StubRec is a stub call evaluated under a model.
type StubRec struct {
	Name string        `json:"name"`
	Kind string        `json:"kind"`
	Outs []interface{} `json:"outs,omitempty"`
}

func (r *Run) logStub(name, kind string, vals []Value, typs []types.Type) {
	r.stubLog = append(r.stubLog, stubCall{name, kind, vals, typs})
}

func (r *Run) evalStubLog() []StubRec {
	if len(r.stubLog) == 0 {
		return nil
	}
	out := make([]StubRec, 0, len(r.stubLog))
	for _, c := range r.stubLog {
		rec := StubRec{Name: c.name, Kind: c.kind}
		for i, v := range c.vals {
			// an output passed by pointer (a receiver) is recorded as the pointee: natively every
			// output is filled through a pointer to it
			if pt, ok := c.typs[i].Underlying().(*types.Pointer); ok {
				if pv, ok := v.(*PtrV); ok && pv.obj != nil {
					rec.Outs = append(rec.Outs, r.evalTyped(r.loadPath(r.force(&pv.obj.val), pv.path, lbl("eval")), pt.Elem(), 0))
					continue
				}
			}
			rec.Outs = append(rec.Outs, r.evalTyped(v, c.typs[i], 0))
		}
		out = append(out, rec)
	}
	return out
}

// evalTyped renders a symbolic value of Go type t under the current model as plain JSON-able data
// that package zzverif can load back into a real Go value by reflection:
//   integers: decimal string (signed per type); bool; string: {"s":hex}; []byte: {"b":hex};
//   other slices: list; struct: {"f":{name:val}} (only materialised fields); time.Time: {"t": ns since year 1};
//   pointer: null | {"p":val}; interface: null.
func (r *Run) evalTyped(v Value, t types.Type, depth int) interface{} {
	if depth > 16 {
		return nil
	}
	if lz, ok := v.(*LazyV); ok {
		if !lz.c.forced {
			return nil
		}
		v = lz.c.val
	}
	if n, ok := t.(*types.Named); ok && n.String() == "time.Time" {
		ns := r.sol.Value(nsOf(v))
		if ns.Bit(TW-1) == 1 {
			ns = new(big.Int).Sub(ns, new(big.Int).Lsh(big.NewInt(1), TW))
		}
		return map[string]interface{}{"t": ns.String()}
	}
	switch u := t.Underlying().(type) {
	case *types.Basic:
		switch x := v.(type) {
		case *Term:
			val := r.sol.Value(x)
			if x.w == 0 {
				return val.Sign() != 0
			}
			if isSigned(t) && val.Bit(x.w-1) == 1 {
				val = new(big.Int).Sub(val, new(big.Int).Lsh(big.NewInt(1), uint(x.w)))
			}
			return val.String()
		case *StrV:
			if x.opaque != nil {
				return map[string]interface{}{"s": ""}
			}
			bs := make([]byte, len(x.b))
			for i, tm := range x.b {
				bs[i] = byte(r.sol.Value(tm).Uint64())
			}
			return map[string]interface{}{"s": fmt.Sprintf("%x", bs)}
		}
	case *types.Slice:
		x := v.(*SliceV)
		if x.arr == nil {
			return nil
		}
		el := elemsOf(x)
		if b, ok := u.Elem().Underlying().(*types.Basic); ok && b.Kind() == types.Uint8 {
			bs := make([]byte, x.len)
			for i := 0; i < x.len; i++ {
				bs[i] = byte(r.sol.Value(el[x.off+i].(*Term)).Uint64())
			}
			return map[string]interface{}{"b": fmt.Sprintf("%x", bs)}
		}
		out := make([]interface{}, 0, x.len)
		for i := 0; i < x.len; i++ {
			out = append(out, r.evalTyped(el[x.off+i], u.Elem(), depth+1))
		}
		return out
	case *types.Struct:
		x := v.(StructV)
		f := map[string]interface{}{}
		for i := range x {
			if e := r.evalTyped(x[i], u.Field(i).Type(), depth+1); e != nil {
				f[u.Field(i).Name()] = e
			}
		}
		return map[string]interface{}{"f": f}
	case *types.Array:
		x := v.(ArrayV)
		out := make([]interface{}, len(x))
		for i := range x {
			out[i] = r.evalTyped(x[i], u.Elem(), depth+1)
		}
		return out
	case *types.Pointer:
		x := v.(*PtrV)
		if x.obj == nil {
			return nil
		}
		return map[string]interface{}{"p": r.evalTyped(r.loadPath(r.force(&x.obj.val), x.path, lbl("eval")), u.Elem(), depth+1)}
	}
	return nil
}

// evalValue renders a symbolic value under the current model as plain data (JSON-able):
// integers as decimal strings of their unsigned value, strings/[]byte as hex, structs as lists.
func (r *Run) evalValue(v Value, depth int) interface{} {
	if depth > 12 {
		return nil
	}
	switch x := v.(type) {
	case nil:
		return nil
	case *Term:
		val := r.sol.Value(x)
		if x.w == 0 {
			return val.Sign() != 0
		}
		return map[string]interface{}{"w": x.w, "u": val.String()}
	case *StrV:
		if x.opaque != nil {
			return map[string]interface{}{"opaque": true}
		}
		bs := make([]byte, len(x.b))
		for i, t := range x.b {
			bs[i] = byte(r.sol.Value(t).Uint64())
		}
		return map[string]interface{}{"str": fmt.Sprintf("%x", bs)}
	case *SliceV:
		if x.arr == nil {
			return []interface{}{}
		}
		el := elemsOf(x)
		out := make([]interface{}, 0, x.len)
		for i := 0; i < x.len; i++ {
			if lz, ok := el[x.off+i].(*LazyV); ok && !lz.c.forced {
				out = append(out, nil)
				continue
			}
			out = append(out, r.evalValue(r.force(&el[x.off+i]), depth+1))
		}
		return out
	case StructV:
		out := make([]interface{}, len(x))
		for i := range x {
			if lz, ok := x[i].(*LazyV); ok && !lz.c.forced {
				continue
			}
			out[i] = r.evalValue(r.force(&x[i]), depth+1)
		}
		return map[string]interface{}{"struct": out}
	case ArrayV:
		out := make([]interface{}, len(x))
		for i := range x {
			out[i] = r.evalValue(x[i], depth+1)
		}
		return out
	case TupleV:
		out := make([]interface{}, len(x))
		for i := range x {
			out[i] = r.evalValue(x[i], depth+1)
		}
		return out
	case *PtrV:
		if x.obj == nil {
			return nil
		}
		return map[string]interface{}{"ptr": r.evalValue(r.loadPath(r.force(&x.obj.val), x.path, lbl("eval")), depth+1)}
	case *IfaceV:
		if x.t == nil {
			return nil
		}
		return map[string]interface{}{"iface": x.t.String(), "v": r.evalValue(x.v, depth+1)}
	}
	return fmt.Sprintf("%T", v)
}
