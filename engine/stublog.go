package main

import "fmt"

// Stub call log: every nondeterministic stub records what it returned so that a counterexample
// can be replayed natively with the same stub behaviour (see replay.go).

type stubCall struct {
	name string
	kind string // "err" (returned an error), "val" (returned/stored a value), "bool"
	val  Value
}

// StubRec is a stub call evaluated under a model.
type StubRec struct {
	Name string      `json:"name"`
	Kind string      `json:"kind"`
	Val  interface{} `json:"val,omitempty"`
}

func (r *Run) logStub(name, kind string, v Value) {
	r.stubLog = append(r.stubLog, stubCall{name, kind, v})
}

func (r *Run) evalStubLog() []StubRec {
	if len(r.stubLog) == 0 {
		return nil
	}
	out := make([]StubRec, 0, len(r.stubLog))
	for _, c := range r.stubLog {
		out = append(out, StubRec{Name: c.name, Kind: c.kind, Val: r.evalValue(c.val, 0)})
	}
	return out
}

// evalValue renders a symbolic value under the current model as plain data (JSON-able):
// integers as decimal strings of their unsigned value, strings/[]byte as hex, structs as lists.
func (r *Run) evalValue(v Value, depth int) interface{} {
	if depth > 12 {
		return nil
	}
	switch x := v.(type) {
	case nil:
		return nil
	case *Term:
		val := r.sol.Value(x)
		if x.w == 0 {
			return val.Sign() != 0
		}
		return map[string]interface{}{"w": x.w, "u": val.String()}
	case *StrV:
		if x.opaque != nil {
			return map[string]interface{}{"opaque": true}
		}
		bs := make([]byte, len(x.b))
		for i, t := range x.b {
			bs[i] = byte(r.sol.Value(t).Uint64())
		}
		return map[string]interface{}{"str": fmt.Sprintf("%x", bs)}
	case *SliceV:
		if x.arr == nil {
			return []interface{}{}
		}
		el := elemsOf(x)
		out := make([]interface{}, 0, x.len)
		for i := 0; i < x.len; i++ {
			if lz, ok := el[x.off+i].(*LazyV); ok && !lz.c.forced {
				out = append(out, nil)
				continue
			}
			out = append(out, r.evalValue(r.force(&el[x.off+i]), depth+1))
		}
		return out
	case StructV:
		out := make([]interface{}, len(x))
		for i := range x {
			if lz, ok := x[i].(*LazyV); ok && !lz.c.forced {
				continue
			}
			out[i] = r.evalValue(r.force(&x[i]), depth+1)
		}
		return map[string]interface{}{"struct": out}
	case ArrayV:
		out := make([]interface{}, len(x))
		for i := range x {
			out[i] = r.evalValue(x[i], depth+1)
		}
		return out
	case TupleV:
		out := make([]interface{}, len(x))
		for i := range x {
			out[i] = r.evalValue(x[i], depth+1)
		}
		return out
	case *PtrV:
		if x.obj == nil {
			return nil
		}
		return map[string]interface{}{"ptr": r.evalValue(r.loadPath(r.force(&x.obj.val), x.path, lbl("eval")), depth+1)}
	case *IfaceV:
		if x.t == nil {
			return nil
		}
		return map[string]interface{}{"iface": x.t.String(), "v": r.evalValue(x.v, depth+1)}
	}
	return fmt.Sprintf("%T", v)
}
