package main

import (
	"fmt"
	"go/types"
	"reflect"

	"golang.org/x/tools/go/ssa"
)

// encoding/json as an uninterpreted function of exactly the fields the documented rules include:
// exported fields only, `json:"-"` omitted, pointers followed, time.Time opaque.
func (r *Run) flattenJSON(t types.Type, v Value, sig *string, out *[]*Term) {
	if n, ok := t.(*types.Named); ok && n.String() == "time.Time" {
		*sig += "T"
		*out = append(*out, nsOf(v))
		return
	}
	switch u := t.Underlying().(type) {
	case *types.Struct:
		sv := v.(StructV)
		*sig += "{"
		for i := 0; i < u.NumFields(); i++ {
			f := u.Field(i)
			if !f.Exported() {
				continue
			}
			if tag, ok := reflect.StructTag(u.Tag(i)).Lookup("json"); ok && tag == "-" {
				continue
			}
			*sig += f.Name() + ":"
			r.flattenJSON(f.Type(), r.force(&sv[i]), sig, out)
		}
		*sig += "}"
	case *types.Pointer:
		p := v.(*PtrV)
		if p.obj == nil {
			*sig += "null"
			return
		}
		r.flattenJSON(u.Elem(), r.load(p, lbl("json")), sig, out)
	case *types.Slice:
		s := v.(*SliceV)
		*sig += fmt.Sprintf("[%d", s.len)
		for i := 0; i < s.len; i++ {
			r.flattenJSON(u.Elem(), r.force(&elemsOf(s)[s.off+i]), sig, out)
		}
		*sig += "]"
	default:
		r.flatten(v, sig, out)
	}
}

func (e *Engine) registerJSON() {
	js := func(r *Run, fr *Frame, cc *ssa.CallCommon, a []Value) Value {
		iv := a[0].(*IfaceV)
		sig := iv.t.String()
		var ts []*Term
		r.flattenJSON(iv.t, iv.v, &sig, &ts)
		name := fmt.Sprintf("JSON_%08x", fnvs(sig))
		var args []*Term
		if len(ts) > 0 {
			args = append(args, catBytes(ts))
		}
		return TupleV{r.bytesToSlice(splitBytes(UF(name, 64, args...))), &IfaceV{}}
	}
	e.intrinsics["encoding/json.MarshalIndent"] = js
	e.intrinsics["encoding/json.Marshal"] = js
}
