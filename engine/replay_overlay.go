package main

import (
	"bytes"
	"fmt"
	"go/ast"
	"go/parser"
	"go/printer"
	"go/token"
	"os"
	"path/filepath"
	"strings"

	"golang.org/x/tools/go/ast/astutil"
)

// Native replay of harnesses that use nondeterministic stubs: the real package is compiled with an
// overlay in which exactly the stubbed functions have their bodies replaced by a call that pops the
// recorded stub results (zzverif.Stub), and, in linear-time harnesses, time.Now() call sites read
// the recorded clock (zzverif.Now).  Everything else is the real code.

const zzImport = modPath + "zzverif"

// stubOverlay returns repoFile -> generated replacement file for the stubs enabled in the instance.
func (ck *Checker) stubOverlay(scratch string, in *Instance) (map[string]string, error) {
	type target struct {
		spec *stubSpec
		fn   string // FuncDecl name
		recv string // receiver type name ("" for functions)
	}
	byFile := map[string][]target{}
	for name, spec := range ck.eng.nativeStubs {
		enabled := false
		for _, s := range in.Stubs {
			if _, ok := ck.eng.intrinsics[s+":"+name]; ok && s == spec.set {
				enabled = true
			}
		}
		if !enabled {
			continue
		}
		fn := ck.eng.fnByName[name]
		if fn == nil || !fn.Pos().IsValid() {
			continue
		}
		file := ck.eng.prog.Fset.Position(fn.Pos()).Filename
		if strings.Contains(filepath.Base(file), "zz_") {
			continue
		}
		t := target{spec: spec, fn: fn.Name()}
		if r := fn.Signature.Recv(); r != nil {
			rs := r.Type().String()
			rs = rs[strings.LastIndex(rs, ".")+1:]
			t.recv = rs
		}
		byFile[file] = append(byFile[file], t)
	}
	timeFiles := map[string]bool{}
	if in.stubSet["lineartime"] {
		filepath.Walk(ck.repo, func(p string, info os.FileInfo, err error) error {
			if err != nil || info.IsDir() || !strings.HasSuffix(p, ".go") || strings.HasSuffix(p, "_test.go") {
				return nil
			}
			b, _ := os.ReadFile(p)
			if bytes.Contains(b, []byte("time.Now()")) || bytes.Contains(b, []byte("time.Since(")) || bytes.Contains(b, []byte("time.Until(")) {
				timeFiles[p] = true
			}
			return nil
		})
	}
	lockFiles := map[string]bool{}
	if in.stubSet["yieldlocks"] {
		filepath.Walk(ck.repo, func(p string, info os.FileInfo, err error) error {
			if err != nil || info.IsDir() || !strings.HasSuffix(p, ".go") || strings.HasSuffix(p, "_test.go") || strings.Contains(filepath.Base(p), "zz_") {
				return nil
			}
			b, _ := os.ReadFile(p)
			if bytes.Contains(b, []byte("Lock()")) {
				lockFiles[p] = true
			}
			return nil
		})
	}
	randFiles := map[string]bool{}
	if in.stubSet["randstub"] {
		filepath.Walk(ck.repo, func(p string, info os.FileInfo, err error) error {
			if err != nil || info.IsDir() || !strings.HasSuffix(p, ".go") || strings.HasSuffix(p, "_test.go") {
				return nil
			}
			b, _ := os.ReadFile(p)
			if bytes.Contains(b, []byte("\"math/rand\"")) && bytes.Contains(b, []byte("rand.Intn(")) {
				randFiles[p] = true
			}
			return nil
		})
	}
	out := map[string]string{}
	files := map[string]bool{}
	if in.stubSet["bgo"] {
		filepath.Walk(ck.repo, func(p string, info os.FileInfo, err error) error {
			if err != nil || info.IsDir() || !strings.HasSuffix(p, ".go") || strings.HasSuffix(p, "_test.go") || strings.Contains(filepath.Base(p), "zz_") {
				return nil
			}
			b, _ := os.ReadFile(p)
			if bytes.Contains(b, []byte("time.Sleep(")) {
				files[p] = true
			}
			return nil
		})
	}
	for f := range randFiles {
		files[f] = true
	}
	for f := range lockFiles {
		files[f] = true
	}
	for f := range byFile {
		files[f] = true
	}
	for f := range timeFiles {
		files[f] = true
	}
	n := 0
	for file := range files {
		fset := token.NewFileSet()
		src, err := os.ReadFile(file)
		if err != nil {
			return nil, err
		}
		if e, ok := ck.extra[file]; ok { // experiments: replaced source
			src, _ = os.ReadFile(e)
		}
		af, err := parser.ParseFile(fset, file, src, parser.ParseComments)
		if err != nil {
			return nil, err
		}
		changed := false
		for _, t := range byFile[file] {
			for _, d := range af.Decls {
				fd, ok := d.(*ast.FuncDecl)
				if !ok || fd.Name.Name != t.fn || fd.Body == nil {
					continue
				}
				rn := ""
				if fd.Recv != nil && len(fd.Recv.List) > 0 {
					rt := fd.Recv.List[0].Type
					if st, ok := rt.(*ast.StarExpr); ok {
						rt = st.X
					}
					if id, ok := rt.(*ast.Ident); ok {
						rn = id.Name
					}
				}
				if rn != t.recv {
					continue
				}
				if err := rewriteStubBody(fset, fd, t.spec); err != nil {
					return nil, fmt.Errorf("%s: %v", t.spec.name, err)
				}
				changed = true
			}
		}
		if timeFiles[file] {
			astutil.Apply(af, func(c *astutil.Cursor) bool {
				if call, ok := c.Node().(*ast.CallExpr); ok {
					if sel, ok := call.Fun.(*ast.SelectorExpr); ok && sel.Sel.Name == "Now" {
						if id, ok := sel.X.(*ast.Ident); ok && id.Name == "time" && len(call.Args) == 0 {
							sel.X = ast.NewIdent("zzverif")
							changed = true
						}
					}
					// time.Since / time.Until read the wall clock inside package time: they follow the harness's clock too
					if sel, ok := call.Fun.(*ast.SelectorExpr); ok && (sel.Sel.Name == "Since" || sel.Sel.Name == "Until") {
						if id, ok := sel.X.(*ast.Ident); ok && id.Name == "time" && len(call.Args) == 1 {
							sel.X = ast.NewIdent("zzverif")
							changed = true
						}
					}
				}
				return true
			}, nil)
		}
		if in.stubSet["bgo"] && bytes.Contains(src, []byte("time.Sleep(")) {
			// background goroutines sleep on the harness's clock: zzverif.Sleep parks them until zzverif.Background wakes them
			astutil.Apply(af, func(c *astutil.Cursor) bool {
				if call, ok := c.Node().(*ast.CallExpr); ok {
					if sel, ok := call.Fun.(*ast.SelectorExpr); ok && sel.Sel.Name == "Sleep" {
						if id, ok := sel.X.(*ast.Ident); ok && id.Name == "time" && len(call.Args) == 1 {
							sel.X = ast.NewIdent("zzverif")
							changed = true
						}
					}
				}
				return true
			}, nil)
		}
		if lockFiles[file] {
			// a scheduling point before every lock acquisition (the points at which gosym switches threads)
			astutil.Apply(af, func(c *astutil.Cursor) bool {
				es, ok := c.Node().(*ast.ExprStmt)
				if !ok {
					return true
				}
				call, ok := es.X.(*ast.CallExpr)
				if !ok || len(call.Args) != 0 {
					return true
				}
				sel, ok := call.Fun.(*ast.SelectorExpr)
				if !ok || (sel.Sel.Name != "Lock" && sel.Sel.Name != "RLock") {
					return true
				}
				if _, inList := c.Parent().(*ast.BlockStmt); !inList {
					if _, inCase := c.Parent().(*ast.CaseClause); !inCase {
						return true
					}
				}
				c.InsertBefore(&ast.ExprStmt{X: &ast.CallExpr{Fun: &ast.SelectorExpr{X: ast.NewIdent("zzverif"), Sel: ast.NewIdent("Yield")}}})
				changed = true
				return true
			}, nil)
		}
		if randFiles[file] {
			astutil.Apply(af, func(c *astutil.Cursor) bool {
				if call, ok := c.Node().(*ast.CallExpr); ok {
					if sel, ok := call.Fun.(*ast.SelectorExpr); ok && sel.Sel.Name == "Intn" {
						if id, ok := sel.X.(*ast.Ident); ok && id.Name == "rand" && id.Obj == nil {
							sel.X = ast.NewIdent("zzverif")
							changed = true
						}
					}
				}
				return true
			}, nil)
		}
		if !changed {
			continue
		}
		astutil.AddImport(fset, af, zzImport)
		type impRef struct{ name, path string }
		var unused []impRef
		for _, imp := range af.Imports {
			path := strings.Trim(imp.Path.Value, `"`)
			if path == "C" || (imp.Name != nil && (imp.Name.Name == "_" || imp.Name.Name == ".")) {
				continue
			}
			nm, local := "", ""
			if imp.Name != nil {
				nm, local = imp.Name.Name, imp.Name.Name
			} else if ip := ck.eng.prog.ImportedPackage(path); ip != nil {
				local = ip.Pkg.Name() // the real package name (may differ from the last path element)
			} else {
				continue
			}
			used := false
			ast.Inspect(af, func(n ast.Node) bool {
				if sel, ok := n.(*ast.SelectorExpr); ok {
					if id, ok := sel.X.(*ast.Ident); ok && id.Name == local && id.Obj == nil {
						used = true
					}
				}
				return !used
			})
			if !used {
				unused = append(unused, impRef{nm, path})
			}
		}
		for _, u := range unused {
			if u.name != "" {
				astutil.DeleteNamedImport(fset, af, u.name, u.path)
			} else {
				astutil.DeleteImport(fset, af, u.path)
			}
		}
		var buf bytes.Buffer
		if err := printer.Fprint(&buf, fset, af); err != nil {
			return nil, err
		}
		n++
		gen := filepath.Join(scratch, fmt.Sprintf("stub%d_%s_%s", n, sanitize(in.Name), filepath.Base(file)))
		if err := os.WriteFile(gen, buf.Bytes(), 0o644); err != nil {
			return nil, err
		}
		out[file] = gen
	}
	return out, nil
}

// rewriteStubBody: name the results, replace the body by
//   zzerr = zzverif.Stub("name", outs...) ; return
func rewriteStubBody(fset *token.FileSet, fd *ast.FuncDecl, spec *stubSpec) error {
	if spec.custom != "" {
		src := "package p\nfunc _() {\n" + spec.custom + "\n}\n"
		f, err := parser.ParseFile(fset, "custom_"+sanitize(spec.name)+".go", src, 0)
		if err != nil {
			return err
		}
		fd.Body = f.Decls[0].(*ast.FuncDecl).Body
		return nil
	}
	res := fd.Type.Results
	if res == nil || len(res.List) == 0 {
		return fmt.Errorf("stub without results")
	}
	// flatten and name results
	var names []string
	k := 0
	for _, f := range res.List {
		if len(f.Names) == 0 {
			f.Names = []*ast.Ident{ast.NewIdent(fmt.Sprintf("zzr%d", k))}
		}
		for i, nm := range f.Names {
			if nm.Name == "_" {
				f.Names[i] = ast.NewIdent(fmt.Sprintf("zzr%d", k))
			}
			names = append(names, f.Names[i].Name)
			k++
		}
	}
	recv := ""
	if fd.Recv != nil && len(fd.Recv.List) > 0 {
		f := fd.Recv.List[0]
		if len(f.Names) == 0 || f.Names[0].Name == "_" {
			f.Names = []*ast.Ident{ast.NewIdent("zzrecv")}
		}
		recv = f.Names[0].Name
	}
	args := []ast.Expr{&ast.BasicLit{Kind: token.STRING, Value: fmt.Sprintf("%q", spec.name)}}
	for _, o := range spec.outs {
		switch {
		case o == "recv":
			if recv == "" {
				return fmt.Errorf("no receiver")
			}
			args = append(args, ast.NewIdent(recv))
		case strings.HasPrefix(o, "ret"):
			var i int
			fmt.Sscanf(o, "ret%d", &i)
			if i >= len(names) {
				return fmt.Errorf("no result %d", i)
			}
			args = append(args, &ast.UnaryExpr{Op: token.AND, X: ast.NewIdent(names[i])})
		}
	}
	call := &ast.CallExpr{Fun: &ast.SelectorExpr{X: ast.NewIdent("zzverif"), Sel: ast.NewIdent("Stub")}, Args: args}
	var stmts []ast.Stmt
	// record the arguments (receiver first) for the harness oracle
	rec := []ast.Expr{&ast.BasicLit{Kind: token.STRING, Value: fmt.Sprintf("%q", spec.name)}}
	if recv != "" {
		rec = append(rec, ast.NewIdent(recv))
	}
	pk := 0
	for _, f := range fd.Type.Params.List {
		if len(f.Names) == 0 {
			f.Names = []*ast.Ident{ast.NewIdent(fmt.Sprintf("zzp%d", pk))}
		}
		for i, nm := range f.Names {
			if nm.Name == "_" {
				f.Names[i] = ast.NewIdent(fmt.Sprintf("zzp%d", pk))
			}
			if _, variadic := f.Type.(*ast.Ellipsis); !variadic {
				rec = append(rec, ast.NewIdent(f.Names[i].Name))
			}
			pk++
		}
	}
	stmts = append(stmts, &ast.ExprStmt{X: &ast.CallExpr{Fun: &ast.SelectorExpr{X: ast.NewIdent("zzverif"), Sel: ast.NewIdent("StubArgs")}, Args: rec}})
	if spec.hasErr {
		stmts = append(stmts, &ast.AssignStmt{Lhs: []ast.Expr{ast.NewIdent(names[len(names)-1])}, Tok: token.ASSIGN, Rhs: []ast.Expr{call}})
	} else {
		stmts = append(stmts, &ast.ExprStmt{X: call})
	}
	stmts = append(stmts, &ast.ReturnStmt{})
	fd.Body = &ast.BlockStmt{List: stmts}
	return nil
}
