package main

// regexp over symbolic text.  The pattern must be concrete; it is parsed and compiled by the host's regexp/syntax
// (the same front end the real package uses) and the resulting program is simulated as an NFA over the bytes of
// the subject, whose length is concrete and whose bytes are terms.  The result is one boolean term: "some
// substring matches" (the unanchored search of MatchString).  The subject must be ASCII (checked with the solver;
// otherwise the path is inconclusive): the program steps over runes, the simulation over bytes.

import (
	"go/ast"
	"go/types"
	"regexp/syntax"
	"strings"
	"unicode"

	"golang.org/x/tools/go/ssa"
)

type RegexObj struct {
	expr string
	prog *syntax.Prog
}

func compileRegex(expr string) (*RegexObj, error) {
	re, err := syntax.Parse(expr, syntax.Perl)
	if err != nil {
		return nil, err
	}
	prog, err := syntax.Compile(re.Simplify())
	if err != nil {
		return nil, err
	}
	return &RegexObj{expr: expr, prog: prog}, nil
}

func isWordByte(b *Term) *Term {
	rg := func(lo, hi byte) *Term { return And(ULe(BVu(uint64(lo), 8), b), ULe(b, BVu(uint64(hi), 8))) }
	return Or(Or(rg('a', 'z'), rg('A', 'Z')), Or(rg('0', '9'), Eq(b, BVu('_', 8))))
}

func (r *Run) regexMatch(ro *RegexObj, s *StrV) *Term {
	if s.opaque != nil {
		endPath("engine", "regexp %q applied to an opaque string", ro.expr)
	}
	high := False
	for _, b := range s.b {
		if !b.IsConst() {
			high = Or(high, ULe(BVu(0x80, 8), b))
		} else if b.Int()&0xff >= 0x80 {
			high = True
		}
	}
	if high != False && r.sol.CheckWith(high) != "unsat" {
		endPath("engine", "regexp %q applied to text that may not be ASCII (not modelled)", ro.expr)
	}
	prog := ro.prog
	n := len(s.b)
	matched := False
	emptyCond := func(op syntax.EmptyOp, pos int) *Term {
		c := True
		nl := BVu('\n', 8)
		if op&syntax.EmptyBeginText != 0 && pos != 0 {
			c = False
		}
		if op&syntax.EmptyEndText != 0 && pos != n {
			c = False
		}
		if op&syntax.EmptyBeginLine != 0 && pos != 0 {
			c = And(c, Eq(s.b[pos-1], nl))
		}
		if op&syntax.EmptyEndLine != 0 && pos != n {
			c = And(c, Eq(s.b[pos], nl))
		}
		if op&(syntax.EmptyWordBoundary|syntax.EmptyNoWordBoundary) != 0 {
			before, after := False, False
			if pos > 0 {
				before = isWordByte(s.b[pos-1])
			}
			if pos < n {
				after = isWordByte(s.b[pos])
			}
			boundary := Not(Eq(before, after))
			if op&syntax.EmptyWordBoundary != 0 {
				c = And(c, boundary)
			}
			if op&syntax.EmptyNoWordBoundary != 0 {
				c = And(c, Not(boundary))
			}
		}
		return c
	}
	var state []*Term
	onstack := make([]bool, len(prog.Inst))
	var add func(pc uint32, cond *Term, pos int)
	add = func(pc uint32, cond *Term, pos int) {
		if cond == False || onstack[pc] {
			return
		}
		onstack[pc] = true
		defer func() { onstack[pc] = false }()
		in := &prog.Inst[pc]
		switch in.Op {
		case syntax.InstAlt, syntax.InstAltMatch:
			add(in.Out, cond, pos)
			add(in.Arg, cond, pos)
		case syntax.InstNop, syntax.InstCapture:
			add(in.Out, cond, pos)
		case syntax.InstEmptyWidth:
			add(in.Out, And(cond, emptyCond(syntax.EmptyOp(in.Arg), pos)), pos)
		case syntax.InstFail:
		case syntax.InstMatch:
			matched = Or(matched, cond)
		default:
			state[pc] = Or(state[pc], cond)
		}
	}
	runeCond := func(in *syntax.Inst, b *Term) *Term {
		switch in.Op {
		case syntax.InstRuneAny:
			return True
		case syntax.InstRuneAnyNotNL:
			return Not(Eq(b, BVu('\n', 8)))
		}
		c := False
		one := func(x rune) {
			if x < 0x80 {
				c = Or(c, Eq(b, BVu(uint64(x), 8)))
			}
		}
		if len(in.Rune) == 1 {
			x := in.Rune[0]
			one(x)
			if syntax.Flags(in.Arg)&syntax.FoldCase != 0 {
				for y := unicode.SimpleFold(x); y != x; y = unicode.SimpleFold(y) {
					one(y)
				}
			}
			return c
		}
		for i := 0; i+1 < len(in.Rune); i += 2 {
			lo, hi := in.Rune[i], in.Rune[i+1]
			if lo >= 0x80 {
				continue
			}
			if hi >= 0x80 {
				hi = 0x7f
			}
			if lo == hi {
				one(lo)
			} else {
				c = Or(c, And(ULe(BVu(uint64(lo), 8), b), ULe(b, BVu(uint64(hi), 8))))
			}
		}
		return c
	}
	type thread struct {
		pc   uint32
		cond *Term
	}
	var carried []thread
	for pos := 0; pos <= n; pos++ {
		state = make([]*Term, len(prog.Inst))
		for i := range state {
			state[i] = False
		}
		for _, t := range carried {
			add(t.pc, t.cond, pos)
		}
		add(uint32(prog.Start), True, pos) // unanchored: a match may start anywhere
		carried = nil
		if pos == n {
			break
		}
		for pc, c := range state {
			if c == False {
				continue
			}
			in := &prog.Inst[pc]
			if m := And(c, runeCond(in, s.b[pos])); m != False {
				carried = append(carried, thread{in.Out, m})
			}
		}
	}
	return matched
}

func (e *Engine) registerRegexIntrinsics() {
	in := e.intrinsics
	compile := func(r *Run, cc *ssa.CallCommon, a []Value, must bool) Value {
		expr, ok := a[0].(*StrV).Concrete()
		if !ok {
			endPath("engine", "regexp compiled from a pattern that is not concrete")
		}
		ro, err := compileRegex(expr)
		rt := r.eng.prog.ImportedPackage("regexp").Type("Regexp").Type()
		if err != nil {
			if must {
				r.mustNot(True, "panic", lbl("regexp.MustCompile"), "regexp: Compile("+expr+"): "+err.Error())
			}
			endPath("engine", "regexp.Compile of an invalid pattern %q (error value not modelled)", expr)
		}
		p := &PtrV{obj: r.newObj(rt, ro, "regexp")}
		if must {
			return p
		}
		return TupleV{p, &IfaceV{}}
	}
	in["regexp.MustCompile"] = func(r *Run, fr *Frame, cc *ssa.CallCommon, a []Value) Value { return compile(r, cc, a, true) }
	in["regexp.Compile"] = func(r *Run, fr *Frame, cc *ssa.CallCommon, a []Value) Value { return compile(r, cc, a, false) }
	in["regexp.MatchString"] = func(r *Run, fr *Frame, cc *ssa.CallCommon, a []Value) Value {
		expr, ok := a[0].(*StrV).Concrete()
		if !ok {
			endPath("engine", "regexp.MatchString with a pattern that is not concrete")
		}
		ro, err := compileRegex(expr)
		if err != nil {
			endPath("engine", "regexp.MatchString with an invalid pattern %q (error value not modelled)", expr)
		}
		return TupleV{r.regexMatch(ro, a[1].(*StrV)), &IfaceV{}}
	}
	recv := func(r *Run, v Value) *RegexObj {
		p := v.(*PtrV)
		if p.obj == nil {
			r.mustNot(True, "nil", lbl("regexp"), "nil pointer dereference")
		}
		ro, ok := p.obj.val.(*RegexObj)
		if !ok {
			endPath("engine", "regexp method on a Regexp the engine did not compile")
		}
		return ro
	}
	in["(*regexp.Regexp).MatchString"] = func(r *Run, fr *Frame, cc *ssa.CallCommon, a []Value) Value {
		return r.regexMatch(recv(r, a[0]), a[1].(*StrV))
	}
	in["(*regexp.Regexp).Match"] = func(r *Run, fr *Frame, cc *ssa.CallCommon, a []Value) Value {
		return r.regexMatch(recv(r, a[0]), &StrV{b: sliceBytes(a[1].(*SliceV))})
	}
	// os/user.Current reads the process environment / passwd database: no current user (the callers of interest,
	// config.newLibDefaults, fall back to uid 0 and an empty home directory)
	in["os/user.Current"] = func(r *Run, fr *Frame, cc *ssa.CallCommon, a []Value) Value {
		return TupleV{&PtrV{}, r.errNew(fr, "user: Current not available")}
	}
	in["(*regexp.Regexp).String"] = func(r *Run, fr *Frame, cc *ssa.CallCommon, a []Value) Value {
		return concStr(recv(r, a[0]).expr)
	}
}

// regexFind: leftmost-first match with capture positions (the semantics of the Find* methods), by simulating the
// backtracking-order thread list of the real matcher: threads are kept in priority order, one entry per (pc, way
// of getting there); an entry's condition excludes the higher-priority entries for the same pc (the real matcher
// drops the later one), a match cuts off the lower-priority threads of its step, and a start thread is added at
// each position only while nothing has matched.  Capture positions are terms (text positions are concrete, which
// thread wins is not).  Returns the condition "matched" and 2*(groups+1) positions (-1 = group did not take part).
func (r *Run) regexFind(ro *RegexObj, s *StrV) (*Term, []*Term) {
	r.regexMatch(ro, s) // checks: not opaque, ASCII
	prog := ro.prog
	n := len(s.b)
	ncap := prog.NumCap
	if ncap < 2 {
		ncap = 2
	}
	type thread struct {
		pc   uint32
		cond *Term
		caps []*Term
	}
	minus := BVi(-1, 64)
	matched := False
	matchcap := make([]*Term, ncap)
	for i := range matchcap {
		matchcap[i] = minus
	}
	nl := BVu('\n', 8)
	emptyCond := func(op syntax.EmptyOp, pos int) *Term {
		c := True
		if op&syntax.EmptyBeginText != 0 && pos != 0 {
			c = False
		}
		if op&syntax.EmptyEndText != 0 && pos != n {
			c = False
		}
		if op&syntax.EmptyBeginLine != 0 && pos != 0 {
			c = And(c, Eq(s.b[pos-1], nl))
		}
		if op&syntax.EmptyEndLine != 0 && pos != n {
			c = And(c, Eq(s.b[pos], nl))
		}
		if op&(syntax.EmptyWordBoundary|syntax.EmptyNoWordBoundary) != 0 {
			before, after := False, False
			if pos > 0 {
				before = isWordByte(s.b[pos-1])
			}
			if pos < n {
				after = isWordByte(s.b[pos])
			}
			boundary := Not(Eq(before, after))
			if op&syntax.EmptyWordBoundary != 0 {
				c = And(c, boundary)
			}
			if op&syntax.EmptyNoWordBoundary != 0 {
				c = And(c, Not(boundary))
			}
		}
		return c
	}
	var queue []thread
	var seen []*Term
	onstack := make([]bool, len(prog.Inst))
	var add func(pc uint32, cond *Term, caps []*Term, pos int)
	add = func(pc uint32, cond *Term, caps []*Term, pos int) {
		if onstack[pc] {
			return
		}
		c := And(cond, Not(seen[pc]))
		if c == False {
			return
		}
		seen[pc] = Or(seen[pc], cond)
		onstack[pc] = true
		defer func() { onstack[pc] = false }()
		in := &prog.Inst[pc]
		switch in.Op {
		case syntax.InstAlt, syntax.InstAltMatch:
			add(in.Out, c, caps, pos)
			add(in.Arg, c, caps, pos)
		case syntax.InstNop:
			add(in.Out, c, caps, pos)
		case syntax.InstCapture:
			if int(in.Arg) < ncap {
				nc := append([]*Term{}, caps...)
				nc[in.Arg] = BVi(int64(pos), 64)
				add(in.Out, c, nc, pos)
			} else {
				add(in.Out, c, caps, pos)
			}
		case syntax.InstEmptyWidth:
			add(in.Out, And(c, emptyCond(syntax.EmptyOp(in.Arg), pos)), caps, pos)
		case syntax.InstFail:
		default:
			queue = append(queue, thread{pc, c, caps})
		}
	}
	runeCond := func(in *syntax.Inst, b *Term) *Term {
		switch in.Op {
		case syntax.InstRuneAny:
			return True
		case syntax.InstRuneAnyNotNL:
			return Not(Eq(b, nl))
		}
		c := False
		one := func(x rune) {
			if x < 0x80 {
				c = Or(c, Eq(b, BVu(uint64(x), 8)))
			}
		}
		if len(in.Rune) == 1 {
			x := in.Rune[0]
			one(x)
			if syntax.Flags(in.Arg)&syntax.FoldCase != 0 {
				for y := unicode.SimpleFold(x); y != x; y = unicode.SimpleFold(y) {
					one(y)
				}
			}
			return c
		}
		for i := 0; i+1 < len(in.Rune); i += 2 {
			lo, hi := in.Rune[i], in.Rune[i+1]
			if lo >= 0x80 {
				continue
			}
			if hi >= 0x80 {
				hi = 0x7f
			}
			if lo == hi {
				one(lo)
			} else {
				c = Or(c, And(ULe(BVu(uint64(lo), 8), b), ULe(b, BVu(uint64(hi), 8))))
			}
		}
		return c
	}
	type pending struct {
		pc   uint32
		cond *Term
		caps []*Term
	}
	var carried []pending
	for pos := 0; pos <= n; pos++ {
		queue = nil
		seen = make([]*Term, len(prog.Inst))
		for i := range seen {
			seen[i] = False
		}
		for _, t := range carried {
			add(t.pc, t.cond, t.caps, pos)
		}
		start := make([]*Term, ncap)
		for i := range start {
			start[i] = minus
		}
		start[0] = BVi(int64(pos), 64)
		add(uint32(prog.Start), Not(matched), start, pos)
		carried = nil
		alive := True // false once a higher-priority thread of this step has matched
		for _, t := range queue {
			e := And(t.cond, alive)
			if e == False {
				continue
			}
			in := &prog.Inst[t.pc]
			if in.Op == syntax.InstMatch {
				for i := range matchcap {
					v := t.caps[i]
					if i == 1 {
						v = BVi(int64(pos), 64)
					}
					matchcap[i] = Ite(e, v, matchcap[i])
				}
				matched = Or(matched, e)
				alive = And(alive, Not(e))
				continue
			}
			if pos < n {
				if m := And(e, runeCond(in, s.b[pos])); m != False {
					carried = append(carried, pending{in.Out, m, t.caps})
				}
			}
		}
	}
	return matched, matchcap
}

// regexSubmatch: decide whether there is a match (a fork), then make the capture positions concrete (forks over the
// feasible values only) and cut the pieces out of the subject.
func (r *Run) regexSubmatch(ro *RegexObj, s *StrV) (bool, []int) {
	m, caps := r.regexFind(ro, s)
	if !r.branch(m) {
		return false, nil
	}
	out := make([]int, len(caps))
	for i, c := range caps {
		out[i] = int(r.concretise(c, "regexp capture position"))
	}
	return true, out
}

func (e *Engine) registerRegexFind() {
	in := e.intrinsics
	recv := func(r *Run, v Value) *RegexObj {
		p := v.(*PtrV)
		if p.obj == nil {
			r.mustNot(True, "nil", lbl("regexp"), "nil pointer dereference")
		}
		ro, ok := p.obj.val.(*RegexObj)
		if !ok {
			endPath("engine", "regexp method on a Regexp the engine did not compile")
		}
		return ro
	}
	piece := func(s *StrV, lo, hi int) *StrV {
		if lo < 0 || hi < lo {
			return &StrV{}
		}
		return &StrV{b: append([]*Term{}, s.b[lo:hi]...)}
	}
	in["(*regexp.Regexp).FindStringSubmatch"] = func(r *Run, fr *Frame, cc *ssa.CallCommon, a []Value) Value {
		s := a[1].(*StrV)
		ok, caps := r.regexSubmatch(recv(r, a[0]), s)
		if !ok {
			return &SliceV{}
		}
		res := r.makeSlice(types.Typ[types.String], len(caps)/2, len(caps)/2)
		for i := 0; i < len(caps)/2; i++ {
			elemsOf(res)[i] = piece(s, caps[2*i], caps[2*i+1])
		}
		return res
	}
	in["(*regexp.Regexp).FindStringSubmatchIndex"] = func(r *Run, fr *Frame, cc *ssa.CallCommon, a []Value) Value {
		ok, caps := r.regexSubmatch(recv(r, a[0]), a[1].(*StrV))
		if !ok {
			return &SliceV{}
		}
		res := r.makeSlice(types.Typ[types.Int], len(caps), len(caps))
		for i, c := range caps {
			elemsOf(res)[i] = BVi(int64(c), 64)
		}
		return res
	}
	in["(*regexp.Regexp).FindStringIndex"] = func(r *Run, fr *Frame, cc *ssa.CallCommon, a []Value) Value {
		ok, caps := r.regexSubmatch(recv(r, a[0]), a[1].(*StrV))
		if !ok {
			return &SliceV{}
		}
		res := r.makeSlice(types.Typ[types.Int], 2, 2)
		elemsOf(res)[0], elemsOf(res)[1] = BVi(int64(caps[0]), 64), BVi(int64(caps[1]), 64)
		return res
	}
	in["(*regexp.Regexp).FindString"] = func(r *Run, fr *Frame, cc *ssa.CallCommon, a []Value) Value {
		s := a[1].(*StrV)
		ok, caps := r.regexSubmatch(recv(r, a[0]), s)
		if !ok {
			return &StrV{}
		}
		return piece(s, caps[0], caps[1])
	}
	// every other method would run the real matcher on an object the engine made up
	for _, f := range e.fnByName {
		if rc := f.Signature.Recv(); rc != nil && f.Pkg != nil && f.Pkg.Pkg.Path() == "regexp" && strings.HasSuffix(rc.Type().String(), "regexp.Regexp") {
			name := f.String()
			if _, ok := in[name]; !ok && ast.IsExported(f.Name()) {
				in[name] = func(r *Run, fr *Frame, cc *ssa.CallCommon, a []Value) Value {
					endPath("engine", "%s is not modelled", name)
					return nil
				}
			}
		}
	}
}
