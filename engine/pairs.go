package main

import (
	"fmt"
	"go/types"
	"strings"

	"golang.org/x/tools/go/ssa"
)

// Codec pairs: encoders whose real code cannot be executed symbolically (reflection-driven ASN.1,
// randomised encryption, base64 tables) are modelled as INJECTIVE functions with their decoders as
// exact inverses, without interpreting the bytes:
//
//   encode(v)  = a handle of fresh symbolic bytes; two handles of the same encoder are equal exactly
//                when the encoded values are equal (constraint added per pair of registered values);
//   decode(h)  = the registered value when h is, term for term, a handle produced in this run;
//                otherwise a decode error (these stub sets are for harnesses in which every byte string
//                that reaches a decoder was produced by the code under test in the same run).
//
// Engine-side only: the native replay runs the real encoders and decoders.
//
//   asn1pair   every gokrb5 function returning ([]byte[, error]) that calls gofork asn1.Marshal* directly,
//              gofork asn1.Marshal itself, asn1tools.AddASNAppTag; inverses: the Unmarshal methods that call
//              asn1.Unmarshal* directly, and asn1.Unmarshal* itself
//   encpair    crypto.GetEncryptedData / crypto.DecryptEncPart: decryption succeeds exactly with the same key
//              type, key bytes and key usage (what C05/C06 establish for the real ciphers)
//   b64pair    base64 StdEncoding EncodeToString / DecodeString

type pairEntry struct {
	kind   string // "asn1", "apptag", "enc", "b64"
	key    string // encoder (function or type)
	sig    string
	flat   []*Term
	handle []*Term
	typ    types.Type // asn1: type of the snapshot
	val    Value      // asn1: snapshot; apptag/b64: *SliceV inner bytes; enc: plaintext
	enc    [3]Value   // enc: key type, key bytes (*SliceV), usage
}

func sameTerms(a, b []*Term) bool {
	if len(a) != len(b) {
		return false
	}
	for i := range a {
		if a[i] != b[i] {
			return false
		}
	}
	return true
}

func eqTerms(a, b []*Term) *Term {
	c := True
	for i := range a {
		c = And(c, Eq(a[i], b[i]))
	}
	return c
}

// pairEncode registers an encoded value and returns its handle.
func (r *Run) pairEncode(e *pairEntry, n int, alwaysFresh bool) []*Term {
	if !alwaysFresh {
		for _, o := range r.pairs {
			if o.kind == e.kind && o.key == e.key && o.sig == e.sig && sameTerms(o.flat, e.flat) {
				return o.handle
			}
		}
	}
	e.handle = make([]*Term, n)
	for i := range e.handle {
		e.handle[i] = r.hvar(8)
	}
	for _, o := range r.pairs {
		if len(o.handle) != n {
			continue
		}
		heq := eqTerms(o.handle, e.handle)
		if !alwaysFresh && o.kind == e.kind && o.key == e.key && o.sig == e.sig {
			feq := eqTerms(o.flat, e.flat)
			r.addPC(And(Implies(heq, feq), Implies(feq, heq)))
		} else {
			r.addPC(Not(heq))
		}
	}
	r.pairs = append(r.pairs, e)
	return e.handle
}

func Implies(a, b *Term) *Term { return Or(Not(a), b) }

// pairLookup finds the entry whose handle is, term for term, the given bytes.
func (r *Run) pairLookup(bs []*Term, kinds ...string) *pairEntry {
	for _, o := range r.pairs {
		ok := false
		for _, k := range kinds {
			if o.kind == k {
				ok = true
			}
		}
		if ok && sameTerms(o.handle, bs) {
			return o
		}
	}
	return nil
}

// asn1Resolve: the registered ASN.1 value behind the bytes (application tags peeled off).
func (r *Run) asn1Resolve(b *SliceV) *pairEntry {
	bs := sliceBytes(b)
	for i := 0; i < 8; i++ {
		e := r.pairLookup(bs, "asn1", "apptag")
		if e == nil {
			return nil
		}
		if e.kind == "asn1" {
			return e
		}
		bs = sliceBytes(e.val.(*SliceV))
	}
	return nil
}

func (e *Engine) registerPairs() {
	in := e.intrinsics
	const asn1Pkg = "github.com/jcmturner/gofork/encoding/asn1"
	hl := func(r *Run) int { return int(r.param("handlelen", 4)) }
	isBytes := func(t types.Type) bool {
		s, ok := t.Underlying().(*types.Slice)
		if !ok {
			return false
		}
		b, ok := s.Elem().Underlying().(*types.Basic)
		return ok && b.Kind() == types.Uint8
	}
	callsASN1 := func(fn *ssa.Function, prefix string) bool {
		for _, b := range fn.Blocks {
			for _, ins := range b.Instrs {
				if c, ok := ins.(ssa.CallInstruction); ok {
					if f := c.Common().StaticCallee(); f != nil && f.Pkg != nil && f.Pkg.Pkg.Path() == asn1Pkg && strings.HasPrefix(f.Name(), prefix) {
						return true
					}
				}
			}
		}
		return false
	}
	deref := func(r *Run, v Value, t types.Type) (Value, types.Type) {
		if pt, ok := t.Underlying().(*types.Pointer); ok {
			p := v.(*PtrV)
			if p.obj == nil {
				r.mustNot(True, "nil", lbl("marshal"), "nil receiver")
			}
			return copyVal(r.load(p, lbl("marshal"))), pt.Elem()
		}
		return copyVal(v), t
	}

	// ---- ASN.1 encoders ---------------------------------------------------------------------------------
	for _, fn := range e.fnByName {
		if fn.Pkg == nil || !strings.HasPrefix(fn.Pkg.Pkg.Path(), "github.com/jcmturner/gokrb5/v8/") || fn.Blocks == nil {
			continue
		}
		res := fn.Signature.Results()
		if !(res.Len() == 1 || (res.Len() == 2 && res.At(1).Type().String() == "error")) || !isBytes(res.At(0).Type()) {
			continue
		}
		if !callsASN1(fn, "Marshal") || strings.Contains(fn.Name(), "$") {
			continue
		}
		if fn.Signature.Recv() == nil && fn.Signature.Params().Len() == 0 {
			continue // builds its value itself (e.g. from the clock): runs from its real code down to the raw encoder
		}
		fn := fn
		name := fn.String()
		hasErr := res.Len() == 2
		if fn.Name() == "AddASNAppTag" {
			in["asn1pair:"+name] = func(r *Run, fr *Frame, cc *ssa.CallCommon, a []Value) Value {
				inner := a[0].(*SliceV)
				ent := &pairEntry{kind: "apptag", key: name, val: inner}
				ent.flat = append(append([]*Term{}, sliceBytes(inner)...), a[1].(*Term))
				ent.sig = fmt.Sprintf("%d", inner.len)
				return r.bytesToSlice(r.pairEncode(ent, hl(r), false))
			}
			continue
		}
		in["asn1pair:"+name] = func(r *Run, fr *Frame, cc *ssa.CallCommon, a []Value) Value {
			ent := &pairEntry{kind: "asn1", key: name}
			sig := fn.Signature
			k := 0
			if sig.Recv() != nil {
				ent.val, ent.typ = deref(r, a[0], sig.Recv().Type())
				r.flatten(ent.val, &ent.sig, &ent.flat)
				k = 1
			}
			for ; k < len(a); k++ {
				r.flatten(a[k], &ent.sig, &ent.flat)
				if ent.val == nil {
					ent.val, ent.typ = copyVal(a[k]), sig.Params().At(0).Type()
				}
			}
			out := r.bytesToSlice(r.pairEncode(ent, hl(r), false))
			if hasErr {
				return TupleV{out, &IfaceV{}}
			}
			return out
		}
	}
	in["asn1pair:"+asn1Pkg+".Marshal"] = func(r *Run, fr *Frame, cc *ssa.CallCommon, a []Value) Value {
		iv := a[0].(*IfaceV)
		ent := &pairEntry{kind: "asn1", key: "asn1.Marshal " + iv.t.String(), typ: iv.t, val: copyVal(iv.v)}
		r.flatten(iv.v, &ent.sig, &ent.flat)
		return TupleV{r.bytesToSlice(r.pairEncode(ent, hl(r), false)), &IfaceV{}}
	}
	rawUnmarshal := func(r *Run, fr *Frame, cc *ssa.CallCommon, a []Value) Value {
		dst := a[1].(*IfaceV)
		if ent := r.asn1Resolve(a[0].(*SliceV)); ent != nil {
			if pt, ok := dst.t.Underlying().(*types.Pointer); ok && types.Identical(pt.Elem(), ent.typ) {
				r.store(dst.v.(*PtrV), copyVal(ent.val), lbl("asn1.Unmarshal"))
				return TupleV{&SliceV{}, &IfaceV{}}
			}
		}
		return TupleV{&SliceV{}, r.errNew(fr, "asn1: not an encoding of this type produced in this run")}
	}
	in["asn1pair:"+asn1Pkg+".Unmarshal"] = rawUnmarshal
	in["asn1pair:"+asn1Pkg+".UnmarshalWithParams"] = rawUnmarshal

	// ---- ASN.1 decoders (methods) ---------------------------------------------------------------------------
	for _, fn := range e.fnByName {
		if fn.Name() != "Unmarshal" || fn.Signature.Recv() == nil || fn.Pkg == nil || fn.Blocks == nil {
			continue
		}
		if !strings.HasPrefix(fn.Pkg.Pkg.Path(), "github.com/jcmturner/gokrb5/v8/") || !callsASN1(fn, "Unmarshal") {
			continue
		}
		pt, ok := fn.Signature.Recv().Type().(*types.Pointer)
		if !ok || fn.Signature.Params().Len() != 1 || fn.Signature.Results().Len() != 1 {
			continue
		}
		name, typ := fn.String(), pt.Elem()
		in["asn1pair:"+name] = func(r *Run, fr *Frame, cc *ssa.CallCommon, a []Value) Value {
			p := a[0].(*PtrV)
			if p.obj == nil {
				r.mustNot(True, "nil", lbl(name), "nil receiver")
			}
			ent := r.asn1Resolve(a[1].(*SliceV))
			if ent == nil || !types.Identical(ent.typ, typ) {
				return r.errNew(fr, "asn1: not an encoding of this type produced in this run")
			}
			nv := copyVal(ent.val)
			if sv, ok := nv.(StructV); ok {
				if st, ok := typ.Underlying().(*types.Struct); ok {
					old := r.load(p, lbl(name)).(StructV)
					for i := 0; i < st.NumFields(); i++ {
						if !st.Field(i).Exported() && isPtrLike(st.Field(i).Type()) {
							sv[i] = old[i]
						}
					}
				}
			}
			r.store(p, nv, lbl(name))
			return &IfaceV{}
		}
	}

	// ---- encryption ----------------------------------------------------------------------------------------------
	gname := "github.com/jcmturner/gokrb5/v8/crypto.GetEncryptedData"
	dname := "github.com/jcmturner/gokrb5/v8/crypto.DecryptEncPart"
	getEtype := "github.com/jcmturner/gokrb5/v8/crypto.GetEtype"
	in["encpair:"+gname] = func(r *Run, fr *Frame, cc *ssa.CallCommon, a []Value) Value {
		pt := a[0].(*SliceV)
		key := a[1].(StructV)
		kt := r.force(&key[0]).(*Term)
		kv := r.force(&key[1]).(*SliceV)
		edT := e.fnByName[gname].Signature.Results().At(0).Type()
		// the key type must name a supported encryption type (the real selection code)
		res := r.callFn(fr, e.fnByName[getEtype], []Value{kt}, lbl("GetEtype")).(TupleV)
		if res[1].(*IfaceV).t != nil {
			return TupleV{zeroValue(edT), res[1]}
		}
		ent := &pairEntry{kind: "enc", key: gname, val: pt, enc: [3]Value{kt, kv, a[2]}}
		h := r.pairEncode(ent, hl(r), true)
		ed := zeroValue(edT).(StructV)
		*r.structField(edT, ed, "EType") = kt
		*r.structField(edT, ed, "KVNO") = a[3]
		*r.structField(edT, ed, "Cipher") = r.bytesToSlice(h)
		return TupleV{ed, &IfaceV{}}
	}
	in["encpair:"+dname] = func(r *Run, fr *Frame, cc *ssa.CallCommon, a []Value) Value {
		ed := a[0].(StructV)
		key := a[1].(StructV)
		edT := e.fnByName[dname].Signature.Params().At(0).Type()
		cipher := r.force(r.structField(edT, ed, "Cipher")).(*SliceV)
		ent := r.pairLookup(sliceBytes(cipher), "enc")
		if ent == nil {
			return TupleV{&SliceV{}, r.errNew(fr, "decrypt: not a ciphertext produced in this run")}
		}
		kt := r.force(&key[0]).(*Term)
		kv := r.force(&key[1]).(*SliceV)
		ekv := ent.enc[1].(*SliceV)
		ok := And(Eq(kt, ent.enc[0].(*Term)), Eq(a[2].(*Term), ent.enc[2].(*Term)))
		if kv.len != ekv.len {
			ok = False
		} else {
			ok = And(ok, eqTerms(sliceBytes(kv), sliceBytes(ekv)))
		}
		r.ghostLog("decrypt-ok", ok)
		if r.branch(ok) {
			p := ent.val.(*SliceV)
			return TupleV{r.bytesToSlice(sliceBytes(p)), &IfaceV{}}
		}
		return TupleV{&SliceV{}, r.errNew(fr, "decrypt: integrity check failed")}
	}

	// ---- base64 ------------------------------------------------------------------------------------------------------
	in["b64pair:(*encoding/base64.Encoding).EncodeToString"] = func(r *Run, fr *Frame, cc *ssa.CallCommon, a []Value) Value {
		src := a[1].(*SliceV)
		n := (src.len + 2) / 3 * 4
		ent := &pairEntry{kind: "b64", key: "base64", sig: fmt.Sprintf("%d", src.len), flat: sliceBytes(src), val: src}
		fresh := len(r.pairs)
		h := r.pairEncode(ent, n, false)
		if len(r.pairs) > fresh {
			for _, c := range h { // characters of the alphabet (never a space)
				r.addPC(Or(And(ULe(BVu('A', 8), c), ULe(c, BVu('Z', 8))), And(ULe(BVu('a', 8), c), ULe(c, BVu('z', 8)))))
			}
		}
		return &StrV{b: h}
	}
	in["b64pair:(*encoding/base64.Encoding).DecodeString"] = func(r *Run, fr *Frame, cc *ssa.CallCommon, a []Value) Value {
		s := a[1].(*StrV)
		if ent := r.pairLookup(s.b, "b64"); ent != nil {
			return TupleV{r.bytesToSlice(sliceBytes(ent.val.(*SliceV))), &IfaceV{}}
		}
		return TupleV{&SliceV{}, r.errNew(fr, "base64: not an encoding produced in this run")}
	}
}
