package main

import (
	"flag"
	"fmt"
	"os"
	"path/filepath"
	"runtime"
	"runtime/pprof"
	"strconv"
	"strings"
	"time"

	"golang.org/x/tools/go/packages"
	"golang.org/x/tools/go/ssa"
	"golang.org/x/tools/go/ssa/ssautil"
)

var goEnv = []string{"GOFLAGS=-mod=mod", "GOPROXY=off", "GOSUMDB=off", "GOTOOLCHAIN=local"}

// harnessOverlay maps every file under harnessDir to its place in the repository:
// <harnessDir>/<pkg>/x.go -> <repo>/<pkg>/zz_x.go ; extra (path=file) entries replace repo files.
func harnessOverlay(repo, harnessDir string, extra map[string]string) map[string][]byte {
	overlay := map[string][]byte{}
	filepath.Walk(harnessDir, func(p string, info os.FileInfo, err error) error {
		if err != nil || info.IsDir() || !strings.HasSuffix(p, ".go") {
			return nil
		}
		rel, _ := filepath.Rel(harnessDir, p)
		b, _ := os.ReadFile(p)
		dst := filepath.Join(repo, filepath.Dir(rel), "zz_"+filepath.Base(rel))
		overlay[dst] = b
		return nil
	})
	for k, v := range extra {
		b, err := os.ReadFile(v)
		if err != nil {
			panic(err)
		}
		overlay[k] = b
	}
	return overlay
}

func loadProgram(repo string, overlay map[string][]byte) (*ssa.Program, error) {
	cfg := &packages.Config{Mode: packages.LoadAllSyntax, Dir: repo, Overlay: overlay, Env: append(os.Environ(), goEnv...)}
	pkgs, err := packages.Load(cfg, "./...")
	if err != nil {
		return nil, err
	}
	nerr := 0
	packages.Visit(pkgs, nil, func(p *packages.Package) {
		for _, e := range p.Errors {
			fmt.Fprintln(os.Stderr, "load:", e)
			nerr++
		}
	})
	if nerr > 0 {
		return nil, fmt.Errorf("%d package errors", nerr)
	}
	prog, _ := ssautil.AllPackages(pkgs, ssa.InstantiateGenerics)
	prog.Build()
	return prog, nil
}

func newEngine(prog *ssa.Program) *Engine {
	eng := &Engine{prog: prog, intrinsics: map[string]intrinsic{}, ipdom: map[*ssa.BasicBlock]*ssa.BasicBlock{}, ipdomDone: map[*ssa.Function]bool{},
		mergePts: map[*ssa.BasicBlock]*ssa.BasicBlock{}, fnByName: map[string]*ssa.Function{}, nativeStubs: map[string]*stubSpec{}}
	for f := range ssautil.AllFunctions(prog) {
		eng.fnByName[f.String()] = f
	}
	eng.registerIntrinsics()
	eng.registerRegexIntrinsics()
	eng.registerRegexFind()
	eng.registerCrypto()
	eng.registerThreads()
	eng.registerSyncMap()
	eng.registerSyncMisc()
	eng.registerNet()
	eng.registerASN1()
	eng.registerJSON()
	eng.registerHTTP()
	eng.registerPairs()
	eng.registerHTTPClient()
	eng.registerLeak()
	eng.registerExactFmt()
	eng.registerStubs()
	return eng
}

func main() {
	if len(os.Args) < 2 {
		fmt.Println("usage: gosym check|run|list ...")
		os.Exit(2)
	}
	switch os.Args[1] {
	case "check":
		os.Exit(cmdCheck(os.Args[2:]))
	case "run":
		os.Exit(cmdRun(os.Args[2:]))
	case "list":
		for _, in := range allInstances() {
			fmt.Printf("%-4s %-40s %-8s %s  %s\n", in.Property, in.Name, in.Tier, in.Entry, in.paramStr())
		}
	default:
		fmt.Println("unknown command", os.Args[1])
		os.Exit(2)
	}
}

type commonFlags struct {
	repo, harness, z3 *string
	workers           *int
	v                 *bool
}

func addCommon(fs *flag.FlagSet) commonFlags {
	return commonFlags{
		repo:    fs.String("repo", "/repo/v8", "module root of the code under verification"),
		harness: fs.String("harness", "/verif/harness", "harness directory (mirrors repo layout)"),
		z3:      fs.String("solver", "z3-new", "primary solver binary"),
		workers: fs.Int("workers", runtime.NumCPU(), "parallel workers"),
		v:       fs.Bool("v", false, "verbose"),
	}
}

// cmdRun: ad-hoc execution of one harness entry (debugging / calibration).
func cmdRun(args []string) int {
	fs := flag.NewFlagSet("run", flag.ExitOnError)
	cf := addCommon(fs)
	entry := fs.String("entry", "", "harness function, e.g. keytab.VH_Lookup")
	params := fs.String("params", "", "k=v,k=v")
	merge := fs.String("merge", "", "comma separated functions executed with if-conversion")
	stubs := fs.String("stubs", "", "comma separated stub sets")
	logic := fs.String("logic", "", "")
	unwind := fs.Int("unwind", 64, "")
	timeout := fs.Int("timeout", 300, "instance wall-clock budget (s)")
	smtlog := fs.String("smtlog", "", "write the SMT script of worker 0 here")
	replace := fs.String("replace", "", "repoFile=localFile,... (overlay replacement, mutation experiments)")
	replay := fs.Bool("replay", false, "replay violations natively")
	maxpaths := fs.Int("maxpaths", 0, "")
	cpuprof := fs.String("cpuprofile", "", "")
	fs.Parse(args)
	if *cpuprof != "" {
		f, _ := os.Create(*cpuprof)
		pprof.StartCPUProfile(f)
		defer pprof.StopCPUProfile()
	}
	verbose = *cf.v
	in := &Instance{Property: "ADHOC", Name: "run", Entry: *entry, Params: map[string]int64{}, Logic: *logic, Unwind: *unwind, TimeoutS: *timeout, MaxPaths: *maxpaths}
	for _, kv := range strings.Split(*params, ",") {
		if p := strings.SplitN(kv, "=", 2); len(p) == 2 {
			v, _ := strconv.ParseInt(p[1], 0, 64)
			in.Params[p[0]] = v
		}
	}
	if *merge != "" {
		in.Merge = strings.Split(*merge, ",")
	}
	if *stubs != "" {
		in.Stubs = strings.Split(*stubs, ",")
	}
	if !*replay {
		in.Replay = "none"
	}
	in.finish()
	extra := map[string]string{}
	for _, m := range strings.Split(*replace, ",") {
		if kv := strings.SplitN(m, "=", 2); len(kv) == 2 {
			extra[kv[0]] = kv[1]
		}
	}
	t0 := time.Now()
	ov := harnessOverlay(*cf.repo, *cf.harness, extra)
	prog, err := loadProgram(*cf.repo, ov)
	if err != nil {
		fmt.Println("load error:", err)
		return 2
	}
	fmt.Printf("loaded+built in %v\n", time.Since(t0))
	eng := newEngine(prog)
	ck := &Checker{eng: eng, repo: *cf.repo, harness: *cf.harness, solverBin: *cf.z3, workers: *cf.workers, smtlog: *smtlog, extra: extra}
	res := ck.explore([]*Instance{in})
	ck.printInstance(res[0], true)
	if *replay {
		ck.replayAll(res)
		for _, v := range res[0].viols {
			fmt.Printf("  replay %s: %s %s\n", v.Key, v.replay, v.replayMsg)
		}
	}
	return 0
}
