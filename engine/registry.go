package main

// The registry of harness instances: which entry points are executed, with which parameters,
// bounds, merge lists and stub sets, for which property and tier.

func allInstances() []*Instance {
	var all []*Instance
	add := func(in *Instance) {
		in.finish()
		all = append(all, in)
	}
	p := func(kv ...interface{}) map[string]int64 {
		m := map[string]int64{}
		for i := 0; i+1 < len(kv); i += 2 {
			switch v := kv[i+1].(type) {
			case int:
				m[kv[i].(string)] = int64(v)
			case int64:
				m[kv[i].(string)] = v
			}
		}
		return m
	}
	_ = p
	regC13(add, p)
	return all
}

type addFn func(*Instance)
type pFn func(kv ...interface{}) map[string]int64

func regC13(add addFn, p pFn) {
	add(&Instance{Property: "C13", Name: "length-roundtrip", Entry: "asn1tools.VH_C13_LengthRoundTrip", Reach: []string{"marshalled", "short-form", "long-form"},
		Bound: "every length l in [0, 2^31) (statement asks for 0..2^24)"})
	add(&Instance{Property: "C13", Name: "flags", Entry: "types.VH_C13_Flags", Reach: []string{"done"}, Bound: "all flag indices i,j in [0,32), all 2^32 flag words"})
}

func itoa(n int) string { return fmtInt(int64(n)) }

func propertyAssumptions(prop string, stubs map[string]bool) map[string]bool {
	m := map[string]bool{
		"go/ssa (x/tools v0.29.0) faithfully represents the Go source of /repo/v8 and its dependencies":         true,
		"gosym interpreter implements Go integer/slice/string/map semantics (validated by native replay of counterexamples and concrete self-tests)": true,
		"z3 5.1.0 decides QF_BV/QF_UFBV correctly": true,
	}
	for k := range stubAssumptions {
		if stubs[k] {
			m[stubAssumptions[k]] = true
		}
	}
	for _, a := range perPropertyAssumptions[prop] {
		m[a] = true
	}
	return m
}

var stubAssumptions = map[string]string{}
var perPropertyAssumptions = map[string][]string{}
