package main

// The registry of harness instances: which entry points are executed, with which parameters,
// bounds, merge lists and stub sets, for which property and tier.

func allInstances() []*Instance {
	var all []*Instance
	add := func(in *Instance) {
		in.finish()
		all = append(all, in)
	}
	p := func(kv ...interface{}) map[string]int64 {
		m := map[string]int64{}
		for i := 0; i+1 < len(kv); i += 2 {
			switch v := kv[i+1].(type) {
			case int:
				m[kv[i].(string)] = int64(v)
			case int64:
				m[kv[i].(string)] = v
			}
		}
		return m
	}
	_ = p
	regC13(add, p)
	regC14(add, p)
	regC04(add, p)
	regC17(add, p)
	regC05(add, p)
	regC06(add, p)
	regC07(add, p)
	regC08(add, p)
	regC15(add, p)
	regC01(add, p)
	regC09(add, p)
	regC10(add, p)
	regC16(add, p)
	regC19(add, p)
	regC03(add, p)
	regC01b(add, p)
	regC19b(add, p)
	regC13b(add, p)
	regC10b(add, p)
	regC18(add, p)
	regC20(add, p)
	regC20b(add, p)
	regC20c(add, p)
	regC02(add, p)
	regC11(add, p)
	regC12(add, p)
	return all
}

type addFn func(*Instance)
type pFn func(kv ...interface{}) map[string]int64

func regC13(add addFn, p pFn) {
	add(&Instance{Property: "C13", Name: "length-roundtrip", Entry: "asn1tools.VH_C13_LengthRoundTrip", Reach: []string{"marshalled", "short-form", "long-form"},
		Bound: "every length l in [0, 2^31) (statement asks for 0..2^24)"})
	add(&Instance{Property: "C13", Name: "flags", Entry: "types.VH_C13_Flags", Reach: []string{"done"}, Bound: "all flag indices i,j in [0,32), all 2^32 flag words"})
}

func itoa(n int) string { return fmtInt(int64(n)) }

func propertyAssumptions(prop string, stubs map[string]bool) map[string]bool {
	m := map[string]bool{
		"go/ssa (x/tools v0.29.0) faithfully represents the Go source of /repo/v8 and its dependencies":         true,
		"gosym interpreter implements Go integer/slice/string/map semantics (validated by native replay of counterexamples and concrete self-tests)": true,
		"z3 5.1.0 decides QF_BV/QF_UFBV correctly": true,
	}
	for k := range stubAssumptions {
		if stubs[k] {
			m[stubAssumptions[k]] = true
		}
	}
	for _, a := range perPropertyAssumptions[prop] {
		m[a] = true
	}
	return m
}

var stubAssumptions = map[string]string{}
var perPropertyAssumptions = map[string][]string{}

func regC14(add addFn, p pFn) {
	add(&Instance{Property: "C14", Name: "lookup-e2c2", Entry: "keytab.VH_C14_Lookup", Params: p("entries", 2, "comps", 2, "slen", 1, "klen", 1, "qlen", 0), Reach: []string{"found", "notfound"},
		Bound: "0..2 entries, 0..2 components per entry and query, strings of 1 symbolic byte, keys 0..1 bytes, kvno full 32-bit, etype full int32, timestamps full signed 32-bit"})
	// (3 entries with 0..2 components and 2-byte strings did not finish within 5 000 000 paths: 3 entries are registered with 0..1 components)
	add(&Instance{Property: "C14", Name: "lookup-e3c1", Entry: "keytab.VH_C14_Lookup", Params: p("entries", 3, "comps", 1, "slen", 1, "klen", 1, "qlen", 0), Tier: "thorough", Reach: []string{"found", "notfound"}, TimeoutS: 6000, MaxPaths: 1500000,
		Bound: "0..3 entries, 0..1 components, strings of 1 symbolic byte, keys 0..1 bytes"})
	add(&Instance{Property: "C14", Name: "lookup-varlen", Entry: "keytab.VH_C14_Lookup", Params: p("entries", 1, "comps", 2, "slen", 1, "klen", 1, "qlen", 3), Reach: []string{"found", "notfound"},
		Bound: "0..1 entries, 0..2 components; entry component strings of every length 0..1, query component strings of every length 0..3 (empty components, separators inside components)"})
	add(&Instance{Property: "C14", Name: "lookup-varlen-e2", Entry: "keytab.VH_C14_Lookup", Params: p("entries", 2, "comps", 2, "slen", 2, "klen", 1, "qlen", 5), Tier: "thorough", Reach: []string{"found", "notfound"}, TimeoutS: 6000, MaxPaths: 1200000,
		Bound: "0..2 entries, 0..2 components; entry strings 0..2 bytes, query strings 0..5 bytes"})
	for _, v := range []int{1, 2} {
		add(&Instance{Property: "C14", Name: "roundtrip-v" + itoa(v), Entry: "keytab.VH_C14_RoundTrip", Params: p("version", v, "entries", 2, "comps", 2, "slen", 1, "klen", 2), Reach: []string{"compared"},
			Bound: "2 entries, 0..2 components, 1-byte strings, 2-byte keys, all integer fields full range"})
		add(&Instance{Property: "C14", Name: "roundtrip-big-v" + itoa(v), Entry: "keytab.VH_C14_RoundTrip", Params: p("version", v, "entries", 3, "comps", 3, "slen", 2, "klen", 4), Tier: "thorough", Reach: []string{"compared"},
			Bound: "3 entries, 0..3 components, 2-byte strings, 4-byte keys"})
		add(&Instance{Property: "C14", Name: "writer-v" + itoa(v), Entry: "keytab.VH_C14_IndependentWriter", Params: p("version", v, "entries", 2, "comps", 2, "slen", 1, "klen", 2, "hole", 2), Reach: []string{"compared"},
			Bound: "2 entries each optionally preceded by a hole of 0..2 arbitrary bytes, with/without the 32-bit kvno, 0..2 components"})
		add(&Instance{Property: "C14", Name: "writer-big-v" + itoa(v), Entry: "keytab.VH_C14_IndependentWriter", Params: p("version", v, "entries", 3, "comps", 2, "slen", 2, "klen", 3, "hole", 5), Tier: "thorough", Reach: []string{"compared"}, TimeoutS: 1200,
			Bound: "3 entries, holes 0..5 bytes"})
	}
}

func regC04(add addFn, p pFn) {
	// keytab
	add(&Instance{Property: "C04", Name: "keytab-short", Entry: "keytab.VH_C04_UnmarshalShort", Reach: []string{"returned"}, Bound: "every input of 0..3 bytes"})
	for _, n := range []int{8, 12, 14} {
		add(&Instance{Property: "C04", Name: "keytab-n" + itoa(n), Entry: "keytab.VH_C04_Unmarshal", Params: p("n", n), Reach: []string{"returned"}, Unwind: n + 8,
			Bound: "every input of exactly n bytes starting 05 01|02 (other first bytes are rejected before any parsing; see keytab-short)"})
	}
	for _, n := range []int{18, 22} {
		add(&Instance{Property: "C04", Name: "keytab-n" + itoa(n), Entry: "keytab.VH_C04_Unmarshal", Params: p("n", n), Tier: "thorough", Reach: []string{"returned"}, Unwind: n + 8, TimeoutS: 1500,
			Bound: "every input of exactly n bytes starting 05 01|02"})
	}
	// post-decode indexing: decoders return every shape (empty sequences, short bit strings)
	hv := []string{"lineartime", "decryptstub", "asn1havoc", "nfolduf", "des3rtkuf"}
	add(&Instance{Property: "C04", Name: "apreq-verify-shapes", Entry: "messages.VH_C04_APReqVerifyShapes", Params: p("maxseq", 1, "maxstr", 1, "maxbits", 4), Stubs: hv, Logic: "QF_UFBV", Replay: "stubbed", Reach: []string{"returned"}, TimeoutS: 1200,
		Bound: "AP-REQ verification with ticket/override names of 0..2 components and every decoded shape: sequences 0..2, strings 0..1, flags 0..4 bytes"})
	add(&Instance{Property: "C04", Name: "apreq-verify-shapes-bytes", Entry: "messages.VH_C04_APReqVerifyShapes", Params: p("maxseq", 1, "maxstr", 1, "maxbits", 4, "bytelens", 0x1b011), Stubs: hv, Logic: "QF_UFBV", Replay: "stubbed", Reach: []string{"returned"}, TimeoutS: 1200,
		Bound: "decoded byte strings (host addresses, ...) of 0, 4, 12, 13, 15 or 16 arbitrary bytes; AP-REQ verification with ticket/override names of 0..2 components and every decoded shape: sequences 0..2, strings 0..1, flags 0..4 bytes"})
	add(&Instance{Property: "C04", Name: "getpactype-shapes", Entry: "messages.VH_C04_GetPACType", Params: p("maxseq", 2, "maxstr", 1, "maxbits", 4), Stubs: append([]string{"pacprocstub"}, hv...), Logic: "QF_UFBV", Replay: "stubbed", Reach: []string{"returned"},
		Bound: "0..2 authorization data entries of any type, AD-IF-RELEVANT contents decoding to 0..2 entries"})
	add(&Instance{Property: "C04", Name: "getkeyfrompassword-shapes", Entry: "crypto.VH_C04_GetKeyFromPasswordShapes", Params: p("maxseq", 2, "maxstr", 1, "maxbits", 4), Stubs: hv, Logic: "QF_UFBV", Replay: "stubbed", Reach: []string{"returned"},
		Bound: "0..2 PA-DATA hints of any type, ETYPE-INFO / ETYPE-INFO2 decoding to 0..2 entries"})
	// message decryption: every ciphertext length
	cs := []string{"nfolduf", "des3rtkuf"}
	for _, et := range allEtypes {
		for n := 0; n <= 40; n++ {
			tier := "quick"
			if n > 12 && n%8 != 0 && n%8 != 1 && n%8 != 7 && n != 28 && n != 36 {
				tier = "thorough"
			}
			add(&Instance{Property: "C04", Name: "decrypt-e" + itoa(et) + "-n" + itoa(n), Entry: "crypto.VH_C04_DecryptMessage", Params: p("etype", et, "n", n), Stubs: cs, Logic: "QF_UFBV", Tier: tier, Reach: []string{"returned"}, Bound: "every ciphertext of exactly n bytes, every key and usage"})
		}
		for _, n := range []int{48, 64, 80} {
			add(&Instance{Property: "C04", Name: "decrypt-e" + itoa(et) + "-n" + itoa(n), Entry: "crypto.VH_C04_DecryptMessage", Params: p("etype", et, "n", n), Stubs: cs, Logic: "QF_UFBV", Tier: "thorough", Reach: []string{"returned"}, Bound: "every ciphertext of n bytes"})
		}
	}
	// helpers, kadmin, GSS tokens, krb5.conf realm blocks
	for n := 0; n <= 6; n++ {
		add(&Instance{Property: "C04", Name: "asn1-length-n" + itoa(n), Entry: "asn1tools.VH_C04_LengthHelpers", Params: p("n", n), Reach: []string{"returned"}, Bound: "every input of n bytes"})
		add(&Instance{Property: "C04", Name: "kadmin-response-n" + itoa(n), Entry: "kadmin.VH_C04_ParseResponse", Params: p("n", n), Reach: []string{"returned"}, Bound: "every input of n bytes"})
	}
	for _, n := range []int{0, 3, 6, 8, 12} {
		add(&Instance{Property: "C04", Name: "kadmin-reply-n" + itoa(n), Entry: "kadmin.VH_C04_ReplyUnmarshal", Params: p("n", n, "maxseq", 1, "maxstr", 1), Stubs: []string{"asn1havoc"}, Replay: "stubbed", Reach: []string{"returned"}, Bound: "every kpasswd reply of n bytes; embedded AP-REP / KRB-PRIV / KRB-ERROR decoded by stubs"})
	}
	for _, n := range []int{0, 15, 16, 17, 20} {
		add(&Instance{Property: "C04", Name: "gss-wrap-n" + itoa(n), Entry: "gssapi.VH_C17_WrapUnmarshal", Params: p("n", n), Bound: "every Wrap token of n bytes"})
		add(&Instance{Property: "C04", Name: "gss-mic-n" + itoa(n), Entry: "gssapi.VH_C17_MICUnmarshal", Params: p("n", n), Bound: "every MIC token of n bytes"})
	}
	add(&Instance{Property: "C04", Name: "realm-lines-2x2", Entry: "config.VH_C04_RealmLines", Params: p("lines", 2, "len", 2), Reach: []string{"returned"}, Bound: "2 lines of 0..2 characters over { } = a space"})
	// (realm-lines-3x3 exceeded 200 000 paths without finishing: not registered; 2x2 is the bound that runs clean)
	// TCP reply framing: the peer announces an arbitrary 32-bit length
	add(&Instance{Property: "C04", Name: "sendtcp-length", Entry: "client.VH_C04_SendTCP", Params: p("tcphdr", 1, "maxseq", 0, "maxstr", 0), Stubs: []string{"netstub", "asn1havoc", "randstub"}, Logic: "QF_UFBV", Replay: "stubbed", MaxConc: 1200,
		Bound: "one KDC over TCP announcing EVERY 32-bit reply length and sending 2 bytes"})
	// PAC
	for _, n := range []int{8, 24} { // (n=40 exceeded 200 000 paths without finishing: not registered)
		tier := "quick"
		add(&Instance{Property: "C04", Name: "pac-n" + itoa(n), Entry: "pac.VH_C04_PACUnmarshal", Params: p("n", n, "maxseq", 0, "maxstr", 0), Stubs: []string{"ndrhavoc", "nfolduf", "des3rtkuf"}, Logic: "QF_UFBV", Replay: "stubbed", Tier: tier, Reach: []string{"returned"}, TimeoutS: 1200,
			Bound: "every PAC of exactly n bytes (allocation decided for every buffer count, processing for <= 2 buffers)"})
	}
	for _, n := range []int{0, 4, 10, 12} {
		tier := "quick"
		if n == 12 {
			tier = "thorough" // the UPN_DNS_INFO header is complete: every offset/length combination (~3*10^5 paths)
		}
		add(&Instance{Property: "C04", Name: "pac-sub-n" + itoa(n), Entry: "pac.VH_C04_PACSubBuffers", Params: p("n", n), Tier: tier, MaxPaths: 2000000, TimeoutS: 3000, Reach: []string{"returned"}, Bound: "SignatureData / ClientInfo / UPNDNSInfo decoders on every input of n bytes"})
	}
	// ccache
	add(&Instance{Property: "C04", Name: "ccache-short", Entry: "credentials.VH_C04_CCacheUnmarshal", Params: p("n", 1, "version", 0), Bound: "every input of 1 byte"})
	add(&Instance{Property: "C04", Name: "ccache-empty", Entry: "credentials.VH_C04_CCacheUnmarshal", Params: p("n", 0, "version", 0), Bound: "the empty input"})
	for v := 1; v <= 4; v++ {
		add(&Instance{Property: "C04", Name: "ccache-v" + itoa(v) + "-n12", Entry: "credentials.VH_C04_CCacheUnmarshal", Params: p("n", 12, "version", v), Bound: "every input of 12 bytes of format version v"})
		add(&Instance{Property: "C04", Name: "ccache-v" + itoa(v) + "-n20", Entry: "credentials.VH_C04_CCacheUnmarshal", Params: p("n", 20, "version", v), Tier: "thorough", TimeoutS: 1200, Bound: "every input of 20 bytes of format version v"})
	}
}

func regC17(add addFn, p pFn) {
	for _, n := range []int{0, 15, 16, 17, 20, 28, 40} {
		tier := "quick"
		if n == 40 {
			tier = "thorough"
		}
		reach := []string{"accepted", "rejected"}
		if n < 16 {
			reach = []string{"short"}
		}
		add(&Instance{Property: "C17", Name: "wrap-unmarshal-n" + itoa(n), Entry: "gssapi.VH_C17_WrapUnmarshal", Params: p("n", n), Tier: tier, Reach: reach, Bound: "every token of exactly n bytes, both expected directions"})
		add(&Instance{Property: "C17", Name: "mic-unmarshal-n" + itoa(n), Entry: "gssapi.VH_C17_MICUnmarshal", Params: p("n", n), Tier: tier, Reach: reach, Bound: "every token of exactly n bytes, both expected directions"})
	}
	for _, pc := range [][2]int{{0, 0}, {1, 12}, {17, 12}, {5, 16}, {64, 24}, {300, 24}} {
		tier := "quick"
		if pc[0] >= 64 {
			tier = "thorough"
		}
		add(&Instance{Property: "C17", Name: "wrap-marshal-p" + itoa(pc[0]) + "-c" + itoa(pc[1]), Entry: "gssapi.VH_C17_WrapMarshal", Params: p("payload", pc[0], "cksum", pc[1]), Tier: tier, Reach: []string{"done"},
			Bound: "payload and checksum of the given lengths with symbolic contents; flags, RRC, 64-bit sequence number symbolic; EC = checksum length"})
	}
	cs := []string{"nfolduf", "des3rtkuf"}
	for _, et := range allEtypes {
		for _, n := range []int{0, 1, 2, 17, 100, 300} {
			tier := "quick"
			if n >= 100 {
				tier = "thorough"
			}
			add(&Instance{Property: "C17", Name: "wrap-checksum-e" + itoa(et) + "-n" + itoa(n), Entry: "gssapi.VH_C17_WrapChecksum", Params: p("etype", et, "n", n), Stubs: cs, Logic: "QF_UFBV", Tier: tier, Reach: []string{"done"},
				Bound: "payload of n symbolic bytes; flags, RRC, 64-bit sequence number, key, all 2^32 usages symbolic"})
			add(&Instance{Property: "C17", Name: "mic-checksum-e" + itoa(et) + "-n" + itoa(n), Entry: "gssapi.VH_C17_MICChecksum", Params: p("etype", et, "n", n), Stubs: cs, Logic: "QF_UFBV", Tier: tier, Reach: []string{"done"},
				Bound: "payload of n symbolic bytes; flags, sequence number, key, usage symbolic"})
		}
		// every payload length 0..300 (the checksum input is assembled from payload and header: buffer boundaries)
		for n := 0; n <= 300; n++ {
			if n == 0 || n == 1 || n == 2 || n == 17 || n == 100 || n == 300 {
				continue
			}
			tier := "thorough"
			if et == 18 {
				tier = "quick"
			}
			add(&Instance{Property: "C17", Name: "wrap-checksum-e" + itoa(et) + "-n" + itoa(n), Entry: "gssapi.VH_C17_WrapChecksum", Params: p("etype", et, "n", n), Stubs: cs, Logic: "QF_UFBV", Tier: tier, Reach: []string{"done"},
				Bound: "payload of n symbolic bytes; flags, RRC, 64-bit sequence number, key, all 2^32 usages symbolic"})
			add(&Instance{Property: "C17", Name: "mic-checksum-e" + itoa(et) + "-n" + itoa(n), Entry: "gssapi.VH_C17_MICChecksum", Params: p("etype", et, "n", n), Stubs: cs, Logic: "QF_UFBV", Tier: tier, Reach: []string{"done"},
				Bound: "payload of n symbolic bytes; flags, sequence number, key, usage symbolic"})
		}
		for mode := 0; mode <= 4; mode++ {
			add(&Instance{Property: "C17", Name: "wrap-binding-e" + itoa(et) + "-m" + itoa(mode), Entry: "gssapi.VH_C17_WrapBinding", Params: p("etype", et, "n", 3, "mode", mode), Stubs: append([]string{"idealmac"}, cs...), Logic: "QF_UFBV", Reach: []string{"checked"},
				Bound: "3-byte payload; mode 0 payload / 1 flags / 2 sequence number / 3 key / 4 usage changed to ANY other value between checksum computation and verification (idealised MAC)"})
			add(&Instance{Property: "C17", Name: "mic-binding-e" + itoa(et) + "-m" + itoa(mode), Entry: "gssapi.VH_C17_MICBinding", Params: p("etype", et, "n", 3, "mode", mode), Stubs: append([]string{"idealmac"}, cs...), Logic: "QF_UFBV", Reach: []string{"checked"},
				Bound: "as wrap-binding"})
		}
		for w, wn := range []string{"mic", "wrap"} {
			add(&Instance{Property: "C17", Name: wn + "-key-buffer-reuse-e" + itoa(et), Entry: "gssapi.VH_C17_KeyBufferReuse", Params: p("etype", et, "n", 3, "wrap", w), Stubs: append([]string{"idealmac"}, cs...), Logic: "QF_UFBV", Reach: []string{"done"},
				Bound: "history of 4 calls on one key buffer refilled in place with ANY unrelated key between the second and the third; 3-byte payload; flags, sequence number, usage symbolic (idealised MAC)"})
		}
		add(&Instance{Property: "C17", Name: "initiator-tokens-e" + itoa(et), Entry: "gssapi.VH_C17_InitiatorTokens", Params: p("etype", et, "n", 5), Stubs: cs, Logic: "QF_UFBV", Reach: []string{"done"}, Bound: "5-byte payload, symbolic key"})
	}
	for _, c := range []int{0, 12, 16, 24} {
		add(&Instance{Property: "C17", Name: "mic-marshal-c" + itoa(c), Entry: "gssapi.VH_C17_MICMarshal", Params: p("cksum", c), Reach: []string{"done"}, Bound: "checksum of the given length, symbolic flags and sequence number"})
	}
}

var allEtypes = []int{16, 17, 18, 19, 20, 23}

func regC05(add addFn, p pFn) {
	for _, et := range allEtypes {
		for _, n := range []int{0, 1, 7, 8, 9, 15, 16, 17, 31, 32, 33} {
			add(&Instance{Property: "C05", Name: "encrypt-e" + itoa(et) + "-n" + itoa(n), Entry: "crypto.VH_C05_Encrypt", Params: p("etype", et, "n", n), Stubs: []string{"nfolduf", "des3rtkuf"}, Logic: "QF_UFBV",
				Reach: []string{"encrypted", "decrypted"}, Bound: "plaintext of exactly n bytes; key, confounder, plaintext and all 2^32-1 non-zero key usages symbolic"})
		}
		for _, n := range []int{47, 48, 49, 64, 65, 100, 130} {
			add(&Instance{Property: "C05", Name: "encrypt-e" + itoa(et) + "-n" + itoa(n), Entry: "crypto.VH_C05_Encrypt", Params: p("etype", et, "n", n), Stubs: []string{"nfolduf", "des3rtkuf"}, Logic: "QF_UFBV", Tier: "thorough",
				Reach: []string{"encrypted", "decrypted"}, Bound: "plaintext of exactly n bytes; everything else symbolic"})
		}
		add(&Instance{Property: "C05", Name: "encrypt-twice-e" + itoa(et), Entry: "crypto.VH_C05_EncryptTwice", Params: p("etype", et, "n", 17), Stubs: []string{"nfolduf", "des3rtkuf"}, Logic: "QF_UFBV", Reach: []string{"done"},
			Bound: "history of two encryptions with one key and usage, two arbitrary 17-byte plaintexts; the confounder of each is one of the first four confounder-sized windows of the random bytes drawn so far, and not the same window twice"})
		add(&Instance{Property: "C05", Name: "api-e" + itoa(et), Entry: "crypto.VH_C05_PublicAPI", Params: p("etype", et, "n", 17), Stubs: []string{"nfolduf", "des3rtkuf"}, Logic: "QF_UFBV", Reach: []string{"done"},
			Bound: "GetEncryptedData/DecryptMessage wrappers, 17-byte plaintext"})
	}
}

func regC06(add addFn, p pFn) {
	for _, et := range allEtypes {
		pr := map[int][3]int{16: {8, 20, 8}, 17: {16, 12, 1}, 18: {16, 12, 1}, 19: {16, 16, 1}, 20: {16, 24, 1}, 23: {8, 16, 1}}[et] // confounder, tag, pad
		cl := func(n int) int {
			l := pr[0] + n
			if pr[2] == 8 {
				l = (l + 7) / 8 * 8
			}
			return l + pr[1]
		}
		for _, n := range []int{0, 1, 15, 16, 17, 33} {
			add(&Instance{Property: "C06", Name: "general-e" + itoa(et) + "-n" + itoa(n), Entry: "crypto.VH_C06_General", Params: p("etype", et, "n", cl(n)), Stubs: []string{"nfolduf", "des3rtkuf"}, Logic: "QF_UFBV",
				Reach: []string{"accepted", "rejected"}, Bound: "EVERY byte string of the length of an RFC ciphertext of an n-byte plaintext; key and all non-zero usages symbolic"})
			for mode := 0; mode <= 4; mode++ {
				if et == 23 && mode == 2 {
					continue // rc4: the tag also keys the cipher layer; "changed tag rejected" is a MAC-forgery statement, covered by the general form
				}
				add(&Instance{Property: "C06", Name: "tamper-e" + itoa(et) + "-n" + itoa(n) + "-m" + itoa(mode), Entry: "crypto.VH_C06_Tamper", Params: p("etype", et, "n", n, "mode", mode), Stubs: []string{"nfolduf", "des3rtkuf", "idealmac"}, Logic: "QF_UFBV",
					Reach: []string{"checked"}, Bound: "genuine RFC ciphertext of an n-byte plaintext; mode 1: every non-zero xor mask over the cipher body, 2: over the tag, 3: every other key, 4: every other non-aliased usage (idealised MAC)"})
			}
		}
		add(&Instance{Property: "C06", Name: "sequence-e" + itoa(et), Entry: "crypto.VH_C06_Sequence", Params: p("etype", et, "n", 5), Stubs: []string{"nfolduf", "des3rtkuf", "idealmac"}, Logic: "QF_UFBV",
			Reach: []string{"done"}, Bound: "history: decrypt with key buffer B=K1, refill B in place with K2, decrypt old and new ciphertexts, encrypt; 5-byte plaintext (idealised MAC)"})
		for _, n := range []int{2, 8, 31, 32, 48, 64} {
			add(&Instance{Property: "C06", Name: "general-e" + itoa(et) + "-n" + itoa(n), Entry: "crypto.VH_C06_General", Params: p("etype", et, "n", cl(n)), Stubs: []string{"nfolduf", "des3rtkuf"}, Logic: "QF_UFBV", Tier: "thorough",
				Reach: []string{"accepted", "rejected"}, Bound: "EVERY byte string of that length"})
			for mode := 1; mode <= 4; mode++ {
				if et == 23 && mode == 2 {
					continue
				}
				add(&Instance{Property: "C06", Name: "tamper-e" + itoa(et) + "-n" + itoa(n) + "-m" + itoa(mode), Entry: "crypto.VH_C06_Tamper", Params: p("etype", et, "n", n, "mode", mode), Stubs: []string{"nfolduf", "des3rtkuf", "idealmac"}, Logic: "QF_UFBV", Tier: "thorough",
					Reach: []string{"checked"}, Bound: "as quick tier, n-byte plaintext"})
			}
		}
	}
}

func regC07(add addFn, p pFn) {
	for _, et := range []int{16, 17, 18, 19, 20} {
		for _, kl := range []int{0, 16, 24, 32} {
			for _, cl := range []int{0, 12} {
				add(&Instance{Property: "C07", Name: "verify-wrong-keylen-e" + itoa(et) + "-k" + itoa(kl) + "-c" + itoa(cl), Entry: "crypto.VH_C07_VerifyWrongKeyLength", Params: p("etype", et, "keylen", kl, "cklen", cl), Stubs: []string{"nfolduf", "des3rtkuf"}, Logic: "QF_UFBV",
					Bound: "a key of " + itoa(kl) + " bytes (not the etype's length), any 3 data bytes, any candidate checksum of " + itoa(cl) + " bytes, any usage"})
			}
		}
	}
	for _, et := range allEtypes {
		for _, n := range []int{0, 1, 64, 65, 200} {
			tier := "quick"
			add(&Instance{Property: "C07", Name: "checksum-e" + itoa(et) + "-n" + itoa(n), Entry: "crypto.VH_C07_Checksum", Params: p("etype", et, "n", n), Stubs: []string{"nfolduf", "des3rtkuf"}, Logic: "QF_UFBV", Tier: tier,
				Reach: []string{"done"}, Bound: "data of exactly n bytes; key, data, all 2^32 usages symbolic; candidate checksums of length L-1, L, L+1 fully symbolic"})
		}
		for _, n := range []int{5, 63, 128} {
			add(&Instance{Property: "C07", Name: "checksum-e" + itoa(et) + "-n" + itoa(n), Entry: "crypto.VH_C07_Checksum", Params: p("etype", et, "n", n), Stubs: []string{"nfolduf", "des3rtkuf"}, Logic: "QF_UFBV", Tier: "thorough",
				Reach: []string{"done"}, Bound: "data of exactly n bytes"})
		}
		for mode := 0; mode <= 2; mode++ {
			add(&Instance{Property: "C07", Name: "verify-other-e" + itoa(et) + "-m" + itoa(mode), Entry: "crypto.VH_C07_VerifyOther", Params: p("etype", et, "n", 9, "mode", mode), Stubs: []string{"nfolduf", "des3rtkuf", "idealmac"}, Logic: "QF_UFBV",
				Reach: []string{"checked"}, Bound: "9-byte data; mode 0: every other data of that length, 1: every other key, 2: every other non-aliased usage (idealised MAC)"})
		}
	}
	for _, pr := range [][2]int{{17, 19}, {19, 17}, {18, 20}, {20, 18}, {16, 17}, {17, 18}, {23, 17}, {17, 23}, {17, 17}} {
		add(&Instance{Property: "C07", Name: "sequence-e" + itoa(pr[0]) + "-e" + itoa(pr[1]), Entry: "crypto.VH_C07_Sequence", Params: p("e1", pr[0], "e2", pr[1], "n", 5), Stubs: []string{"nfolduf", "des3rtkuf"}, Logic: "QF_UFBV",
			Reach: []string{"done"}, Bound: "two successive checksum computations with the same key bytes (where the key lengths agree), usage and 5-byte data under two etypes"})
	}
	add(&Instance{Property: "C07", Name: "registry", Entry: "crypto.VH_C07_Registry", Reach: []string{"known", "unknown"}, Bound: "all 2^32 checksum type ids and all 2^32 etype ids"})
}

var ocaMerge = []string{"github.com/jcmturner/gokrb5/v8/crypto/rfc3961.onesComplementAddition", "github.com/jcmturner/gokrb5/v8/crypto/rfc3961.setBit", "github.com/jcmturner/gokrb5/v8/crypto/rfc3961.getBit"}

func regC08(add addFn, p pFn) {
	for _, n := range []int{1, 2, 8} {
		add(&Instance{Property: "C08", Name: "ones-add-n" + itoa(n), Entry: "crypto/rfc3961.VH_C08_OnesComplementAddition", Params: p("n", n), Merge: ocaMerge, Logic: "QF_BV", Reach: []string{"done"}, SolverMs: 120000,
			Bound: "ALL pairs of n-byte operands (8 bytes = the des3 fold width); bit-serial code executed with if-conversion"})
	}
	for _, n := range []int{16, 21} {
		add(&Instance{Property: "C08", Name: "ones-add-n" + itoa(n), Entry: "crypto/rfc3961.VH_C08_OnesComplementAddition", Params: p("n", n), Merge: ocaMerge, Logic: "QF_BV", Tier: "thorough", Reach: []string{"done"}, SolverMs: 600000, TimeoutS: 1500,
			Bound: "ALL pairs of n-byte operands (16 = AES fold width, 21 = des3 string-to-key fold width)"})
	}
	rtkMerge := []string{"github.com/jcmturner/gokrb5/v8/crypto/rfc3961.stretch56Bits", "github.com/jcmturner/gokrb5/v8/crypto/rfc3961.calcEvenParity"}
	add(&Instance{Property: "C08", Name: "des3-group", Entry: "crypto/rfc3961.VH_C08_DES3Group", Merge: rtkMerge, Reach: []string{"done"}, Bound: "ALL 2^56 seeds of one DES key group (parity expansion, 16 weak/semi-weak corrections)"})
	// (the whole 168-bit DES3RandomToKey as one merged query did not finish in 25 minutes: not registered; the per-group lemma above covers all 2^56 seeds of a group and the three groups are independent)
	for _, mn := range [][2]int{{5, 64}, {5, 128}, {8, 64}, {8, 128}, {1, 64}, {16, 128}, {3, 168}, {13, 128}, {9, 168}} {
		add(&Instance{Property: "C08", Name: "nfold-m" + itoa(mn[0]) + "-n" + itoa(mn[1]), Entry: "crypto/rfc3961.VH_C08_NfoldStructure", Params: p("mlen", mn[0], "nbits", mn[1]), Stubs: []string{"ocadduf"}, Logic: "QF_UFBV", Reach: []string{"done"},
			Bound: "every input of mlen bytes folded to nbits (5 bytes = key usage constants, 8 = 'kerberos'); addition summarised by one symbol on both sides (its equality with end-around-carry addition is ones-add-*)"})
	}
	for mlen := 1; mlen <= 64; mlen++ {
		for _, nb := range []int{64, 128, 168} {
			add(&Instance{Property: "C08", Name: "nfold-all-m" + itoa(mlen) + "-n" + itoa(nb), Entry: "crypto/rfc3961.VH_C08_NfoldStructure", Params: p("mlen", mlen, "nbits", nb), Stubs: []string{"ocadduf"}, Logic: "QF_UFBV", Tier: "thorough", Unwind: 20000, Reach: []string{"done"},
				Bound: "every input of mlen bytes (all lengths 1..64) folded to every output size the library uses"})
		}
	}
	cs := []string{"nfolduf", "des3rtkuf"}
	for _, et := range allEtypes {
		for _, cl := range []int{1, 3, 5, 8, 16} {
			add(&Instance{Property: "C08", Name: "derive-e" + itoa(et) + "-c" + itoa(cl), Entry: "crypto.VH_C08_DeriveKey", Params: p("etype", et, "clen", cl), Stubs: cs, Logic: "QF_UFBV", Reach: []string{"done"},
				Bound: "derivation constant of clen symbolic bytes, symbolic key"})
		}
		if et != 23 {
			for _, ps := range [][2]int{{0, 0}, {1, 0}, {0, 1}, {3, 4}, {8, 8}} {
				tier := "quick"
				if ps[0] == 8 {
					tier = "thorough"
				}
				nw := ""
				if et != 16 {
					nw = "the iteration count is symbolic over all 2^32 values: the model may pick billions of PBKDF2 iterations, which a native run does not finish"
				}
				add(&Instance{Property: "C08", Name: "s2k-e" + itoa(et) + "-p" + itoa(ps[0]) + "-s" + itoa(ps[1]), Entry: "crypto.VH_C08_StringToKey", Params: p("etype", et, "plen", ps[0], "slen", ps[1]), Stubs: cs, Logic: "QF_UFBV", Tier: tier, Reach: []string{"done"}, NoWitness: nw,
					Bound: "password and salt of the given lengths with arbitrary byte contents; ALL 2^32 iteration-count parameters"})
			}
		}
		add(&Instance{Property: "C08", Name: "generated-key-e" + itoa(et), Entry: "crypto.VH_C08_GeneratedKey", Params: p("etype", et), Stubs: cs, Logic: "QF_UFBV", Reach: []string{"done"}, Bound: "every outcome of crypto/rand"})
	}
	for _, n := range []int{0, 1, 2, 3, 4} {
		add(&Instance{Property: "C08", Name: "rc4-s2k-n" + itoa(n), Entry: "crypto.VH_C08_RC4StringToKey", Params: p("n", n), Logic: "QF_UFBV", Reach: []string{"done"}, Bound: "every valid UTF-8 password of exactly n bytes (n=4 includes every supplementary-plane character)"})
	}
	add(&Instance{Property: "C08", Name: "rc4-s2k-n6", Entry: "crypto.VH_C08_RC4StringToKey", Params: p("n", 6), Logic: "QF_UFBV", Tier: "thorough", Reach: []string{"done"}, Bound: "every valid UTF-8 password of 6 bytes"})
	for order := 0; order < 6; order++ {
		for mask := 0; mask < 8; mask++ {
			add(&Instance{Property: "C08", Name: "padata-order" + itoa(order) + "-mask" + itoa(mask), Entry: "crypto.VH_C08_PADataPrecedence", Params: p("order", order, "mask", mask, "empty", 0, "maxseq", 1), Stubs: []string{"asn1havoc", "nfolduf", "des3rtkuf", "idealmac"}, Logic: "QF_UFBV", Replay: "stubbed", Reach: []string{"done"},
				Bound: "one of the 6 orders x 8 subsets of {PA-PW-SALT, PA-ETYPE-INFO, PA-ETYPE-INFO2} with symbolic, distinguishable salts and a symbolic password"})
		}
	}
	for order := 0; order < 6; order++ {
		for _, c := range [][2]int{{3, 2}, {5, 4}, {6, 4}, {7, 2}, {7, 4}, {7, 6}} { // (subset, hints that carry no salt)
			add(&Instance{Property: "C08", Name: "padata-nosalt-order" + itoa(order) + "-mask" + itoa(c[0]) + "-empty" + itoa(c[1]), Entry: "crypto.VH_C08_PADataPrecedence", Params: p("order", order, "mask", c[0], "empty", c[1], "maxseq", 1), Stubs: []string{"asn1havoc", "nfolduf", "des3rtkuf", "idealmac"}, Logic: "QF_UFBV", Replay: "stubbed", Reach: []string{"done"},
				Bound: "as padata-order*, with PA-ETYPE-INFO and/or PA-ETYPE-INFO2 carrying no salt (the default salt applies when such a hint governs)"})
		}
	}
	add(&Instance{Property: "C08", Name: "default-params", Entry: "crypto.VH_C08_DefaultParams", Reach: []string{"done"}, Bound: "the six etypes"})
	for _, n := range []int{1, 5, 8, 13, 16} {
		add(&Instance{Property: "C08", Name: "rotate-n" + itoa(n), Entry: "crypto/rfc3961.VH_C08_RotateRight", Params: p("n", n, "reps", 21), Reach: []string{"done"}, Bound: "every n-byte string, rotation steps 13*i for i in 0..20"})
	}
}

func regC15(add addFn, p pFn) {
	for _, c := range [][2]int{{0, 0}, {1, 1}, {2, 0}, {3, 1}} {
		add(&Instance{Property: "C15", Name: "client-from-ccache-n" + itoa(c[0]) + "-conf" + itoa(c[1]), Entry: "client.VH_C15_ClientFromCCache", Params: p("creds", c[0], "conf", c[1]), Stubs: []string{"lineartime", "asn1pair"}, Replay: "stubbed",
			Reach: []string{"checked"}, Bound: "a cache model with a TGT credential, " + itoa(c[0]) + " service credentials (distinct server names; keys, key types, cipher bytes and the four times symbolic) and " + itoa(c[1]) + " configuration entries, handed to client.NewFromCCache"})
	}
	for v := 1; v <= 4; v++ {
		add(&Instance{Property: "C15", Name: "writer-v" + itoa(v) + "-c1", Entry: "credentials.VH_C15_IndependentWriter", Params: p("version", v, "creds", 1, "comps", 2, "slen", 1, "klen", 2, "addrs", 1, "tlen", 3, "hdr", 1, "conf", 0), Reach: []string{"parsed", "done"},
			Bound: "1 credential; 0..2 components per principal, 1-byte strings, 2-byte key, 0..1 addresses and authdata entries, 3-byte ticket, 0..1-byte second ticket, v4 header with 1 field; all contents symbolic; times full 32-bit"})
		add(&Instance{Property: "C15", Name: "writer-v" + itoa(v) + "-c0", Entry: "credentials.VH_C15_IndependentWriter", Params: p("version", v, "creds", 0, "comps", 2, "slen", 1, "klen", 0, "addrs", 0, "tlen", 0, "hdr", 0, "conf", 0), Reach: []string{"parsed", "done"},
			Bound: "no credentials, v4 header without fields"})
		add(&Instance{Property: "C15", Name: "writer-v" + itoa(v) + "-conf", Entry: "credentials.VH_C15_IndependentWriter", Params: p("version", v, "creds", 2, "comps", 1, "slen", 1, "klen", 1, "addrs", 0, "tlen", 1, "hdr", 1, "conf", 1), Reach: []string{"parsed", "done"},
			Bound: "2 credentials, the first a X-CACHECONF configuration entry"})
		add(&Instance{Property: "C15", Name: "writer-v" + itoa(v) + "-c2", Entry: "credentials.VH_C15_IndependentWriter", Params: p("version", v, "creds", 2, "comps", 1, "slen", 2, "klen", 4, "addrs", 1, "tlen", 4, "hdr", 2, "conf", 2), Tier: "thorough", MaxPaths: 1500000, Reach: []string{"parsed", "done"}, TimeoutS: 6000,
			Bound: "2 credentials (second a configuration entry), 0..1 components, 2-byte strings, 4-byte keys, 0..1 addresses/authdata, v4 header with 2 fields (0..2 components and addresses did not finish within 5 000 000 paths)"})
	}
}

var c01Stubs = []string{"lineartime", "decryptstub", "asn1havoc", "pacstub"}

func regC01(add addFn, p pFn) {
	for _, v := range []struct {
		name                                string
		entries, override, pac, prepop, seq int
		tier                                string
	}{{"base", 1, 0, 0, 0, 1, "quick"}, {"override", 1, 1, 0, 0, 1, "quick"}, {"pac", 1, 0, 1, 0, 1, "quick"}, {"prepopulated", 1, 0, 0, 1, 1, "quick"}, {"e2", 2, 0, 0, 0, 1, "thorough"}, {"seq2", 1, 0, 0, 0, 2, "thorough"}} {
		add(&Instance{Property: "C01", Name: "verify-" + v.name, Entry: "service.VH_C01_VerifyAPREQ", Params: p("entries", v.entries, "override", v.override, "pac", v.pac, "prepopulated", v.prepop, "maxseq", v.seq, "maxstr", 1, "maxbits", 4),
			Stubs: c01Stubs, Logic: "QF_UFBV", Tier: v.tier, Replay: "stubbed", Reach: []string{"accepted", "rejected"}, TimeoutS: 6000, MaxPaths: 600000,
			Bound: "keytab entries as given, 1-byte names, ticket sname 1..2 components, decoded sequences (addresses, authorization data, name components) of 0..maxseq elements, strings 0..1 bytes, flags 0..4 bytes, skew in (0, 2^50 ns), clock 1970..2262, all integers full range"})
	}
}

func regC01b(add addFn, p pFn) {
	add(&Instance{Property: "C01", Name: "replay-from-another-address", Entry: "service.VH_C01_ReplayFromAnotherAddress", Params: p("maxseq", 1, "maxstr", 1, "maxbits", 4),
		Stubs: c01Stubs, Logic: "QF_UFBV", Replay: "stubbed", Reach: []string{"first-accepted", "first-rejected"}, TimeoutS: 3000,
		Bound: "one AP-REQ with arbitrary decoded content presented twice through VerifyAPREQ with two arbitrary client addresses; decoded sequences of 0..1 elements"})
}

func regC09(add addFn, p pFn) {
	st := []string{"lineartime", "decryptstub", "asn1havoc", "nfolduf", "des3rtkuf"}
	for _, c := range []int{0, 1} {
		for _, et := range []int{18, 23} {
			if et == 23 && c == 0 {
				continue // rc4 password credentials: string-to-key forks per UTF-8 class; covered at etype 18 (the decision logic is etype-independent) and by C08 rc4-s2k
			}
			if c == 1 && et == 23 {
				continue
			}
			add(&Instance{Property: "C09", Name: "asrep-cred" + itoa(c) + "-e" + itoa(et), Entry: "messages.VH_C09_ASRepVerify", Params: p("cred", c, "etype", et, "maxseq", 1, "maxstr", 1, "maxbits", 4), Stubs: st, Logic: "QF_UFBV", Replay: "stubbed",
				Reach: []string{"accepted", "rejected"}, TimeoutS: 1200, Bound: "credential kind 0 password / 1 keytab; names of 1..2 one-byte components, 0..1 request addresses, decoded sequences 0..1 elements, skew (0,2^50 ns), all integers full range"})
		}
	}
	add(&Instance{Property: "C09", Name: "krberror-surfaces", Entry: "client.VH_C09_KRBErrorSurfaces", Params: p("maxseq", 0, "strlens", 2, "maxbits", 4), Stubs: clientStubs, Logic: "QF_UFBV", Replay: "stubbed", Reach: []string{"done"},
		Bound: "EVERY non-negative KRB-ERROR code (except the three the client acts on) as the KDC's answer to an AS-REQ and to a TGS-REQ"})
	for pref := 0; pref <= 2; pref++ {
		add(&Instance{Property: "C09", Name: "network-krberror-pref" + itoa(pref), Entry: "client.VH_C12_SendToKDC", Params: p("kdcs", 1, "pref", pref, "exchanges", 1, "maxseq", 0, "maxstr", 0), Stubs: []string{"netstub", "asn1havoc", "randstub"}, Logic: "QF_UFBV", Replay: "stubbed",
			Reach: []string{"krb-error"}, Bound: "one KDC, every endpoint behaviour; a KRB-ERROR answer (any code) must come back as that KRBError, passed over only for RESPONSE_TOO_BIG on UDP"})
	}
	add(&Instance{Property: "C09", Name: "tgsrep", Entry: "messages.VH_C09_TGSRepVerify", Params: p("maxseq", 1, "maxstr", 1, "maxbits", 4), Stubs: st, Logic: "QF_UFBV", Replay: "stubbed",
		Reach: []string{"accepted", "rejected"}, TimeoutS: 1200, Bound: "as asrep; reply object arrives with arbitrary nonce/srealm in its decrypted part"})
}

var clientStubs = []string{"lineartime", "decryptstub", "asn1havoc", "kdcstub", "nfolduf", "des3rtkuf"}

func regC10(add addFn, p pFn) {
	add(&Instance{Property: "C10", Name: "cached-ticket", Entry: "client.VH_C10_CachedTicket", Params: p("maxseq", 1, "maxstr", 1, "maxbits", 4), Stubs: clientStubs, Logic: "QF_UFBV", Replay: "stubbed", TimeoutS: 1200,
		Reach: []string{"no-kdc-contact", "renewal-attempted", "renewed"}, Bound: "one cache entry with arbitrary start/end/renew-till instants, arbitrary clock; renewal runs the real TGS exchange against a KDC stub (reply / network error / KRB-ERROR), decoded sequences 0..1, strings 0..1"})
	for _, k := range []int{0, 1, 6, 7, 8, 20} {
		tier := "quick"
		add(&Instance{Property: "C10", Name: "tgs-referral-chain-k" + itoa(k), Entry: "client.VH_C10_TGSReferralChain", Params: p("k", k, "maxseq", 0, "strlens", 2, "maxbits", 4), Stubs: clientStubs, Logic: "QF_UFBV", Replay: "stubbed", Tier: tier, TimeoutS: 1200, Unwind: 64,
			Reach: []string{"failed"}, Bound: "a KDC answering k times with a referral TGT to an arbitrary (symbolic) realm, then with the ticket; the encrypted reply parts (nonce, realm, times, key) arbitrary; chain lengths 0,1,6,7,8,20; bounded = at most 16 requests"})
	}
	for _, k := range []int{0, 1, 7, 9, 20} {
		add(&Instance{Property: "C10", Name: "as-referral-chain-k" + itoa(k), Entry: "client.VH_C10_ASReferralChain", Params: p("k", k, "maxseq", 0, "strlens", 2, "maxbits", 4), Stubs: clientStubs, Logic: "QF_UFBV", Replay: "stubbed", TimeoutS: 1200, Unwind: 64,
			Reach: []string{"done"}, Bound: "a KDC answering k times KDC_ERR_WRONG_REALM with an arbitrary realm, then a network error"})
	}
}

func regC16(add addFn, p pFn) {
	for _, d := range []int{1, 2, 3} {
		add(&Instance{Property: "C16", Name: "resolve-depth" + itoa(d), Entry: "config.VH_C16_ResolveRealm", Params: p("depth", d), Reach: []string{"resolved"}, Bound: "hostnames of exactly depth one-byte labels over {a,b}, optional trailing dot, EVERY subset of the candidate mappings and decoys"})
	}
	for _, d := range []int{4, 5} {
		add(&Instance{Property: "C16", Name: "resolve-depth" + itoa(d), Entry: "config.VH_C16_ResolveRealm", Params: p("depth", d), Tier: "thorough", TimeoutS: 1500, Reach: []string{"resolved"}, Bound: "depth 4 and 5"})
	}
	for _, n := range []int{1, 2, 3} {
		add(&Instance{Property: "C16", Name: "getkdcs-n" + itoa(n), Entry: "config.VH_C16_GetKDCs", Params: p("n", n), Stubs: []string{"randstub"}, Replay: "stubbed", Reach: []string{"done"}, Bound: "n configured KDCs, EVERY outcome of math/rand.Intn, two successive lookups"})
		add(&Instance{Property: "C16", Name: "kpasswd-n" + itoa(n) + "-direct", Entry: "config.VH_C16_GetKpasswdServers", Params: p("n", n, "admin", 0), Stubs: []string{"randstub"}, Replay: "stubbed", Reach: []string{"done"}, Bound: "n kpasswd servers"})
		add(&Instance{Property: "C16", Name: "kpasswd-n" + itoa(n) + "-admin", Entry: "config.VH_C16_GetKpasswdServers", Params: p("n", n, "admin", 1), Stubs: []string{"randstub"}, Replay: "stubbed", Reach: []string{"done"}, Bound: "n admin servers standing in (port 464)"})
	}
	for _, n := range []int{4, 5} {
		add(&Instance{Property: "C16", Name: "getkdcs-n" + itoa(n), Entry: "config.VH_C16_GetKDCs", Params: p("n", n), Stubs: []string{"randstub"}, Replay: "stubbed", Tier: "thorough", TimeoutS: 1500, Reach: []string{"done"}, Bound: "n configured KDCs"})
	}
	for _, n := range []int{0, 1, 2, 3, 4, 5} { // up to the longest documented spelling ("false")
		add(&Instance{Property: "C16", Name: "boolean-n" + itoa(n), Entry: "config.VH_C16_ParseBoolean", Params: p("n", n), Bound: "EVERY printable ASCII string of exactly n bytes"})
	}
	add(&Instance{Property: "C16", Name: "boolean-n6", Entry: "config.VH_C16_ParseBoolean", Params: p("n", 6), Tier: "thorough", TimeoutS: 1500, Bound: "every printable ASCII string of 6 bytes (spellings padded with blanks)"})
	add(&Instance{Property: "C16", Name: "duration-d1", Entry: "config.VH_C16_ParseDuration", Params: p("digits", 1, "form", -1), Reach: []string{"parsed"}, TimeoutS: 600,
		Bound: "every documented duration format (N; h:m; h:m:s; every non-empty combination NdNhNmNs) with every choice of 1-digit numbers, one blank byte on each side"})
	add(&Instance{Property: "C16", Name: "duration-d2", Entry: "config.VH_C16_ParseDuration", Params: p("digits", 2, "form", -1), Reach: []string{"parsed"}, TimeoutS: 600,
		Bound: "as duration-d1 with 2-digit numbers"})
	add(&Instance{Property: "C16", Name: "duration-d4", Entry: "config.VH_C16_ParseDuration", Params: p("digits", 4, "form", -1), Tier: "thorough", Reach: []string{"parsed"}, TimeoutS: 1500,
		Bound: "as duration-d1 with 4-digit numbers"})
	for g, gn := range []string{"bool", "duration", "int", "string"} {
		reach := []string{"parsed"}
		if g == 2 {
			reach = append(reach, "rejected")
		}
		add(&Instance{Property: "C16", Name: "libdefaults-" + gn, Entry: "config.VH_C16_LibDefaultsRelation", Params: p("group", g, "form", -1), Reach: reach, TimeoutS: 600,
			Bound: "one relation `key = value` for every " + gn + " key of [libdefaults], arbitrary valid value (bool: one-letter spellings; duration: 1-digit numbers in every format; int: 1-5 digits; string: 2 printable bytes), one blank byte around key and value; all 24 scalar fields and the lengths of the 5 list fields compared with the defaults"})
	}
	add(&Instance{Property: "C16", Name: "enctype-list", Entry: "config.VH_C16_EnctypeList", Params: p("sep", 1), Reach: []string{"parsed"}, TimeoutS: 900,
		Bound: "lists of 2 names from a menu of 18 documented names (enumerated), for the 3 enctype-list keys, separated and surrounded by one arbitrary blank byte"})
	add(&Instance{Property: "C16", Name: "enctype-list-sep2", Entry: "config.VH_C16_EnctypeList", Params: p("sep", 2), Tier: "thorough", Reach: []string{"parsed"}, TimeoutS: 1500,
		Bound: "as enctype-list with two blank bytes between the names"})
	add(&Instance{Property: "C16", Name: "invalid-files", Entry: "config.VH_C16_InvalidFiles", Reach: []string{"rejected"}, TimeoutS: 900,
		Bound: "4 kinds of structural error (relation without '=' in libdefaults / domain_realm; unmatched closing brace, opening brace without '=' in realms) with an arbitrary 2-letter word, optionally preceded and followed by an unknown section"})
	for _, tl := range []int{3, 10, 12, 14} {
		narrow := 1
		b := "each byte x or the byte a realm-level tag of that length has there"
		if tl == 3 {
			narrow = 0
			b = "EVERY string over a-z and _"
		}
		add(&Instance{Property: "C16", Name: "realm-nested-block-t" + itoa(tl), Entry: "config.VH_C16_RealmNestedBlock", Params: p("taglen", tl, "narrow", narrow), Reach: []string{"done"}, TimeoutS: 600,
			Bound: "a realm body with one nested block (2-letter name) holding one relation whose tag has " + itoa(tl) + " bytes (" + b + "; 3: kdc; 10: master_kdc; 12: admin_server; 14: kpasswd_server, default_domain), between two kdc relations"})
		if tl != 3 {
			add(&Instance{Property: "C16", Name: "realm-nested-block-all-t" + itoa(tl), Entry: "config.VH_C16_RealmNestedBlock", Params: p("taglen", tl, "narrow", 0), Tier: "thorough", Reach: []string{"done"}, TimeoutS: 3000,
				Bound: "as realm-nested-block-t" + itoa(tl) + " with EVERY tag of that length over a-z and _"})
		}
	}
	for _, ws := range []int{0, 1} {
		add(&Instance{Property: "C16", Name: "sections-s2-ws" + itoa(ws), Entry: "config.VH_C16_Sections", Params: p("sections", 2, "ws", ws, "lead", ws), Reach: []string{"loaded"}, TimeoutS: 600,
			Bound: "files of 2 sections in every order (libdefaults/realms/domain_realm at most once, unknown sections named by 1-2 letters), each empty or with one relation, " + itoa(ws) + " blank byte(s) around each header, a 4-byte blank-or-comment line (arbitrary printable text) after every header and relation; regexp matching modelled by NFA simulation of the compiled pattern over ASCII text"})
	}
	add(&Instance{Property: "C16", Name: "sections-s3-ws1", Entry: "config.VH_C16_Sections", Params: p("sections", 3, "ws", 1, "lead", 1), Tier: "thorough", Reach: []string{"loaded"}, TimeoutS: 3000, MaxPaths: 400000,
		Bound: "as sections-s2 with 3 sections"})
	add(&Instance{Property: "C16", Name: "realm-lines-v2", Entry: "config.VH_C16_RealmLines", Params: p("values", 2), Reach: []string{"done"}, Bound: "2 kdc lines with values of 1..2 characters over {h,:,*}"})
	add(&Instance{Property: "C16", Name: "realm-lines-v3", Entry: "config.VH_C16_RealmLines", Params: p("values", 3), Tier: "thorough", Reach: []string{"done"}, Bound: "3 kdc lines"})
}

func regC03(add addFn, p pFn) {
	stubs := []string{"asn1havoc", "apreqstub", "hoststub"}
	apis := []string{"AcceptSecContext", "SPNEGOToken.Verify", "NegTokenInit.Verify", "NegTokenResp.Verify", "KRB5Token.Verify"}
	for api, n := range apis {
		add(&Instance{Property: "C03", Name: "token-verify-" + n, Entry: "spnego.VH_C03_TokenVerify", Params: p("api", api, "maxseq", 2, "maxstr", 1), Stubs: stubs, Replay: "stubbed",
			Reach: []string{"verified", "not-verified"}, Bound: "any decoded token: Init/Resp flags, mech lists of 0..2 OIDs from {KRB5, MS-KRB5, SPNEGO, arbitrary short}, mech token absent/AP-REQ/AP-REP/KRB-ERROR/unknown id; the AP-REQ verdict is the stub's"})
	}
	shapes := []string{"no-header", "any-3-bytes", "negotiate-any-4-chars", "decodable-token"}
	for _, sm := range []int{0, 1} {
		for sh, sn := range shapes {
			ms := 2
			if sh == 2 {
				ms = 0 // this instance is about the base64 layer: decoded tokens are the degenerate ones
			}
			add(&Instance{Property: "C03", Name: "handler-1req-" + sn + "-sm" + itoa(sm), Entry: "spnego.VH_C03_Handler", Params: p("requests", 1, "sm", sm, "shape", sh, "hlen", 3, "b64len", 4, "maxseq", ms, "maxstr", 1), Stubs: stubs, Replay: "stubbed",
				Reach: map[bool][]string{true: {"served", "refused"}, false: {"refused"}}[sh == 3], Bound: "one request; Authorization: " + sn + "; decoded token content arbitrary (lists 0.." + itoa(ms) + ")"})
		}
	}
	add(&Instance{Property: "C03", Name: "handler-2req-sm1", Entry: "spnego.VH_C03_Handler", Params: p("requests", 2, "sm", 1, "shape", -2, "fixoid", 1, "seqlens", 4, "maxstr", 1), Stubs: stubs, Replay: "stubbed", TimeoutS: 900,
		Reach: []string{"served", "refused", "served-under-session", "session-created"}, Bound: "two requests with a session manager (cookie present or not, store failing or not); header absent or a decodable token whose lists have 2 elements and OIDs are KRB5 (token shapes are the 1-request instances' subject)"})
	add(&Instance{Property: "C03", Name: "handler-3req-sm1", Entry: "spnego.VH_C03_Handler", Params: p("requests", 3, "sm", 1, "shape", -2, "fixoid", 1, "seqlens", 4, "maxstr", 1), Stubs: stubs, Replay: "stubbed", Tier: "thorough", TimeoutS: 8000, MaxPaths: 1500000,
		Reach: []string{"served", "refused", "served-under-session", "session-created"}, Bound: "three requests with a session manager (677 097 paths)"})
}

func regC18(add addFn, p pFn) {
	stubs := []string{"httpclient", "ticketstub", "asn1pair", "encpair", "b64pair", "lineartime"}
	methods := []string{"GET", "HEAD", "POST"}
	alphabet := "{200, 401 Negotiate, 401 reject token, 401 other scheme, 302 same host, 302 other host, 500, transport error}"
	for m, mn := range methods {
		for _, l := range []int{0, 1, 2, 3} {
			for _, spn := range []int{0, 1} {
				tier := ""
				if l == 3 || (l == 2 && spn == 1) {
					tier = "thorough"
				}
				body := 0
				if m == 2 {
					body = 3
				}
				add(&Instance{Property: "C18", Name: "do-" + mn + "-len" + itoa(l) + "-spn" + itoa(spn), Entry: "spnego.VH_C18_Do", Params: p("len", l, "method", m, "body", body, "spn", spn, "early", 1, "etype", 18, "keylen", 32, "kinds", 8, "getbody", 0),
					Stubs: stubs, Replay: "stubbed", Tier: tier, TimeoutS: 1500, Reach: []string{"returned"},
					Bound: "every server script of length " + itoa(l) + " over " + alphabet + " + every constant tail; " + mn + "; body " + itoa(body) + " symbolic bytes; the server may answer after reading one body byte; SPN " + map[int]string{0: "derived from the URL", 1: "explicit"}[spn]})
			}
		}
	}
	for _, et := range []int{17, 18, 19, 20, 16, 23} {
		add(&Instance{Property: "C18", Name: "acceptor-round-trip-e" + itoa(et), Entry: "spnego.VH_C18_AcceptorRoundTrip", Params: p("etype", et, "kinds", 8), Stubs: append(append([]string{}, stubs...), "nfolduf", "des3rtkuf"), Logic: "QF_UFBV", Replay: "stubbed", TimeoutS: 1500, Tier: map[bool]string{true: "", false: "thorough"}[et == 18],
			Reach: []string{"accepted"}, Bound: "one challenge and the authenticated retry; service ticket of etype " + itoa(et) + " issued by messages.NewTicket under a symbolic service key; the token is given to the library's acceptor (real service.VerifyAPREQ) twice"})
	}
	// a body that can be re-created (GetBody) and 307 redirects, which make net/http resend the body itself
	add(&Instance{Property: "C18", Name: "do-POST-getbody-307-len2", Entry: "spnego.VH_C18_Do", Params: p("len", 2, "method", 2, "body", 2, "spn", 0, "early", 0, "etype", 18, "keylen", 32, "kinds", 9, "getbody", 1),
		Stubs: stubs, Replay: "stubbed", TimeoutS: 1500, Reach: []string{"returned", "body-read", "challenged"},
		Bound: "scripts of length 2 + tail over the alphabet plus 307-same-host; POST with GetBody; body 2 symbolic bytes"})
	add(&Instance{Property: "C18", Name: "do-POST-getbody-307-len3", Entry: "spnego.VH_C18_Do", Params: p("len", 3, "method", 2, "body", 2, "spn", 0, "early", 0, "etype", 18, "keylen", 32, "kinds", 9, "getbody", 1),
		Stubs: stubs, Replay: "stubbed", Tier: "thorough", TimeoutS: 3000, Reach: []string{"returned", "body-read", "challenged"},
		Bound: "scripts of length 3 + tail over the alphabet plus 307-same-host; POST with GetBody"})
}

func regC20(add addFn, p pFn) {
	add(&Instance{Property: "C20", Name: "keytab-surfaces", Entry: "keytab.VH_C20_KeytabSurfaces", Params: p("keylen", 16), Stubs: []string{"leakcheck"},
		Reach: []string{"parse-error", "parsed"}, Bound: "one entry, 16 secret key bytes; JSON, lookup error, and the parse error of the file truncated at EVERY offset"})
}

func regC20b(add addFn, p pFn) {
	for t, n := range []string{"Ticket", "APReq", "ASRep", "TGSRep", "KRBPriv", "TicketSequence"} {
		add(&Instance{Property: "C20", Name: "marshal-after-decrypt-" + n, Entry: "messages.VH_C20_MarshalAfterDecrypt", Params: p("type", t), Stubs: []string{"leakcheck"},
			Reach: []string{"encoded"}, Bound: n + " holding its decrypted part (secret session key / subkey / user data of 16 bytes) is re-encoded"})
	}
}

func regC20c(add addFn, p pFn) {
	for _, et := range []int{17, 23} {
		add(&Instance{Property: "C20", Name: "client-diagnostics-keytab-unlisted-etype" + itoa(et), Entry: "client.VH_C20_ClientDiagnostics", Params: p("creds", 1, "login", 0, "ktetype", et), Stubs: []string{"leakcheck", "randstub"},
			Reach: []string{"printed"}, Bound: "as client-diagnostics-keytab, the keytab also holding a key of enctype " + itoa(et) + " that the configuration does not list (Diagnostics reports such mismatches)"})
	}
	for _, v := range []int{3, 4} {
		add(&Instance{Property: "C20", Name: "ccache-parse-errors-v" + itoa(v), Entry: "credentials.VH_C20_CCacheParseErrors", Params: p("version", v), Stubs: []string{"leakcheck"}, OnlyAsserts: true,
			Reach: []string{"returned"}, Bound: "a version " + itoa(v) + " credential cache with one credential holding a 16-byte secret key, truncated at EVERY offset; parser panics are C04's subject and end the path here"})
	}
	add(&Instance{Property: "C20", Name: "credentials-surfaces", Entry: "credentials.VH_C20_Credentials", Stubs: []string{"leakcheck"},
		Reach: []string{"dumped"}, Bound: "credentials with an 8-byte secret password and a keytab with a 16-byte secret key: JSON, gob, json.Marshal of the key and of the keytab"})
	for c, n := range []string{"password", "keytab"} {
		add(&Instance{Property: "C20", Name: "client-diagnostics-" + n, Entry: "client.VH_C20_ClientDiagnostics", Params: p("creds", c, "login", 0, "ktetype", 18), Stubs: []string{"leakcheck", "randstub"},
			Reach: []string{"printed"}, Bound: "client with a secret " + n + ", a TGT session and a cached ticket with secret session keys: Print, Diagnostics, log lines"})
		for _, k := range [][3]int{{0, 0, 0}, {1, 6, 0}, {1, 14, 0}, {2, 0, 0}} {
			add(&Instance{Property: "C20", Name: "client-exchange-errors-" + n + "-kdc" + itoa(k[0]) + "-code" + itoa(k[1]), Entry: "client.VH_C20_ClientDiagnostics", Params: p("creds", c, "login", 1, "kdc", k[0], "code", k[1], "ktetype", 18, "maxseq", 1, "maxstr", 1),
				Stubs: []string{"leakcheck", "randstub", "kdcstub", "asn1havoc", "decryptstub", "lineartime"}, Replay: "stubbed", TimeoutS: 600,
				Reach: []string{"printed", "exchanged"}, Bound: "as above, then Login and GetServiceTicket against a KDC that is unreachable (kdc0), answers KRB-ERROR code (kdc1) or undecodable bytes (kdc2): returned errors and log lines"})
		}
	}
}

func regC10b(add addFn, p pFn) {
	for _, et := range []int{17, 18, 19, 20, 16, 23} {
		for c, cn := range []string{"password", "keytab"} {
			add(&Instance{Property: "C10", Name: "preauth-timestamp-" + cn + "-e" + itoa(et), Entry: "client.VH_C10_PreAuthTimestamp", Params: p("etype", et, "creds", c), Stubs: []string{"lineartime", "asn1pair", "encpair", "nfolduf", "des3rtkuf"}, Logic: "QF_UFBV", Replay: "stubbed",
				Reach: []string{"checked"}, Bound: "PA-ENC-TIMESTAMP computed from a " + cn + " (2 symbolic password bytes / a symbolic keytab key) for pre-auth enctype " + itoa(et) + "; a stale value already in the request"})
		}
	}
	for _, rn := range []int{0, 1} {
		add(&Instance{Property: "C10", Name: "session-refresh-renewable" + itoa(rn), Entry: "client.VH_C10_SessionRefresh", Params: p("renewable", rn, "maxseq", 1, "maxstr", 1), Stubs: []string{"lineartime", "kdcstub", "asn1havoc", "decryptstub", "randstub"}, Replay: "stubbed", TimeoutS: 600,
			Reach: []string{"still-fresh"}, Bound: "a TGT session with arbitrary auth/end/renew-till instants; the KDC renews when asked (renewable=1) or is unreachable for the fresh login (renewable=0)"})
	}
	add(&Instance{Property: "C10", Name: "as-req-fields", Entry: "messages.VH_C10_ASReqFields", Stubs: []string{"lineartime"}, Replay: "stubbed",
		Reach: []string{"checked", "renewable"}, Bound: "NewASReq for EVERY configuration of forwardable/proxiable/canonicalize, renew_lifetime and ticket_lifetime (any duration below 2^50 ns), two symbolic etypes, symbolic names; noaddresses"})
	for _, et := range []int{17, 18, 19, 20, 16, 23} {
		add(&Instance{Property: "C10", Name: "tgs-req-fields-e" + itoa(et), Entry: "messages.VH_C10_TGSReqFields", Params: p("etype", et), Stubs: []string{"lineartime", "asn1pair", "encpair", "nfolduf", "des3rtkuf"}, Logic: "QF_UFBV", Replay: "stubbed",
			Reach: []string{"checked"}, Bound: "NewTGSReq for every configuration as above, renewal or not, session key of etype " + itoa(et) + "; ASN.1 and encryption as injective codec pairs; checksum compared with the RFC reference model"})
	}
}

func regC19b(add addFn, p pFn) {
	for _, et := range []int{17, 18, 19, 20, 23} {
		for o := 0; o < 6; o++ {
			add(&Instance{Property: "C19", Name: "other-declared-type-e" + itoa(et) + "-o" + itoa(o), Entry: "pac.VH_C19_OtherDeclaredType", Params: p("etype", et, "other", o, "maxseq", 0, "maxstr", 0), Stubs: []string{"nfolduf", "des3rtkuf", "ndrhavoc"}, Logic: "QF_UFBV", Replay: "stubbed",
				Bound: "service key of etype " + itoa(et) + "; the server signature declares checksum type #" + itoa(o) + " of {12, 15, 16, 1, 7, 0} with the signature length the reader assigns to it and arbitrary signature bytes"})
		}
	}
	for _, c := range [][3]int{{1, 3, 0}, {2, 2, 0}, {1, 0, 3}, {1, 2, 2}, {0, 3, 2}} {
		add(&Instance{Property: "C19", Name: "group-sids-g" + itoa(c[0]) + "-x" + itoa(c[1]) + "-r" + itoa(c[2]), Entry: "pac.VH_C19_GroupSIDs", Params: p("groups", c[0], "extra", c[1], "resource", c[2]), Stubs: []string{"exactfmt"},
			Reach: []string{"done"}, Bound: itoa(c[0]) + " group ids, " + itoa(c[1]) + " extra SIDs, " + itoa(c[2]) + " resource groups; every sub-authority in 0..3 (every pattern of repeats among them)"})
	}
}

func regC13b(add addFn, p pFn) {
	for _, et := range []int{16, 17, 18, 19, 20, 23} {
		for ty, tn := range []string{"Ticket", "APReq", "KRBPriv"} {
			add(&Instance{Property: "C13", Name: "decrypt-leaves-encoding-alone-" + tn + "-e" + itoa(et), Entry: "messages.VH_C13_DecryptLeavesEncodingAlone", Params: p("etype", et, "n", 17, "type", ty, "maxseq", 1, "maxstr", 1),
				Stubs: []string{"nfolduf", "des3rtkuf", "asn1havoc", "lineartime"}, Logic: "QF_UFBV", Replay: "stubbed", Reach: []string{"done", "decrypted"},
				Bound: tn + " whose encrypted part is the RFC ciphertext (etype " + itoa(et) + ") of 17 symbolic bytes: Marshal, real decryption, Marshal"})
		}
	}
	add(&Instance{Property: "C13", Name: "flags-from-zero-value", Entry: "types.VH_C13_FlagsFromZeroValue", Reach: []string{"done"}, Bound: "SetFlag/UnsetFlag on bit strings of 0..3 arbitrary octets, all flag indices in [0,32)"})
	for t, n := range []string{"Ticket", "APReq", "ASRep", "TGSRep", "KRBPriv"} {
		add(&Instance{Property: "C13", Name: "marshal-stable-across-decrypt-" + n, Entry: "messages.VH_C13_MarshalStableAcrossDecrypt", Params: p("type", t), Stubs: []string{"lineartime"},
			Reach: []string{"encoded-twice"}, Bound: n + " with symbolic field values: Marshal before == Marshal after the decrypted part is filled in (asn1.Marshal as an uninterpreted function of its argument)"})
	}
	for _, c := range [][2]int{{0, 8}, {1, 8}, {2, 8}, {3, 8}, {2, 63}, {2, 64}, {3, 60}, {3, 90}} {
		add(&Instance{Property: "C13", Name: "ticket-sequence-framing-n" + itoa(c[0]) + "-l" + itoa(c[1]), Entry: "messages.VH_C13_TicketSequenceFraming", Params: p("n", c[0], "handlelen", c[1]), Stubs: []string{"asn1pair"},
			Bound: itoa(c[0]) + " tickets whose encodings are opaque strings of " + itoa(c[1]) + " bytes (total length on both sides of the 127/128 and 255/256 length-octet boundaries)"})
	}
}

func regC19(add addFn, p pFn) {
	st := []string{"ndrhavoc", "nfolduf", "des3rtkuf", "idealmac"}
	for _, et := range []int{17, 18, 19, 20, 23} {
		add(&Instance{Property: "C19", Name: "general-e" + itoa(et), Entry: "pac.VH_C19_Verify", Params: p("etype", et, "mode", 0, "order", 0, "rodc", 0, "extra", 0, "maxseq", 0, "maxstr", 0), Stubs: st, Logic: "QF_UFBV", Replay: "stubbed",
			Reach: []string{"accepted", "rejected"}, Bound: "PAC of 4 mandatory buffers (logon info 8 bytes, client info, server and KDC signatures of the declared type), EVERY content incl. every signature value"})
		for mode := 1; mode <= 4; mode++ {
			add(&Instance{Property: "C19", Name: "tamper-e" + itoa(et) + "-m" + itoa(mode), Entry: "pac.VH_C19_Verify", Params: p("etype", et, "mode", mode, "order", (mode+et)%4, "rodc", mode%2, "extra", 0, "maxseq", 0, "maxstr", 0), Stubs: st, Logic: "QF_UFBV", Replay: "stubbed",
				Reach: []string{"checked"}, Bound: "correctly signed PAC; mode 1 every non-zero mask over the signed buffer contents (incl. RODC identifiers), 2 over the server signature, 3 every other key, 4 version field (idealised MAC); buffer orders rotated"})
		}
		for _, mode := range []int{0, 1} {
			add(&Instance{Property: "C19", Name: "extra-buffer-e" + itoa(et) + "-m" + itoa(mode), Entry: "pac.VH_C19_Verify", Params: p("etype", et, "mode", mode, "order", et%4, "rodc", 0, "extra", 1, "maxseq", 0, "maxstr", 0), Stubs: st, Logic: "QF_UFBV", Replay: "stubbed",
				Reach: []string{[]string{"accepted", "checked"}[mode]}, Bound: "as general / tamper mode 1, with a fifth buffer of EVERY type the library does not interpret (ticket signature 16, full-PAC signature 19, ...) and arbitrary signature-shaped content: it is signed data like any other"})
		}
		for drop := 0; drop < 4; drop++ {
			add(&Instance{Property: "C19", Name: "mandatory-e" + itoa(et) + "-d" + itoa(drop), Entry: "pac.VH_C19_Mandatory", Params: p("etype", et, "drop", drop, "maxseq", 0, "maxstr", 0), Stubs: st, Logic: "QF_UFBV", Replay: "stubbed",
				Reach: []string{"checked"}, Bound: "one mandatory buffer (logon info / client info / server signature / KDC signature) replaced by an unknown type"})
		}
	}
}

func regC02(add addFn, p pFn) {
	lt := []string{"lineartime", "yieldlocks"}
	for _, h := range []string{"Sequential", "NameEncoding", "TwoServices", "Cleanup", "SameInstantOtherZone"} {
		add(&Instance{Property: "C02", Name: "history-" + h, Entry: "service.VH_C02_" + h, Stubs: lt, Replay: "stubbed", Reach: []string{"done"}, Bound: "history " + h + " from the empty cache; client names of 1 symbolic byte, arbitrary instants, skew in (0, 2^50 ns)"})
	}
	add(&Instance{Property: "C02", Name: "history-k4", Entry: "service.VH_C02_History", Params: p("k", 4), Stubs: lt, Replay: "stubbed", Reach: []string{"done"}, Bound: "EVERY history of 4 operations over {present a1, present a2, clean-up}, arbitrary non-decreasing clock, arbitrary distinct client instants, skew in (0,2^50 ns)"})
	add(&Instance{Property: "C02", Name: "history-k5", Entry: "service.VH_C02_History", Params: p("k", 5), Stubs: lt, Replay: "stubbed", Tier: "thorough", TimeoutS: 3000, SolverMs: 120000, Reach: []string{"done"}, Bound: "every history of 5 operations"})
	add(&Instance{Property: "C02", Name: "busy-client-n40", Entry: "service.VH_C02_BusyClient", Params: p("n", 40), Stubs: lt, Replay: "stubbed", Unwind: 3000, Reach: []string{"done"}, Bound: "40 tracked authenticators of one client (concrete instants)"})
	add(&Instance{Property: "C02", Name: "busy-client-n1100", Entry: "service.VH_C02_BusyClient", Params: p("n", 1100), Stubs: lt, Replay: "stubbed", Unwind: 3000, MaxSteps: 400000000, TimeoutS: 1500, Reach: []string{"done"}, Bound: "1100 tracked authenticators of one client"})
	add(&Instance{Property: "C02", Name: "concurrent-same-2", Entry: "service.VH_C02_ConcurrentSame", Params: p("threads", 2), Stubs: lt, Replay: "stubbed", Reach: []string{"done"}, Bound: "2 goroutines, the same symbolic authenticator, EVERY interleaving at the lock operations"})
	add(&Instance{Property: "C02", Name: "concurrent-same-3", Entry: "service.VH_C02_ConcurrentSame", Params: p("threads", 3), Stubs: lt, Replay: "stubbed", Tier: "thorough", TimeoutS: 1500, Reach: []string{"done"}, Bound: "3 goroutines, every interleaving"})
	add(&Instance{Property: "C02", Name: "sweeper-skew", Entry: "service.VH_C02_SweeperSkew", Stubs: []string{"lineartime", "bgo"}, Replay: "stubbed", Reach: []string{"swept"},
		Bound: "two services (skews 1 and 10 minutes) sharing the process-wide cache; the background sweeper goroutine run through one wake-up at an arbitrary later instant"})
	add(&Instance{Property: "C02", Name: "sweep-vs-presentation", Entry: "service.VH_C02_SweepVsPresentation", Stubs: lt, Replay: "stubbed", Reach: []string{"done"}, Bound: "a clean-up concurrent with the presentation of a fresh authenticator by a client whose only tracked authenticator has expired: every interleaving at lock granularity"})
	add(&Instance{Property: "C02", Name: "concurrent-distinct", Entry: "service.VH_C02_ConcurrentDistinct", Stubs: lt, Replay: "stubbed", Reach: []string{"done"}, Bound: "2 verifications of distinct authenticators and a clean-up thread, every interleaving"})
}

func regC11(add addFn, p pFn) {
	add(&Instance{Property: "C11", Name: "session-refresh-no-self-deadlock", Entry: "client.VH_C10_SessionRefresh", Params: p("renewable", 1, "maxseq", 1, "maxstr", 1), Stubs: []string{"lineartime", "kdcstub", "asn1havoc", "decryptstub", "randstub"}, Replay: "stubbed", TimeoutS: 600,
		Reach: []string{"still-fresh", "refreshed"}, Bound: "one goroutine refreshing a TGT session near expiry: the call returns (no lock held across the refresh)"})
	st := []string{"yieldlocks"}
	for a := 0; a <= 4; a++ {
		for b := a; b <= 4; b++ {
			add(&Instance{Property: "C11", Name: "cache-pair-" + itoa(a) + itoa(b), Entry: "client.VH_C11_CachePair", Params: p("a", a, "b", b), Stubs: append([]string{"jsonuf"}, st...), Replay: "stubbed", Reach: []string{"done"},
				Bound: "operations a,b in {getEntry, addEntry, RemoveEntry, clear, JSON} on one Cache by 2 goroutines, EVERY interleaving at the lock operations; data races by vector clocks"})
		}
	}
	for a := 0; a <= 6; a++ {
		for b := a; b <= 6; b++ {
			add(&Instance{Property: "C11", Name: "session-pair-" + itoa(a) + itoa(b), Entry: "client.VH_C11_SessionPair", Params: p("a", a, "b", b), Stubs: append([]string{"jsonuf", "lineartime"}, st...), Replay: "stubbed", Reach: []string{"done"},
				Bound: "operations a,b in {sessions.get, sessions.update, session.update, tgtDetails, timeDetails, valid, sessions.JSON} by 2 goroutines, every interleaving"})
		}
	}
	for _, n := range []int{2, 3} {
		add(&Instance{Property: "C11", Name: "getkdcs-concurrent-n" + itoa(n), Entry: "config.VH_C11_GetKDCsConcurrent", Params: p("n", n), Stubs: append([]string{"randstub"}, st...), Replay: "stubbed", Reach: []string{"done"},
			Bound: "2 goroutines resolving KDCs from one Config with n servers, every rand outcome, every interleaving"})
	}
}

func regC12(add addFn, p pFn) {
	st := []string{"netstub", "asn1havoc", "randstub"}
	for _, n := range []int{1, 2} {
		for pref := 0; pref <= 2; pref++ {
			add(&Instance{Property: "C12", Name: "send-k" + itoa(n) + "-pref" + itoa(pref), Entry: "client.VH_C12_SendToKDC", Params: p("kdcs", n, "pref", pref, "exchanges", 1, "maxseq", 0, "maxstr", 0), Stubs: st, Logic: "QF_UFBV", Replay: "stubbed", TimeoutS: 1200,
				Reach: []string{"failed", "answered", "krb-error"}, Bound: "n configured KDCs; EVERY assignment of {answers, refuses, silent/closes early, closes mid-reply (TCP)} to each (KDC, transport) endpoint; pref 0 always TCP / 1 TCP first / 2 UDP first; every shuffle outcome; a reply may or may not decode as a KRB-ERROR with any code"})
		}
	}
	for pref := 0; pref <= 2; pref++ {
		add(&Instance{Property: "C12", Name: "two-exchanges-k1-pref" + itoa(pref), Entry: "client.VH_C12_SendToKDC", Params: p("kdcs", 1, "pref", pref, "exchanges", 2, "maxseq", 0, "maxstr", 0), Stubs: st, Logic: "QF_UFBV", Replay: "stubbed", TimeoutS: 1200,
			Reach: []string{"second-exchange", "answered", "failed"}, Bound: "two exchanges by one client with one KDC, the endpoint behaviours of the second unrelated to those of the first (state the client carries between exchanges)"})
	}
	add(&Instance{Property: "C12", Name: "send-k3-pref1", Entry: "client.VH_C12_SendToKDC", Params: p("kdcs", 3, "pref", 1, "exchanges", 1, "maxseq", 0, "maxstr", 0), Stubs: st, Logic: "QF_UFBV", Replay: "stubbed", Tier: "thorough", TimeoutS: 3000,
		Reach: []string{"failed", "answered", "krb-error"}, Bound: "3 KDCs, TCP first"})
}
