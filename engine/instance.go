package main

import (
	"fmt"
	"sort"
	"strings"
)

// Instance is one harness instantiation: an entry function plus parameters, bounds and the stub
// sets in force.  Instances are the unit of scheduling, evidence and replay.
type Instance struct {
	Property string
	Name     string           // unique within the property
	Entry    string           // package-relative: "keytab.VH_Lookup"
	Params   map[string]int64 // read by zzverif.Param("k")
	Tier     string           // "quick": quick+thorough ; "thorough": thorough only
	Merge    []string         // functions executed with if-conversion
	Stubs    []string         // named intrinsic sets enabled on top of the base set
	Logic    string           // "" (default: no set-logic, fastest for many small incremental queries), "QF_BV" (ite-heavy merged formulas), "QF_UFBV"
	Unwind   int              // per-activation loop bound (visits of one join block)
	MaxSteps int
	MaxConc  int
	MaxPaths int
	AllocLimit int
	TimeoutS int      // wall-clock budget for the instance
	SolverMs int      // per-query timeout
	Reach    []string // labels that must be reached by some path (vacuity guard)
	OnlyAsserts bool // implicit obligations (panics) end the path without being reported: they are another property's subject
	NoWitness   string // reason why completed paths of this instance are not replayed natively (translator validation)
	Expect   []string // violation keys that MUST be found (mutation witnesses / twins): instance passes iff found
	Replay   string   // "native" (default), "stubbed" (native build with stub overlay), "none" (twin instances)
	Note     string
	Bound    string // human-readable bound statement for the evidence

	mergeFns map[string]bool
	stubSet  map[string]bool
}

func (in *Instance) finish() {
	if in.Unwind == 0 {
		in.Unwind = 512
	}
	if in.MaxSteps == 0 {
		in.MaxSteps = 20_000_000
	}
	if in.MaxConc == 0 {
		in.MaxConc = 256
	}
	if in.MaxPaths == 0 {
		in.MaxPaths = 200000
	}
	if in.AllocLimit == 0 {
		in.AllocLimit = 1 << 20
	}
	if in.TimeoutS == 0 {
		in.TimeoutS = 300
	}
	if in.SolverMs == 0 {
		in.SolverMs = 60000
	}
	if in.Tier == "" {
		in.Tier = "quick"
	}
	if in.Replay == "" {
		in.Replay = "native"
	}
	in.mergeFns = map[string]bool{}
	for _, m := range in.Merge {
		in.mergeFns[m] = true
	}
	in.stubSet = map[string]bool{}
	for _, s := range in.Stubs {
		in.stubSet[s] = true
	}
}

func (in *Instance) ID() string { return in.Property + "/" + in.Name }

func (in *Instance) paramStr() string {
	var ks []string
	for k := range in.Params {
		ks = append(ks, k)
	}
	sort.Strings(ks)
	var sb strings.Builder
	for _, k := range ks {
		fmt.Fprintf(&sb, "%s=%d ", k, in.Params[k])
	}
	return strings.TrimSpace(sb.String())
}

const modPath = "github.com/jcmturner/gokrb5/v8/"

// lookupIntrinsic finds the intrinsic for a function name: instance-enabled stub sets first
// (keys "set:name"), then the base table.
func (r *Run) lookupIntrinsic(name string) (intrinsic, bool) {
	for _, s := range r.inst.Stubs {
		if in, ok := r.eng.intrinsics[s+":"+name]; ok {
			return in, true
		}
	}
	in, ok := r.eng.intrinsics[name]
	return in, ok
}

func fmtInt(n int64) string { return fmt.Sprintf("%d", n) }
