package main

import (
	"go/types"
	"net/url"

	"golang.org/x/tools/go/ssa"
)

// A model of (*net/http.Client).Do for the SPNEGO client (stub set "httpclient", engine-side only; the
// native replay runs the real net/http client over the harness's scripted RoundTripper):
//
//   - the request is handed to c.Transport.RoundTrip (the harness's scripted server);
//   - a transport error is returned wrapped in *url.Error;
//   - a 301/302/303/307/308 response with a Location header makes a new request for that URL (GET without
//     body for 301/302/303 unless the method was GET/HEAD; same method for 307/308), headers copied,
//     Authorization dropped when the host changes; a 307/308 of a request with a body is followed only
//     when the request has GetBody (the body of the new request comes from it), otherwise the
//     redirect response itself is returned; c.CheckRedirect decides: an error is returned wrapped
//     in *url.Error together with the redirect response, nil follows the redirect (at most 10);
//   - any other response is returned.
//
// Cookies, timeouts and connection reuse are not modelled.  net.LookupCNAME answers "no such host"
// (the sandbox has no resolver), io.Copy to io.Discard drains the reader.

func (r *Run) setField(t types.Type, sv StructV, name string, v Value) { *r.structField(t, sv, name) = v }

func (e *Engine) registerHTTPClient() {
	in := e.intrinsics
	httpT := func(r *Run, n string) types.Type { return r.eng.prog.ImportedPackage("net/http").Type(n).Type() }
	urlT := func(r *Run, n string) types.Type { return r.eng.prog.ImportedPackage("net/url").Type(n).Type() }
	str := func(r *Run, v Value) string {
		s, ok := r.force(&v).(*StrV).Concrete()
		if !ok {
			endPath("engine", "http client model: symbolic string")
		}
		return s
	}
	in["httpclient:(*net/http.Client).Do"] = func(r *Run, fr *Frame, cc *ssa.CallCommon, a []Value) Value {
		clT, reqT, respT := httpT(r, "Client"), httpT(r, "Request"), httpT(r, "Response")
		cl := r.load(a[0].(*PtrV), lbl("http.Client")).(StructV)
		rt := r.force(r.structField(clT, cl, "Transport")).(*IfaceV)
		if rt.t == nil {
			endPath("engine", "http client model: nil Transport (the harness must script one)")
		}
		check, _ := r.force(r.structField(clT, cl, "CheckRedirect")).(*FuncV)
		reqP := a[1].(*PtrV)
		var via []Value
		urlErr := func(op, u string, err Value) Value {
			t := urlT(r, "Error")
			sv := zeroValue(t).(StructV)
			r.setField(t, sv, "Op", concStr(op))
			r.setField(t, sv, "URL", concStr(u))
			r.setField(t, sv, "Err", err)
			return &IfaceV{t: types.NewPointer(t), v: &PtrV{obj: r.newObj(t, sv, "url.Error")}}
		}
		for hop := 0; ; hop++ {
			req := r.load(reqP, lbl("http.Request")).(StructV)
			method := str(r, *r.structField(reqT, req, "Method"))
			if method == "" {
				method = "GET"
			}
			uP := r.force(r.structField(reqT, req, "URL")).(*PtrV)
			if uP.obj == nil {
				return TupleV{&PtrV{}, r.errNew(fr, "http: nil Request.URL")}
			}
			uv := r.load(uP, lbl("url")).(StructV)
			cur := &url.URL{Scheme: str(r, *r.structField(urlT(r, "URL"), uv, "Scheme")), Host: str(r, *r.structField(urlT(r, "URL"), uv, "Host")), Path: str(r, *r.structField(urlT(r, "URL"), uv, "Path"))}
			res := r.callMethod(fr, rt, "RoundTrip", []Value{reqP}, lbl("RoundTrip")).(TupleV)
			if res[1].(*IfaceV).t != nil {
				return TupleV{&PtrV{}, urlErr(titleCase(method), cur.String(), res[1])}
			}
			respP := res[0].(*PtrV)
			resp := r.load(respP, lbl("http.Response")).(StructV)
			codeT := r.force(r.structField(respT, resp, "StatusCode")).(*Term)
			code := int(r.concretise(codeT, "status code"))
			redirect := code == 301 || code == 302 || code == 303 || code == 307 || code == 308
			if !redirect {
				return TupleV{respP, &IfaceV{}}
			}
			hdr, _ := r.force(r.structField(respT, resp, "Header")).(*MapV)
			loc := ""
			if hdr != nil {
				v, present := r.mapLookup(hdr, concStr("Location"), lbl("Location"))
				if r.branch(present) {
					if sl, ok := v.(*SliceV); ok && sl.len > 0 {
						loc = str(r, elemsOf(sl)[sl.off])
					}
				}
			}
			if loc == "" {
				return TupleV{respP, &IfaceV{}}
			}
			ref, err := url.Parse(loc)
			if err != nil {
				return TupleV{respP, urlErr(titleCase(method), cur.String(), r.errNew(fr, "failed to parse Location header"))}
			}
			next := cur.ResolveReference(ref)
			nm := method
			keepBody := code == 307 || code == 308
			if !keepBody && method != "GET" && method != "HEAD" {
				nm = "GET"
			}
			var newBody Value
			if keepBody {
				// net/http follows a 307/308 only if it can send the body again (GetBody) or there is none
				getBody, _ := r.force(r.structField(reqT, req, "GetBody")).(*FuncV)
				bodyV := r.force(r.structField(reqT, req, "Body")).(*IfaceV)
				if getBody != nil && (getBody.fn != nil || getBody.ext != "") {
					gb := r.callFn(fr, getBody.fn, append([]Value{}, getBody.env...), lbl("GetBody")).(TupleV)
					if gb[1].(*IfaceV).t != nil {
						return TupleV{respP, urlErr(titleCase(method), cur.String(), gb[1])}
					}
					newBody = gb[0]
				} else if bodyV.t != nil {
					return TupleV{respP, &IfaceV{}}
				}
			}
			// the new request
			nu := zeroValue(urlT(r, "URL")).(StructV)
			r.setField(urlT(r, "URL"), nu, "Scheme", concStr(next.Scheme))
			r.setField(urlT(r, "URL"), nu, "Host", concStr(next.Host))
			r.setField(urlT(r, "URL"), nu, "Path", concStr(next.Path))
			nr := zeroValue(reqT).(StructV)
			r.setField(reqT, nr, "Method", concStr(nm))
			r.setField(reqT, nr, "URL", &PtrV{obj: r.newObj(urlT(r, "URL"), nu, "url")})
			r.setField(reqT, nr, "Host", concStr(""))
			nh := &MapV{id: r.nextObj, typ: httpT(r, "Header").Underlying().(*types.Map)}
			r.nextObj++
			if oh, ok := r.force(r.structField(reqT, req, "Header")).(*MapV); ok && oh != nil && !oh.isNil {
				for _, me := range r.mapLive(oh) {
					k, _ := me.k.(*StrV).Concrete()
					if k == "Authorization" && next.Host != cur.Host {
						continue
					}
					if !keepBody && (k == "Content-Type" || k == "Content-Length") {
						continue
					}
					r.mapUpdate(nh, me.k, copyVal(me.v))
				}
			}
			r.setField(reqT, nr, "Header", nh)
			if newBody != nil {
				r.setField(reqT, nr, "Body", newBody)
				r.setField(reqT, nr, "GetBody", *r.structField(reqT, req, "GetBody"))
				r.setField(reqT, nr, "ContentLength", *r.structField(reqT, req, "ContentLength"))
			}
			r.setField(reqT, nr, "Response", respP)
			newP := &PtrV{obj: r.newObj(reqT, nr, "redirect request")}
			via = append(via, reqP)
			var cerr Value = &IfaceV{}
			if check != nil && (check.fn != nil || check.ext != "") {
				vs := r.makeSlice(types.NewPointer(reqT), len(via), len(via))
				for i, v := range via {
					elemsOf(vs)[i] = v
				}
				cerr = r.callFn(fr, check.fn, append([]Value{newP, vs}, check.env...), lbl("CheckRedirect"))
			} else if len(via) >= 10 {
				cerr = r.errNew(fr, "stopped after 10 redirects")
			}
			if cerr.(*IfaceV).t != nil {
				return TupleV{respP, urlErr(titleCase(nm), next.String(), cerr)}
			}
			if hop > 12 {
				r.mustNot(True, "unwind", lbl("http.Client.Do"), "more than 12 redirects followed")
			}
			reqP = newP
		}
	}
	in["httpclient:net.LookupCNAME"] = func(r *Run, fr *Frame, cc *ssa.CallCommon, a []Value) Value {
		return TupleV{&StrV{}, r.errNew(fr, "lookup: no such host")}
	}
	in["httpclient:net/http/cookiejar.New"] = func(r *Run, fr *Frame, cc *ssa.CallCommon, a []Value) Value {
		return TupleV{&PtrV{}, &IfaceV{}}
	}
	in["httpclient:io.Copy"] = func(r *Run, fr *Frame, cc *ssa.CallCommon, a []Value) Value {
		dst, src := a[0].(*IfaceV), a[1].(*IfaceV)
		discard := dst.t != nil && dst.t.String() == "io.discard"
		total := BVi(0, 64)
		for i := 0; i < 64; i++ {
			buf := r.makeSlice(types.Typ[types.Uint8], 32, 32)
			for j := 0; j < 32; j++ {
				elemsOf(buf)[j] = BVu(0, 8)
			}
			res := r.callMethod(fr, src, "Read", []Value{buf}, lbl("io.Copy")).(TupleV)
			n := int(r.concretise(res[0].(*Term), "io.Copy read length"))
			if n > 0 {
				total = Add(total, BVi(int64(n), 64))
				if !discard {
					w := &SliceV{arr: buf.arr, off: 0, len: n, cap: 32}
					r.callMethod(fr, dst, "Write", []Value{w}, lbl("io.Copy"))
				}
			}
			if res[1].(*IfaceV).t != nil {
				return TupleV{total, &IfaceV{}} // EOF (any read error ends the copy; io.Copy reports non-EOF errors, none arise in the harness)
			}
		}
		r.mustNot(True, "unwind", lbl("io.Copy"), "reader never ends")
		return nil
	}
}

func titleCase(m string) string {
	if m == "" {
		return m
	}
	b := []byte(m)
	for i := 1; i < len(b); i++ {
		if b[i] >= 'A' && b[i] <= 'Z' {
			b[i] += 'a' - 'A'
		}
	}
	return string(b)
}
