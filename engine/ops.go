package main

import (
	"fmt"
	"go/token"
	"go/types"

	"golang.org/x/tools/go/ssa"
)

func (r *Run) convert(from, to types.Type, v Value, site Site) Value {
	fu, tu := from.Underlying(), to.Underlying()
	// unsafe.Pointer <-> uintptr round trips (abi.NoEscape): the pointer value is carried through opaquely
	if pv, ok := v.(*PtrV); ok {
		if tb, ok := tu.(*types.Basic); ok && (tb.Kind() == types.Uintptr || tb.Kind() == types.UnsafePointer) {
			return pv
		}
	}
	if tb, ok := tu.(*types.Basic); ok {
		if tb.Info()&types.IsInteger != 0 {
			if fb, ok := fu.(*types.Basic); ok && fb.Info()&types.IsInteger != 0 {
				t := v.(*Term)
				w := widthOf(to)
				if w <= t.w {
					return Extract(t, w-1, 0)
				}
				if isSigned(from) {
					return SExt(t, w)
				}
				return ZExt(t, w)
			}
			if fb, ok := fu.(*types.Basic); ok && fb.Info()&types.IsFloat != 0 {
				return BVu(0, widthOf(to))
			}
		}
		if tb.Info()&types.IsFloat != 0 {
			return BVu(0, 64)
		}
		if tb.Info()&types.IsString != 0 {
			switch f := v.(type) {
			case *StrV:
				return f
			case *SliceV: // []byte or []rune -> string
				et := fu.(*types.Slice).Elem().Underlying().(*types.Basic)
				if et.Kind() == types.Uint8 {
					s := &StrV{b: make([]*Term, f.len)}
					for i := 0; i < f.len; i++ {
						s.b[i] = elemsOf(f)[f.off+i].(*Term)
					}
					return s
				}
				// []rune -> string: encode each rune (concretise when symbolic is too hard: use UTF-8 encode with ite on ranges only for consts)
				s := &StrV{}
				for i := 0; i < f.len; i++ {
					s.b = append(s.b, r.encodeRune(elemsOf(f)[f.off+i].(*Term))...)
				}
				return s
			case *Term: // integer -> string
				if f.IsConst() {
					return concStr(string(rune(f.Int())))
				}
				return &StrV{b: r.encodeRune(Extract(SExtOrTrunc(f, 64), 31, 0))}
			}
		}
		if tb.Kind() == types.UnsafePointer {
			return v
		}
	}
	if ts, ok := tu.(*types.Slice); ok {
		if s, ok := v.(*StrV); ok {
			if s.opaque != nil {
				endPath("engine", "[]byte(opaque string)")
			}
			et := ts.Elem().Underlying().(*types.Basic)
			if et.Kind() == types.Uint8 {
				sl := r.makeSlice(ts.Elem(), len(s.b), len(s.b))
				for i, b := range s.b {
					elemsOf(sl)[i] = b
				}
				return sl
			}
			// string -> []rune: decode with the same decision tree as range over a string
			it := &iterV{str: s}
			var rs []*Term
			for {
				nx := r.rangeNext(it, true, site).(TupleV)
				if nx[0].(*Term).IsFalse() {
					break
				}
				rs = append(rs, nx[2].(*Term))
			}
			sl := r.makeSlice(ts.Elem(), len(rs), len(rs))
			for i, t := range rs {
				elemsOf(sl)[i] = t
			}
			return sl
		}
	}
	if _, ok := tu.(*types.Pointer); ok {
		return v
	}
	endPath("engine", "unsupported conversion %v -> %v", from, to)
	return nil
}

func (r *Run) typeAssert(x *ssa.TypeAssert, iv *IfaceV, site Site) Value {
	ok := false
	var res Value
	if iv.t != nil {
		if types.IsInterface(x.AssertedType) {
			it := x.AssertedType.Underlying().(*types.Interface)
			ok = types.Implements(iv.t, it)
			res = iv
		} else {
			ok = types.Identical(iv.t, x.AssertedType)
			res = iv.v
		}
	}
	if x.CommaOk {
		if !ok {
			res = zeroValue(x.AssertedType)
		}
		return TupleV{res, Bool(ok)}
	}
	if !ok {
		r.mustNot(True, "typeassert", site, fmt.Sprintf("interface conversion: %v is not %v", iv.t, x.AssertedType))
	}
	return res
}

// ---- binop ----------------------------------------------------------------------------------

func (r *Run) binop(op token.Token, xt types.Type, a, b Value, yt types.Type, site Site) Value {
	if pv, ok := a.(*PtrV); ok && op == token.XOR {
		if c, ok := b.(*Term); ok && c.isZero() {
			return pv // uintptr(p) ^ 0 (abi.NoEscape)
		}
	}
	switch x := a.(type) {
	case *Term:
		y := b.(*Term)
		if x.w == 0 { // bool
			switch op {
			case token.EQL:
				return Eq(x, y)
			case token.NEQ:
				return Not(Eq(x, y))
			case token.AND, token.LAND:
				return And(x, y)
			case token.OR, token.LOR:
				return Or(x, y)
			}
			endPath("engine", "bool binop %v", op)
		}
		signed := isSigned(xt)
		switch op {
		case token.ADD:
			return Add(x, y)
		case token.SUB:
			return Sub(x, y)
		case token.MUL:
			return Mul(x, y)
		case token.QUO:
			r.mustNot(Eq(y, BVu(0, y.w)), "divzero", site, "integer divide by zero")
			if signed {
				return SDiv(x, y)
			}
			return UDiv(x, y)
		case token.REM:
			r.mustNot(Eq(y, BVu(0, y.w)), "divzero", site, "integer divide by zero")
			if signed {
				return SRem(x, y)
			}
			return URem(x, y)
		case token.AND:
			return BAnd(x, y)
		case token.OR:
			return BOr(x, y)
		case token.XOR:
			return BXor(x, y)
		case token.AND_NOT:
			return BAnd(x, BNot(y))
		case token.SHL, token.SHR:
			// normalise shift count to x's width
			var cnt *Term
			big := False
			if y.w > x.w {
				cnt = Extract(y, x.w-1, 0)
				big = Not(Eq(Extract(y, y.w-1, x.w), BVu(0, y.w-x.w)))
			} else {
				cnt = ZExt(y, x.w)
			}
			var res *Term
			if op == token.SHL {
				res = Ite(big, BVu(0, x.w), Shl(x, cnt))
			} else if signed {
				res = Ite(big, AShr(x, BVu(uint64(x.w-1), x.w)), AShr(x, cnt))
			} else {
				res = Ite(big, BVu(0, x.w), LShr(x, cnt))
			}
			return res
		case token.EQL:
			return Eq(x, y)
		case token.NEQ:
			return Not(Eq(x, y))
		case token.LSS:
			if signed {
				return SLt(x, y)
			}
			return ULt(x, y)
		case token.LEQ:
			if signed {
				return SLe(x, y)
			}
			return ULe(x, y)
		case token.GTR:
			if signed {
				return SLt(y, x)
			}
			return ULt(y, x)
		case token.GEQ:
			if signed {
				return SLe(y, x)
			}
			return ULe(y, x)
		}
	case *StrV:
		y := b.(*StrV)
		switch op {
		case token.ADD:
			if x.opaque != nil || y.opaque != nil {
				return &StrV{opaque: UF("strcat", 64, strTerm(x), strTerm(y))}
			}
			return &StrV{b: append(append([]*Term{}, x.b...), y.b...)}
		case token.EQL:
			return strEq(x, y)
		case token.NEQ:
			return Not(strEq(x, y))
		case token.LSS, token.LEQ, token.GTR, token.GEQ:
			// lexicographic: only for concrete strings
			xs, ok1 := x.Concrete()
			ys, ok2 := y.Concrete()
			if ok1 && ok2 {
				switch op {
				case token.LSS:
					return Bool(xs < ys)
				case token.LEQ:
					return Bool(xs <= ys)
				case token.GTR:
					return Bool(xs > ys)
				default:
					return Bool(xs >= ys)
				}
			}
			endPath("engine", "symbolic string ordering")
		}
	}
	if op == token.EQL || op == token.NEQ {
		e := r.valEq(a, b, site)
		if op == token.NEQ {
			return Not(e)
		}
		return e
	}
	endPath("engine", "unsupported binop %v on %T at %s", op, a, site)
	return nil
}

func strTerm(s *StrV) *Term {
	if s.opaque != nil {
		return s.opaque
	}
	if len(s.b) == 0 {
		return BVu(0, 64)
	}
	t := s.b[0]
	for _, b := range s.b[1:] {
		t = Concat(t, b)
	}
	return UF(fmt.Sprintf("strlit%d", len(s.b)), 64, t)
}

func strEq(x, y *StrV) *Term {
	if x.opaque != nil || y.opaque != nil {
		return Eq(strTerm(x), strTerm(y))
	}
	if len(x.b) != len(y.b) {
		return False
	}
	res := True
	for i := range x.b {
		res = And(res, Eq(x.b[i], y.b[i]))
	}
	return res
}

func (r *Run) valEq(a, b Value, site Site) *Term {
	switch x := a.(type) {
	case *Term:
		return Eq(x, b.(*Term))
	case *StrV:
		return strEq(x, b.(*StrV))
	case *PtrV:
		y := b.(*PtrV)
		if x.obj != y.obj || len(x.path) != len(y.path) {
			return False
		}
		res := True
		for i := range x.path {
			if x.path[i].idx == nil {
				if x.path[i].field != y.path[i].field || y.path[i].idx != nil {
					return False
				}
			} else {
				if y.path[i].idx == nil {
					return False
				}
				res = And(res, Eq(x.path[i].idx, y.path[i].idx))
			}
		}
		return res
	case *IfaceV:
		y := b.(*IfaceV)
		if x.t == nil || y.t == nil {
			return Bool(x.t == nil && y.t == nil)
		}
		if !types.Identical(x.t, y.t) {
			return False
		}
		return r.valEq(x.v, y.v, site)
	case StructV:
		y := b.(StructV)
		res := True
		for i := range x {
			res = And(res, r.valEq(r.force(&x[i]), r.force(&y[i]), site))
		}
		return res
	case ArrayV:
		y := b.(ArrayV)
		res := True
		for i := range x {
			res = And(res, r.valEq(x[i], y[i], site))
		}
		return res
	case *SliceV: // only comparison with nil
		y := b.(*SliceV)
		if y.arr == nil && y.len == 0 {
			return Bool(x.arr == nil)
		}
		if x.arr == nil && x.len == 0 {
			return Bool(y.arr == nil)
		}
	case *MapV:
		y := b.(*MapV)
		if y.isNil || x.isNil {
			return Bool(x.isNil && y.isNil)
		}
	case *FuncV:
		y := b.(*FuncV)
		if y.fn == nil && y.ext == "" {
			return Bool(x.fn == nil && x.ext == "")
		}
		if x.fn == nil && x.ext == "" {
			return Bool(y.fn == nil && y.ext == "")
		}
	}
	endPath("engine", "valEq on %T at %s", a, site)
	return nil
}

func SExtOrTrunc(t *Term, w int) *Term {
	if t.w >= w {
		return Extract(t, w-1, 0)
	}
	return SExt(t, w)
}

// encodeRune: UTF-8 encoding of a (32-bit) rune term; symbolic runes are case-split on the encoding length.
func (r *Run) encodeRune(rt *Term) []*Term {
	if rt.IsConst() {
		var out []*Term
		for _, c := range []byte(string(rune(rt.Int()))) {
			out = append(out, BVu(uint64(c), 8))
		}
		return out
	}
	v := rt
	if v.w != 32 {
		v = SExtOrTrunc(v, 32)
	}
	c := func(x uint64) *Term { return BVu(x, 32) }
	b8 := func(t *Term) *Term { return Extract(t, 7, 0) }
	bad := []*Term{BVu(0xEF, 8), BVu(0xBF, 8), BVu(0xBD, 8)}
	switch {
	case r.branch(ULt(v, c(0x80))):
		return []*Term{b8(v)}
	case r.branch(ULt(v, c(0x800))):
		return []*Term{b8(BOr(c(0xC0), LShr(v, c(6)))), b8(BOr(c(0x80), BAnd(v, c(0x3F))))}
	case r.branch(And(ULe(c(0xD800), v), ULe(v, c(0xDFFF)))):
		return bad
	case r.branch(ULt(v, c(0x10000))):
		return []*Term{b8(BOr(c(0xE0), LShr(v, c(12)))), b8(BOr(c(0x80), BAnd(LShr(v, c(6)), c(0x3F)))), b8(BOr(c(0x80), BAnd(v, c(0x3F))))}
	case r.branch(ULe(v, c(0x10FFFF))):
		return []*Term{b8(BOr(c(0xF0), LShr(v, c(18)))), b8(BOr(c(0x80), BAnd(LShr(v, c(12)), c(0x3F)))), b8(BOr(c(0x80), BAnd(LShr(v, c(6)), c(0x3F)))), b8(BOr(c(0x80), BAnd(v, c(0x3F))))}
	}
	return bad
}
