package main

import (
	"bufio"
	"fmt"
	"io"
	"math/big"
	"os/exec"
	"strings"
	"time"
)

// Solver is one incremental SMT solver process (z3-new -in by default) driven over a pipe.
type Solver struct {
	bin       string
	logic     string
	cmd       *exec.Cmd
	in        *bufio.Writer
	inc       io.WriteCloser
	out       *bufio.Reader
	declared  map[int32]bool // term ids already defined/declared
	levels    [][]int32
	ufLevel   [][]string
	ufs       map[string]bool
	Queries   int
	Sat       int
	Unsat     int
	Unknown   int
	Errors    int
	Time      time.Duration
	depth     int
	log       io.Writer
	timeoutMs int
	dead      bool
}

type solverDied struct{ msg string }

func NewSolver(bin, logic string, timeoutMs int) *Solver {
	s := &Solver{bin: bin, logic: logic, timeoutMs: timeoutMs}
	s.start()
	return s
}

func (s *Solver) start() {
	var cmd *exec.Cmd
	if strings.Contains(s.bin, "cvc5") {
		cmd = exec.Command(s.bin, "--incremental", "--produce-models", fmt.Sprintf("--tlimit-per=%d", s.timeoutMs), "--lang=smt2")
	} else {
		cmd = exec.Command(s.bin, "-in", fmt.Sprintf("-t:%d", s.timeoutMs))
	}
	inc, _ := cmd.StdinPipe()
	out, _ := cmd.StdoutPipe()
	cmd.Stderr = cmd.Stdout
	if err := cmd.Start(); err != nil {
		panic(err)
	}
	s.cmd, s.inc, s.in, s.out = cmd, inc, bufio.NewWriterSize(inc, 1<<16), bufio.NewReaderSize(out, 1<<16)
	s.declared, s.ufs = map[int32]bool{}, map[string]bool{}
	s.levels, s.ufLevel, s.depth, s.dead = nil, nil, 0, false
	if s.logic != "" {
		s.send("(set-logic " + s.logic + ")")
	}
	if !strings.Contains(s.bin, "cvc5") {
		s.send("(set-option :produce-models true)")
	}
}

func (s *Solver) Close() {
	if s.cmd == nil {
		return
	}
	s.in.Flush()
	s.inc.Close()
	done := make(chan struct{})
	go func() { s.cmd.Wait(); close(done) }()
	select {
	case <-done:
	case <-time.After(2 * time.Second):
		s.cmd.Process.Kill()
	}
	s.cmd = nil
}

// Restart kills the process and starts a fresh one at depth 0 (used after a path was abandoned).
func (s *Solver) Restart() {
	if s.cmd != nil {
		s.cmd.Process.Kill()
		s.cmd.Wait()
	}
	s.start()
}

func (s *Solver) send(l string) {
	if s.log != nil {
		fmt.Fprintln(s.log, l)
	}
	s.in.WriteString(l)
	s.in.WriteByte('\n')
}

// define makes sure t (and its DAG) is known to the solver, returns its name.
func (s *Solver) define(t *Term) string {
	if t.IsConst() {
		return constStr(t)
	}
	if s.declared[t.id] {
		return t.String()
	}
	// iterative post-order to avoid deep recursion
	type fr struct {
		t *Term
		i int
	}
	st := []fr{{t, 0}}
	for len(st) > 0 {
		f := &st[len(st)-1]
		if f.t.IsConst() || s.declared[f.t.id] {
			st = st[:len(st)-1]
			continue
		}
		if f.i < len(f.t.args) {
			a := f.t.args[f.i]
			f.i++
			if !a.IsConst() && !s.declared[a.id] {
				st = append(st, fr{a, 0})
			}
			continue
		}
		s.emit(f.t)
		s.declared[f.t.id] = true
		if len(s.levels) > 0 {
			s.levels[len(s.levels)-1] = append(s.levels[len(s.levels)-1], f.t.id)
		}
		st = st[:len(st)-1]
	}
	return t.String()
}

func (s *Solver) emit(t *Term) {
	if t.op == OpVar {
		s.send(fmt.Sprintf("(declare-const %s %s)", t.name, sortStr(t.w)))
		return
	}
	an := make([]string, len(t.args))
	for i, a := range t.args {
		an[i] = a.String()
	}
	var body string
	switch t.op {
	case OpExtract:
		body = fmt.Sprintf("((_ extract %d %d) %s)", t.hi, t.lo, an[0])
	case OpZExt:
		body = fmt.Sprintf("((_ zero_extend %d) %s)", t.hi, an[0])
	case OpSExt:
		body = fmt.Sprintf("((_ sign_extend %d) %s)", t.hi, an[0])
	case OpUF:
		if !s.ufs[t.name] {
			var ss []string
			for _, a := range t.args {
				ss = append(ss, sortStr(a.w))
			}
			s.send(fmt.Sprintf("(declare-fun %s (%s) %s)", t.name, strings.Join(ss, " "), sortStr(t.w)))
			s.ufs[t.name] = true
			if len(s.ufLevel) > 0 {
				s.ufLevel[len(s.ufLevel)-1] = append(s.ufLevel[len(s.ufLevel)-1], t.name)
			}
		}
		if len(an) == 0 {
			body = t.name
		} else {
			body = fmt.Sprintf("(%s %s)", t.name, strings.Join(an, " "))
		}
	default:
		body = fmt.Sprintf("(%s %s)", opNames[t.op], strings.Join(an, " "))
	}
	s.send(fmt.Sprintf("(define-fun t%d () %s %s)", t.id, sortStr(t.w), body))
}

func (s *Solver) Push() {
	s.send("(push 1)")
	s.depth++
	s.levels = append(s.levels, nil)
	s.ufLevel = append(s.ufLevel, nil)
}
func (s *Solver) Pop() {
	s.send("(pop 1)")
	s.depth--
	for _, id := range s.levels[len(s.levels)-1] {
		delete(s.declared, id)
	}
	for _, n := range s.ufLevel[len(s.ufLevel)-1] {
		delete(s.ufs, n)
	}
	s.levels = s.levels[:len(s.levels)-1]
	s.ufLevel = s.ufLevel[:len(s.ufLevel)-1]
}

// PopTo pops until the given depth.
func (s *Solver) PopTo(d int) {
	for s.depth > d {
		s.Pop()
	}
}

func (s *Solver) Assert(t *Term) {
	if t.IsTrue() {
		return
	}
	n := s.define(t)
	s.send(fmt.Sprintf("(assert %s)", n))
}

func (s *Solver) readLine() string {
	l, err := s.out.ReadString('\n')
	if err != nil {
		s.dead = true
		panic(solverDied{"solver died: " + err.Error()})
	}
	return strings.TrimSpace(l)
}

// Check returns "sat", "unsat" or "unknown" (any error line is reported as unknown and counted).
func (s *Solver) Check() string {
	t0 := time.Now()
	s.send("(check-sat)")
	s.in.Flush()
	r := s.readLine()
	for r == "" {
		r = s.readLine()
	}
	s.Time += time.Since(t0)
	s.Queries++
	switch r {
	case "sat":
		s.Sat++
	case "unsat":
		s.Unsat++
	default:
		if strings.HasPrefix(r, "(error") {
			s.Errors++
			panic(solverDied{"solver error: " + r})
		}
		s.Unknown++
		r = "unknown"
	}
	return r
}

// CheckWith: is pc ∧ extra satisfiable? (pc already asserted)
func (s *Solver) CheckWith(extra *Term) string {
	if extra.IsFalse() {
		return "unsat"
	}
	s.define(extra)
	s.Push()
	s.Assert(extra)
	r := s.Check()
	s.Pop()
	return r
}

// Value after a sat Check (must be called before pop).
func (s *Solver) Value(t *Term) *big.Int {
	if t.IsConst() {
		return t.Big()
	}
	n := s.define(t)
	s.send(fmt.Sprintf("(get-value (%s))", n))
	s.in.Flush()
	// answer may span lines; read until parens balance
	var sb strings.Builder
	depth := 0
	started := false
	for {
		l := s.readLine()
		sb.WriteString(l)
		for _, c := range l {
			if c == '(' {
				depth++
				started = true
			} else if c == ')' {
				depth--
			}
		}
		if started && depth == 0 {
			break
		}
	}
	r := sb.String()
	if strings.Contains(r, "error") {
		panic(solverDied{"get-value error: " + r})
	}
	// ((name #x..)) or ((name true))
	r = strings.TrimSuffix(strings.TrimSpace(r), "))")
	i := strings.LastIndex(r, " ")
	v := r[i+1:]
	switch {
	case v == "true":
		return big.NewInt(1)
	case v == "false":
		return big.NewInt(0)
	case strings.HasPrefix(v, "#x"):
		b, _ := new(big.Int).SetString(v[2:], 16)
		return b
	case strings.HasPrefix(v, "#b"):
		b, _ := new(big.Int).SetString(v[2:], 2)
		return b
	}
	panic(solverDied{"cannot parse value: " + r})
}
