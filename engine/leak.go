package main

import (
	"fmt"
	"go/types"
	"strings"

	"golang.org/x/tools/go/ssa"
)

// Secrecy as non-interference, decided by self-composition on the path (C20).
//
// zzverif.Secret(n) yields n symbolic bytes marked secret.  A sink (zzverif.Public, and with stub set
// "leakcheck" every formatted write to an io.Writer, every logger call and every gob encoding) is a
// value whose term T(s) is compared with T(s') - the same term with every secret variable replaced by
// a fresh copy - under the path condition for both copies:
//
//     pc(s)  and  pc(s')  and  T(s) != T(s')     satisfiable  =>  the output depends on the secret
//
// Results of the uninterpreted one-way primitives (HMAC, hash, block cipher, RC4 key stream) are not
// replaced: a checksum or ciphertext legitimately depends on the key.  Formatting (fmt, encoding/json,
// asn1.Marshal, gob) is an uninterpreted function of exactly the data it is given, so "differs for some
// interpretation" is "the secret is among the data formatted".  A dependence is only REPORTED as a
// violation when the native replay finds the secret itself (raw, hex or base64) in the real output.

var declassified = []string{"HMAC_", "H_", "E_", "D_", "RC4KS_", "authentic_", "plain_"}

func (r *Run) shadowOf(t *Term) *Term {
	if r.shadow == nil {
		r.shadow = map[*Term]*Term{}
	}
	if s, ok := r.shadow[t]; ok {
		return s
	}
	var out *Term
	switch t.op {
	case OpConst:
		out = t
	case OpVar:
		out = t
		if r.secret[t] {
			out = Var(t.name+"_shadow", t.w)
		}
	case OpUF:
		for _, p := range declassified {
			if strings.HasPrefix(t.name, p) {
				out = t
			}
		}
	}
	if out == nil {
		args := make([]*Term, len(t.args))
		same := true
		for i, a := range t.args {
			args[i] = r.shadowOf(a)
			if args[i] != a {
				same = false
			}
		}
		if same {
			out = t
		} else {
			out = rebuild(t, args)
		}
	}
	r.shadow[t] = out
	return out
}

func rebuild(t *Term, a []*Term) *Term {
	switch t.op {
	case OpNot:
		return Not(a[0])
	case OpAnd:
		return And(a[0], a[1])
	case OpOr:
		return Or(a[0], a[1])
	case OpEq:
		return Eq(a[0], a[1])
	case OpIte:
		return Ite(a[0], a[1], a[2])
	case OpAdd:
		return Add(a[0], a[1])
	case OpSub, OpMul, OpUDiv, OpURem, OpSDiv, OpSRem, OpBOr, OpBXor, OpShl, OpLShr, OpAShr:
		return bin(t.op, a[0], a[1])
	case OpBAnd:
		return BAnd(a[0], a[1])
	case OpBNot:
		return BNot(a[0])
	case OpNeg:
		return Neg(a[0])
	case OpULt, OpULe, OpSLt, OpSLe:
		return cmp(t.op, a[0], a[1])
	case OpExtract:
		return Extract(a[0], t.hi, t.lo)
	case OpConcat:
		return Concat(a[0], a[1])
	case OpZExt:
		return ZExt(a[0], t.w)
	case OpSExt:
		return SExt(a[0], t.w)
	case OpUF:
		return UF(t.name, t.w, a...)
	}
	panic(fmt.Sprintf("rebuild: op %d", t.op))
}

// marker: the value the secret takes in a reported counterexample when the solver can afford it
// (high-entropy, so that finding it in the native output is not an accident).
func markerByte(i int) uint64 { return uint64((i*73+0xa7)^(i*i*11+0x5c)) & 0xff }

// leakCheck: does any of the terms depend on a secret?
func (r *Run) leakCheck(label string, ts []*Term) {
	if len(r.secret) == 0 || len(ts) == 0 {
		return
	}
	differs := False
	for _, t := range ts {
		if t == nil {
			continue
		}
		st := r.shadowOf(t)
		if st != t {
			differs = Or(differs, Not(Eq(t, st)))
		}
	}
	if differs.IsFalse() {
		r.leakChecks++
		return
	}
	pc2 := True
	for i, c := range r.pc {
		if r.shadowPC[i] {
			continue
		}
		pc2 = And(pc2, r.shadowOf(c))
	}
	fail := And(pc2, differs)
	mark := True
	for i, s := range r.secretList {
		mark = And(mark, Eq(s, BVu(markerByte(i), 8)))
	}
	n0 := len(r.pc)
	site := lbl("no-secret-in-" + label)
	r.mustNot(And(fail, mark), "assert", site, "output depends on a secret: "+label)
	r.mustNot(fail, "assert", site, "output depends on a secret: "+label)
	if r.shadowPC == nil {
		r.shadowPC = map[int]bool{}
	}
	for i := n0; i < len(r.pc); i++ {
		r.shadowPC[i] = true
	}
	r.leakChecks++
}

// sinkTerms: the terms a value consists of (errors by their message).
func (r *Run) sinkTerms(fr *Frame, v Value) []*Term {
	if iv, ok := v.(*IfaceV); ok {
		if iv.t == nil {
			return nil
		}
		// an error is its message
		ms := r.eng.prog.MethodSets.MethodSet(iv.t)
		for i := 0; i < ms.Len(); i++ {
			if ms.At(i).Obj().Name() == "Error" {
				if sig, ok := ms.At(i).Type().(*types.Signature); ok && sig.Params().Len() == 0 && sig.Results().Len() == 1 {
					return r.sinkTerms(fr, r.callMethod(fr, iv, "Error", nil, lbl("Error()")))
				}
			}
		}
		return r.sinkTerms(fr, iv.v)
	}
	if p, ok := v.(*PtrV); ok {
		if p.obj == nil {
			return nil
		}
		return r.sinkTerms(fr, r.load(p, lbl("sink")))
	}
	var sig string
	var ts []*Term
	r.flatten(v, &sig, &ts)
	return ts
}

func (e *Engine) registerLeak() {
	in := e.intrinsics
	in[rtPkg+".Secret"] = func(r *Run, fr *Frame, cc *ssa.CallCommon, a []Value) Value {
		n := int(r.concretise(a[0].(*Term), "Secret(n)"))
		s := r.makeSlice(types.Typ[types.Uint8], n, n)
		if r.secret == nil {
			r.secret = map[*Term]bool{}
		}
		for i := 0; i < n; i++ {
			t := r.input(8)
			elemsOf(s)[i] = t
			if t.op == OpVar {
				r.secret[t] = true
				r.secretList = append(r.secretList, t)
			}
		}
		return s
	}
	in[rtPkg+".Public"] = func(r *Run, fr *Frame, cc *ssa.CallCommon, a []Value) Value {
		label, _ := a[0].(*StrV).Concrete()
		var ts []*Term
		if sl, ok := a[1].(*SliceV); ok {
			for i := 0; i < sl.len; i++ {
				ts = append(ts, r.sinkTerms(fr, r.force(&elemsOf(sl)[sl.off+i]))...)
			}
		}
		r.leakCheck(label, ts)
		return TupleV{}
	}
	where := func(fr *Frame) string {
		if fr == nil || fr.fn == nil {
			return "output"
		}
		n := fr.fn.String()
		n = strings.TrimPrefix(n, modPath)
		return strings.NewReplacer("(", "", ")", "", "*", "", " ", "").Replace(n)
	}
	argSink := func(kind string, from int) intrinsic {
		return func(r *Run, fr *Frame, cc *ssa.CallCommon, a []Value) Value {
			var ts []*Term
			for _, v := range a[from:] {
				if sl, ok := v.(*SliceV); ok && sl.arr != nil {
					if _, isIface := sl.arr.typ.Underlying().(*types.Array); isIface || true {
						for i := 0; i < sl.len; i++ {
							ts = append(ts, r.sinkTerms(fr, r.force(&elemsOf(sl)[sl.off+i]))...)
						}
						continue
					}
				}
				ts = append(ts, r.sinkTerms(fr, v)...)
			}
			label := kind + "-by-" + where(fr)
			// a zzverif.Sink names itself (the native run reports under that name)
			w := a[0]
			if p, ok := w.(*PtrV); ok && p.obj != nil && kind != "write" {
				w = p.obj.val // the logger object keeps the writer given to log.New
			}
			if iv, ok := w.(*IfaceV); ok && iv.t != nil && strings.HasSuffix(iv.t.String(), "zzverif.Sink") {
				if l, ok := iv.v.(StructV)[0].(*StrV).Concrete(); ok {
					label = l
				}
			}
			r.leakCheck(label, ts)
			switch kind {
			case "write":
				return TupleV{BVi(0, 64), &IfaceV{}}
			case "logoutput":
				return &IfaceV{}
			}
			return nil
		}
	}
	in["leakcheck:fmt.Fprintf"] = argSink("write", 1)
	in["leakcheck:fmt.Fprintln"] = argSink("write", 1)
	in["leakcheck:fmt.Fprint"] = argSink("write", 1)
	in["leakcheck:(*log.Logger).Printf"] = argSink("log", 1)
	in["leakcheck:(*log.Logger).Println"] = argSink("log", 1)
	in["leakcheck:(*log.Logger).Print"] = argSink("log", 1)
	in["leakcheck:(*log.Logger).Output"] = argSink("logoutput", 2)
	// formatting a time value (local time zone: file system access) is an uninterpreted function of the time
	timeFmt := func(r *Run, fr *Frame, cc *ssa.CallCommon, a []Value) Value {
		var sig string
		var ts []*Term
		r.flatten(a[0], &sig, &ts)
		return &StrV{opaque: UF(fmt.Sprintf("timefmt_%08x", fnvs(sig)), 64, ts...)}
	}
	in["leakcheck:(time.Time).Format"] = timeFmt
	in["leakcheck:(time.Time).String"] = timeFmt
	// string functions applied to an opaque (formatted) string give an opaque string that depends on the same data
	for _, name := range []string{"TrimSpace", "TrimRight", "TrimLeft", "Trim", "TrimSuffix", "TrimPrefix", "ToLower", "ToUpper", "Replace", "ReplaceAll", "Repeat", "Title"} {
		name := name
		full := "strings." + name
		in["leakcheck:"+full] = func(r *Run, fr *Frame, cc *ssa.CallCommon, a []Value) Value {
			opaque := false
			var ts []*Term
			uf := "strfn_" + name
			for _, v := range a {
				switch x := v.(type) {
				case *StrV:
					if x.opaque != nil {
						opaque = true
					}
					t := strTerm(x)
					uf += fmt.Sprintf("_w%d", t.w)
					ts = append(ts, t)
				case *Term:
					t := x
					if t.w == 0 {
						t = BoolToBV(t, 1)
					}
					uf += fmt.Sprintf("_w%d", t.w)
					ts = append(ts, t)
				}
			}
			if !opaque {
				return r.callReal(fr, r.eng.prog.ImportedPackage("strings").Func(name), a, lbl(full))
			}
			return &StrV{opaque: UF(uf, 64, ts...)}
		}
	}
	enc := in["(*encoding/gob.Encoder).Encode"]
	in["leakcheck:(*encoding/gob.Encoder).Encode"] = func(r *Run, fr *Frame, cc *ssa.CallCommon, a []Value) Value {
		r.leakCheck("gob-by-"+where(fr), r.sinkTerms(fr, a[1]))
		return enc(r, fr, cc, a)
	}
}
