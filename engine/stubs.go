package main

import (
	"fmt"
	"go/types"
	"math/big"
	"strings"

	"golang.org/x/tools/go/ssa"
)

// ---- havoc: arbitrary value of a Go type, bounded, lazily materialised ---------------------------

// hvar is a fresh symbolic value that does not come from the harness (stub results, havoc): it is
// not part of the native input stream, its model value reaches the native replay through the stub log.
func (r *Run) hvar(w int) *Term {
	t := Var(fmt.Sprintf("hv%d_w%d", r.nsym, w), w)
	r.nsym++
	if r.concrete != nil {
		if v, ok := r.concrete[t.name]; ok {
			return BV(v, w)
		}
		return BVu(0, w)
	}
	return t
}

func (r *Run) param(name string, def int64) int64 {
	if v, ok := r.inst.Params[name]; ok {
		return v
	}
	return def
}

func (r *Run) havoc(t types.Type) Value {
	if n, ok := t.(*types.Named); ok {
		switch n.String() {
		case "time.Time":
			return r.anyTime(false)
		case "github.com/jcmturner/gofork/encoding/asn1.BitString":
			nb := int(r.chooseInt(0, r.param("maxbits", 4)))
			s := r.makeSlice(types.Typ[types.Uint8], nb, nb)
			for i := 0; i < nb; i++ {
				elemsOf(s)[i] = r.hvar(8)
			}
			if nb == 0 {
				s = &SliceV{}
			}
			return StructV{s, BVi(int64(8*nb), 64)}
		}
	}
	switch u := t.Underlying().(type) {
	case *types.Basic:
		switch {
		case u.Info()&types.IsBoolean != 0:
			return Eq(r.hvar(1), BVu(1, 1))
		case u.Info()&types.IsInteger != 0:
			return r.hvar(widthOf(t))
		case u.Info()&types.IsString != 0:
			n := int(r.chooseInt(0, r.param("maxstr", 1)))
			s := &StrV{b: make([]*Term, n)}
			for i := range s.b {
				s.b[i] = r.hvar(8)
			}
			return s
		}
	case *types.Struct:
		sv := make(StructV, u.NumFields())
		for i := range sv {
			sv[i] = r.lazy(u.Field(i).Type())
		}
		return sv
	case *types.Slice:
		n := int(r.chooseInt(0, r.param("maxseq", 2)))
		if n == 0 {
			return &SliceV{}
		}
		s := r.makeSlice(u.Elem(), n, n)
		for i := 0; i < n; i++ {
			elemsOf(s)[i] = r.lazy(u.Elem())
		}
		return s
	case *types.Pointer, *types.Interface, *types.Map, *types.Signature:
		return zeroValue(t)
	case *types.Array:
		a := make(ArrayV, int(u.Len()))
		for i := range a {
			a[i] = r.havoc(u.Elem())
		}
		return a
	}
	endPath("engine", "havoc of %v", t)
	return nil
}

func (r *Run) chooseInt(lo, hi int64) int64 {
	if lo == hi {
		return lo
	}
	v := r.hvar(64)
	r.addPC(And(SLe(BVi(lo, 64), v), SLe(v, BVi(hi, 64))))
	return r.concretise(v, "havoc length")
}

// lazy havoc: a field or element is materialised the first time it is read; copies share the cell
type lazyCell struct {
	t      types.Type
	forced bool
	val    Value
}
type LazyV struct{ c *lazyCell }

func (r *Run) lazy(t types.Type) Value {
	if isScalarType(t) {
		return r.havoc(t)
	}
	return &LazyV{c: &lazyCell{t: t}}
}

func (r *Run) force(slot *Value) Value {
	if lz, ok := (*slot).(*LazyV); ok {
		if !lz.c.forced {
			lz.c.forced = true
			lz.c.val = r.havoc(lz.c.t)
		}
		*slot = copyVal(lz.c.val)
	}
	return *slot
}

func typeAt(t types.Type, path []PathElem) types.Type {
	for _, e := range path {
		switch u := t.Underlying().(type) {
		case *types.Struct:
			t = u.Field(e.field).Type()
		case *types.Array:
			t = u.Elem()
		default:
			panic("typeAt")
		}
	}
	return t
}

// ---- linear time: Time{wall:0, ext: 128-bit ns since 0001-01-01 UTC, loc:nil} ------------

const TW = 128

var nsY1970 = new(big.Int).Mul(big.NewInt(62135596800), big.NewInt(1000000000))
var nsY2262 = new(big.Int).Add(nsY1970, new(big.Int).Lsh(big.NewInt(1), 62))
var nsY9999 = new(big.Int).Mul(big.NewInt(315537897599), big.NewInt(1000000000))

func timeV(ns *Term) Value { return StructV{BVu(0, 64), ns, &PtrV{}} }
func nsOf(v Value) *Term {
	t := v.(StructV)[1].(*Term)
	if t.w != TW {
		return SExt(t, TW) // zero Time{} has a 64-bit 0
	}
	return t
}

// anyTime: an arbitrary instant (nanosecond count) in years 0001..9999.  KerberosTime has second
// granularity; allowing every nanosecond over-approximates that and keeps the arithmetic linear
// (a multiplication by 10^9 stalls every solver, see DESIGN 3.4).
func (r *Run) anyTime(harness bool) Value {
	var ns *Term
	if harness {
		ns = r.input(TW)
	} else {
		ns = r.hvar(TW)
	}
	r.addPC(And(SLe(BVi(0, TW), ns), SLe(ns, BV(nsY9999, TW))))
	return timeV(ns)
}

func sat64(d *Term) *Term {
	max := BV(new(big.Int).Sub(new(big.Int).Lsh(big.NewInt(1), 63), big.NewInt(1)), TW)
	min := BV(new(big.Int).Neg(new(big.Int).Lsh(big.NewInt(1), 63)), TW)
	return Extract(Ite(SLt(max, d), max, Ite(SLt(d, min), min, d)), 63, 0)
}

// stubSpec describes a nondeterministic stub for the native replay overlay: the function body is
// replaced by a call that pops the recorded results.  outs: "recv" (pointer receiver is an output),
// "ret<i>" (i-th non-error result); the last result must be error when hasErr.
type stubSpec struct {
	name   string // ssa function name
	outs   []string
	hasErr bool
}

func (e *Engine) stub(set, name string, spec *stubSpec, f intrinsic) {
	fn := e.fnByName[name]
	// every stub call logs its arguments (receiver first) so that harness oracles can talk about them
	e.intrinsics[set+":"+name] = func(r *Run, fr *Frame, cc *ssa.CallCommon, a []Value) Value {
		rec := make([]Value, len(a))
		for i := range a {
			var t types.Type
			if fn != nil {
				sig := fn.Signature
				k := i
				if sig.Recv() != nil {
					if i == 0 {
						t = sig.Recv().Type()
					}
					k = i - 1
				}
				if t == nil && k < sig.Params().Len() {
					t = sig.Params().At(k).Type()
				}
			}
			rec[i] = &IfaceV{t: t, v: copyVal(a[i])}
		}
		r.ghostLog("args:"+name, rec)
		n0 := len(r.stubLog)
		res := f(r, fr, cc, a)
		ok := True
		if len(r.stubLog) > n0 && r.stubLog[len(r.stubLog)-1].kind == "err" {
			ok = False
		}
		r.ghostLog("ok:"+name, ok)
		return res
	}
	if spec != nil {
		spec.name = name
		e.nativeStubs[name] = spec
	}
}

// ghostBySuffix finds the ghost log whose stub name ends with the given short name.
func (r *Run) ghostBySuffix(prefix, short string) []Value {
	for k, v := range r.ghost {
		if strings.HasPrefix(k, prefix) && strings.HasSuffix(k, short) {
			return v.([]Value)
		}
	}
	return nil
}

func (e *Engine) registerStubs() {
	lt := func(name string, f intrinsic) { e.intrinsics["lineartime:"+name] = f }
	now := func(r *Run, fr *Frame, cc *ssa.CallCommon, a []Value) Value {
		if v, ok := r.ghost["now"]; ok {
			return v
		}
		// the harness clock: nanosecond granularity, years 1970..2262
		ns := r.hvar(TW)
		r.addPC(And(SLe(BV(nsY1970, TW), ns), SLe(ns, BV(nsY2262, TW))))
		v := timeV(ns)
		r.ghost["now"] = v
		r.clockLog = append(r.clockLog, ns)
		return v
	}
	lt("time.Now", now)
	lt(rtPkg+".Now", now)
	lt(rtPkg+".AdvanceClock", func(r *Run, fr *Frame, cc *ssa.CallCommon, a []Value) Value {
		old, ok := r.ghost["now"]
		ns := r.hvar(TW)
		r.addPC(And(SLe(BV(nsY1970, TW), ns), SLe(ns, BV(nsY2262, TW))))
		if ok {
			r.addPC(SLe(nsOf(old), ns))
		}
		r.ghost["now"] = timeV(ns)
		r.clockLog = append(r.clockLog, ns)
		return TupleV{}
	})
	lt(rtPkg+".AnyTime", func(r *Run, fr *Frame, cc *ssa.CallCommon, a []Value) Value { return r.anyTime(true) })
	lt("(time.Duration).Seconds", func(r *Run, fr *Frame, cc *ssa.CallCommon, a []Value) Value { return UF("seconds", 64, a[0].(*Term)) })
	lt("(time.Duration).String", func(r *Run, fr *Frame, cc *ssa.CallCommon, a []Value) Value {
		return &StrV{opaque: UF("durstring", 64, a[0].(*Term))}
	})
	lt("(time.Time).UTC", func(r *Run, fr *Frame, cc *ssa.CallCommon, a []Value) Value { return a[0] })
	lt("(time.Time).Sub", func(r *Run, fr *Frame, cc *ssa.CallCommon, a []Value) Value {
		return sat64(Sub(nsOf(a[0]), nsOf(a[1])))
	})
	lt("(time.Time).Add", func(r *Run, fr *Frame, cc *ssa.CallCommon, a []Value) Value {
		return timeV(Add(nsOf(a[0]), SExt(a[1].(*Term), TW)))
	})
	lt("(time.Time).After", func(r *Run, fr *Frame, cc *ssa.CallCommon, a []Value) Value { return SLt(nsOf(a[1]), nsOf(a[0])) })
	lt("(time.Time).Before", func(r *Run, fr *Frame, cc *ssa.CallCommon, a []Value) Value { return SLt(nsOf(a[0]), nsOf(a[1])) })
	lt("(time.Time).Equal", func(r *Run, fr *Frame, cc *ssa.CallCommon, a []Value) Value { return Eq(nsOf(a[0]), nsOf(a[1])) })
	lt("(time.Time).IsZero", func(r *Run, fr *Frame, cc *ssa.CallCommon, a []Value) Value { return Eq(nsOf(a[0]), BVi(0, TW)) })
	lt("(time.Time).UnixNano", func(r *Run, fr *Frame, cc *ssa.CallCommon, a []Value) Value {
		return Extract(Sub(nsOf(a[0]), BV(nsY1970, TW)), 63, 0)
	})
	lt("(time.Time).Unix", func(r *Run, fr *Frame, cc *ssa.CallCommon, a []Value) Value {
		return Extract(SDiv(Sub(nsOf(a[0]), BV(nsY1970, TW)), BVi(1000000000, TW)), 63, 0)
	})
	lt("time.Since", func(r *Run, fr *Frame, cc *ssa.CallCommon, a []Value) Value {
		return sat64(Sub(nsOf(now(r, fr, cc, nil)), nsOf(a[0])))
	})
	lt("time.Unix", func(r *Run, fr *Frame, cc *ssa.CallCommon, a []Value) Value {
		ns := Add(Add(Mul(SExt(a[0].(*Term), TW), BVi(1000000000, TW)), SExt(a[1].(*Term), TW)), BV(nsY1970, TW))
		return timeV(ns)
	})
	lt("(time.Time).Format", func(r *Run, fr *Frame, cc *ssa.CallCommon, a []Value) Value {
		return &StrV{opaque: UF("timefmt", 64, nsOf(a[0]))}
	})
	lt("(time.Time).String", func(r *Run, fr *Frame, cc *ssa.CallCommon, a []Value) Value {
		return &StrV{opaque: UF("timefmt", 64, nsOf(a[0]))}
	})

	in := e.intrinsics
	in["math/rand.Intn"] = func(r *Run, fr *Frame, cc *ssa.CallCommon, a []Value) Value {
		n := a[0].(*Term)
		r.mustNot(SLe(n, BVi(0, 64)), "panic", lbl("rand.Intn"), "invalid argument to Intn")
		v := r.hvar(64)
		r.addPC(And(SLe(BVi(0, 64), v), SLt(v, n)))
		r.logStub("math/rand.Intn", "val", []Value{v}, []types.Type{types.Typ[types.Int]})
		return v
	}
	in[rtPkg+".Ghost"] = func(r *Run, fr *Frame, cc *ssa.CallCommon, a []Value) Value {
		k, _ := a[0].(*StrV).Concrete()
		if v, ok := r.ghost[k]; ok {
			return v
		}
		return False
	}
	in[rtPkg+".GhostCount"] = func(r *Run, fr *Frame, cc *ssa.CallCommon, a []Value) Value {
		k, _ := a[0].(*StrV).Concrete()
		if v, ok := r.ghost[k]; ok {
			return BVi(int64(len(v.([]Value))), 64)
		}
		return BVi(0, 64)
	}
	in[rtPkg+".CallCount"] = func(r *Run, fr *Frame, cc *ssa.CallCommon, a []Value) Value {
		k, _ := a[0].(*StrV).Concrete()
		return BVi(int64(len(r.ghostBySuffix("args:", k))), 64)
	}
	in[rtPkg+".CallArg"] = func(r *Run, fr *Frame, cc *ssa.CallCommon, a []Value) Value {
		k, _ := a[0].(*StrV).Concrete()
		l := r.ghostBySuffix("args:", k)
		i, j := int(a[1].(*Term).Int()), int(a[2].(*Term).Int())
		if i >= len(l) || j >= len(l[i].([]Value)) {
			endPath("engine", "CallArg(%s,%d,%d): no such call/argument", k, i, j)
		}
		return l[i].([]Value)[j]
	}
	in[rtPkg+".CallOK"] = func(r *Run, fr *Frame, cc *ssa.CallCommon, a []Value) Value {
		k, _ := a[0].(*StrV).Concrete()
		l := r.ghostBySuffix("ok:", k)
		i := int(a[1].(*Term).Int())
		if i >= len(l) {
			endPath("engine", "CallOK(%s,%d): no such call", k, i)
		}
		return l[i]
	}
	in["context.Background"] = func(r *Run, fr *Frame, cc *ssa.CallCommon, a []Value) Value { return &IfaceV{} }
	in["github.com/hashicorp/go-uuid.GenerateUUID"] = func(r *Run, fr *Frame, cc *ssa.CallCommon, a []Value) Value {
		return TupleV{concStr("00000000-0000-0000-0000-000000000000"), &IfaceV{}}
	}
	// math/big as 64-bit boxes (only NewInt / rand.Int / Int64 are needed)
	box := func(r *Run, t *Term) Value { return &PtrV{obj: r.newObj(types.Typ[types.Int64], t, "bigint")} }
	in["math/big.NewInt"] = func(r *Run, fr *Frame, cc *ssa.CallCommon, a []Value) Value { return box(r, a[0].(*Term)) }
	in["crypto/rand.Int"] = func(r *Run, fr *Frame, cc *ssa.CallCommon, a []Value) Value {
		max := a[1].(*PtrV).obj.val.(*Term)
		v := r.hvar(64)
		r.addPC(And(SLe(BVi(0, 64), v), SLt(v, max)))
		return TupleV{box(r, v), &IfaceV{}}
	}
	in["(*math/big.Int).Int64"] = func(r *Run, fr *Frame, cc *ssa.CallCommon, a []Value) Value { return a[0].(*PtrV).obj.val }

	// ---- decryption as an uninterpreted authenticity predicate (stub set "decryptstub") -------------
	// success iff authentic(cipher, key, usage); the plaintext is an opaque handle (its structure comes
	// from the havoc'd decoder).  What "authentic" means is C06's subject.
	bytesT := types.NewSlice(types.Typ[types.Uint8])
	dname := "github.com/jcmturner/gokrb5/v8/crypto.DecryptEncPart"
	e.stub("decryptstub", dname, &stubSpec{outs: []string{"ret0"}, hasErr: true}, func(r *Run, fr *Frame, cc *ssa.CallCommon, a []Value) Value {
		ed := a[0].(StructV)  // EncryptedData{EType, KVNO, Cipher}
		key := a[1].(StructV) // EncryptionKey{KeyType, KeyValue}
		usage := a[2].(*Term)
		cipher := r.force(&ed[2]).(*SliceV)
		kv := r.force(&key[1]).(*SliceV)
		args := []*Term{r.force(&ed[0]).(*Term), r.force(&key[0]).(*Term), usage}
		name := fmt.Sprintf("authentic_c%d_k%d", cipher.len, kv.len)
		if cipher.len > 0 {
			args = append(args, catBytes(sliceBytes(cipher)))
		}
		if kv.len > 0 {
			args = append(args, catBytes(sliceBytes(kv)))
		}
		ok := UF(name, 0, args...)
		r.ghostLog("decrypt-ok", ok)
		r.ghostLog("decrypt-usage", usage)
		r.ghostLog("decrypt-key", kv)
		r.ghostLog("decrypt-keytype", r.force(&key[0]))
		r.ghostLog("decrypt-cipher", cipher)
		if r.branch(ok) {
			pt := r.bytesToSlice([]*Term{UF("plain_"+name, 8, args...)})
			r.logStub(dname, "val", []Value{pt}, []types.Type{bytesT})
			return TupleV{pt, &IfaceV{}}
		}
		r.logStub(dname, "err", nil, nil)
		return TupleV{&SliceV{}, r.errNew(fr, "stub: integrity check failed")}
	})

	// ---- PAC processing as seen by the AP-REQ verifier (stub set "pacstub"): no PAC, or a PAC that fails ----
	pname := "(*github.com/jcmturner/gokrb5/v8/messages.Ticket).GetPACType"
	e.stub("pacstub", pname, &stubSpec{outs: []string{"ret0"}, hasErr: true}, func(r *Run, fr *Frame, cc *ssa.CallCommon, a []Value) Value {
		pt := e.fnByName[pname].Signature.Results().At(1).Type()
		if r.branch(Eq(r.hvar(1), BVu(1, 1))) {
			r.logStub(pname, "val", []Value{False}, []types.Type{types.Typ[types.Bool]})
			return TupleV{False, zeroValue(pt), &IfaceV{}}
		}
		r.logStub(pname, "err", []Value{True}, []types.Type{types.Typ[types.Bool]})
		return TupleV{True, zeroValue(pt), r.errNew(fr, "stub: PAC verification failed")}
	})

	// ---- ASN.1 / NDR decoders: error, or an arbitrary value of the Go type (stub set "asn1havoc") ---
	for _, fn := range e.fnByName {
		if fn.Name() != "Unmarshal" || fn.Signature.Recv() == nil || fn.Pkg == nil {
			continue
		}
		pp := fn.Pkg.Pkg.Path()
		if !strings.HasPrefix(pp, "github.com/jcmturner/gokrb5/v8/") {
			continue
		}
		pt, ok := fn.Signature.Recv().Type().(*types.Pointer)
		if !ok || fn.Signature.Params().Len() != 1 || fn.Signature.Results().Len() != 1 {
			continue
		}
		name, typ := fn.String(), pt.Elem()
		e.stub("asn1havoc", name, &stubSpec{outs: []string{"recv"}, hasErr: true}, func(r *Run, fr *Frame, cc *ssa.CallCommon, a []Value) Value {
			p := a[0].(*PtrV)
			if p.obj == nil {
				r.mustNot(True, "nil", lbl(name), "nil receiver")
			}
			// the same input bytes decode to the same result (memoised per run)
			mk := "memo:" + name
			for _, b := range sliceBytes(a[1].(*SliceV)) {
				mk += fmt.Sprintf(",%d", b.id)
			}
			var dec *Term
			var val Value
			if m, ok := r.ghost[mk]; ok {
				dec, val = m.([]Value)[0].(*Term), m.([]Value)[1]
			} else {
				dec = Eq(r.hvar(1), BVu(1, 1))
				val = &LazyV{c: &lazyCell{t: typ}}
				r.ghost[mk] = []Value{dec, val}
			}
			if r.branch(dec) {
				v := val
				r.store(p, r.force(&v), lbl("havoc "+name))
				r.logStub(name, "val", []Value{p}, []types.Type{pt})
				return &IfaceV{}
			}
			r.logStub(name, "err", nil, nil)
			return r.errNew(fr, "stub: decode error")
		})
	}
}

func (r *Run) ghostLog(k string, v Value) {
	var l []Value
	if o, ok := r.ghost[k]; ok {
		l = o.([]Value)
	}
	r.ghost[k] = append(l, v)
}
