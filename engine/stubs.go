package main

import (
	"fmt"
	"go/types"
	"math/big"
	"reflect"
	"strings"

	"golang.org/x/tools/go/ssa"
)

// ---- havoc: arbitrary value of a Go type, bounded, lazily materialised ---------------------------

// hvar is a fresh symbolic value that does not come from the harness (stub results, havoc): it is
// not part of the native input stream, its model value reaches the native replay through the stub log.
func (r *Run) hvar(w int) *Term {
	t := Var(fmt.Sprintf("hv%d_w%d", r.nsym, w), w)
	r.nsym++
	if r.concrete != nil {
		if v, ok := r.concrete[t.name]; ok {
			return BV(v, w)
		}
		return BVu(0, w)
	}
	return t
}

func (r *Run) param(name string, def int64) int64 {
	if v, ok := r.inst.Params[name]; ok {
		return v
	}
	return def
}

func (r *Run) havoc(t types.Type) Value {
	if n, ok := t.(*types.Named); ok {
		switch n.String() {
		case "time.Time":
			return r.anyTime(false)
		case "github.com/jcmturner/gofork/encoding/asn1.BitString":
			nb := int(r.chooseInt(0, r.param("maxbits", 4)))
			s := r.makeSlice(types.Typ[types.Uint8], nb, nb)
			for i := 0; i < nb; i++ {
				elemsOf(s)[i] = r.hvar(8)
			}
			if nb == 0 {
				s = &SliceV{}
			}
			return StructV{s, BVi(int64(8*nb), 64)}
		case "github.com/jcmturner/gofork/encoding/asn1.ObjectIdentifier":
			// one of the object identifiers the code knows, or an arbitrary short one
			known := [][]int64{nil, {1, 2, 840, 113554, 1, 2, 2}, {1, 2, 840, 48018, 1, 2, 2}, {1, 3, 6, 1, 5, 5, 2}}
			k := r.param("fixoid", 0) // fixoid=k: always the k-th known identifier
			if k == 0 {
				k = r.chooseInt(0, int64(len(known)-1))
			}
			if k > 0 {
				s := r.makeSlice(types.Typ[types.Int], len(known[k]), len(known[k]))
				for i, c := range known[k] {
					elemsOf(s)[i] = BVi(c, 64)
				}
				return s
			}
		}
	}
	switch u := t.Underlying().(type) {
	case *types.Basic:
		switch {
		case u.Info()&types.IsBoolean != 0:
			return Eq(r.hvar(1), BVu(1, 1))
		case u.Info()&types.IsInteger != 0:
			return r.hvar(widthOf(t))
		case u.Info()&types.IsString != 0:
			n := int(r.chooseStrLen())
			s := &StrV{b: make([]*Term, n)}
			for i := range s.b {
				s.b[i] = r.hvar(8)
			}
			return s
		}
	case *types.Struct:
		sv := make(StructV, u.NumFields())
		for i := range sv {
			sv[i] = r.lazy(u.Field(i).Type())
		}
		return sv
	case *types.Slice:
		n := int(r.chooseSeqLen())
		if b, ok := u.Elem().Underlying().(*types.Basic); ok && b.Kind() == types.Uint8 && r.param("bytelens", 0) != 0 {
			// byte strings (addresses, salts, ...) of one of the listed lengths (param bytelens = bit mask)
			mask := r.param("bytelens", 0)
			v := r.hvar(64)
			c := False
			for i := int64(0); i < 62; i++ {
				if mask&(1<<uint(i)) != 0 {
					c = Or(c, Eq(v, BVi(i, 64)))
				}
			}
			r.addPC(c)
			n = int(r.concretise(v, "havoc byte string length"))
		}
		if n == 0 {
			return &SliceV{}
		}
		s := r.makeSlice(u.Elem(), n, n)
		for i := 0; i < n; i++ {
			elemsOf(s)[i] = r.lazy(u.Elem())
		}
		return s
	case *types.Pointer, *types.Interface, *types.Map, *types.Signature:
		return zeroValue(t)
	case *types.Array:
		a := make(ArrayV, int(u.Len()))
		for i := range a {
			a[i] = r.havoc(u.Elem())
		}
		return a
	}
	endPath("engine", "havoc of %v", t)
	return nil
}

// chooseStrLen: a havoc'd string has every length 0..maxstr, or (param strlens = bit mask) one of the listed lengths
func (r *Run) chooseStrLen() int64 {
	mask := r.param("strlens", 0)
	if mask == 0 {
		return r.chooseInt(0, r.param("maxstr", 1))
	}
	v := r.hvar(64)
	c := False
	for i := int64(0); i < 62; i++ {
		if mask&(1<<uint(i)) != 0 {
			c = Or(c, Eq(v, BVi(i, 64)))
		}
	}
	r.addPC(c)
	return r.concretise(v, "havoc string length")
}

// chooseSeqLen: a havoc'd slice has every length 0..maxseq, or (param seqlens = bit mask) one of the listed lengths
func (r *Run) chooseSeqLen() int64 {
	mask := r.param("seqlens", 0)
	if mask == 0 {
		return r.chooseInt(0, r.param("maxseq", 2))
	}
	v := r.hvar(64)
	c := False
	for i := int64(0); i < 62; i++ {
		if mask&(1<<uint(i)) != 0 {
			c = Or(c, Eq(v, BVi(i, 64)))
		}
	}
	r.addPC(c)
	return r.concretise(v, "havoc length")
}

func (r *Run) chooseInt(lo, hi int64) int64 {
	if lo == hi {
		return lo
	}
	v := r.hvar(64)
	r.addPC(And(SLe(BVi(lo, 64), v), SLe(v, BVi(hi, 64))))
	return r.concretise(v, "havoc length")
}

// lazy havoc: a field or element is materialised the first time it is read; copies share the cell
type lazyCell struct {
	t      types.Type
	forced bool
	val    Value
}
type LazyV struct{ c *lazyCell }

func (r *Run) lazy(t types.Type) Value {
	if isScalarType(t) {
		return r.havoc(t)
	}
	return &LazyV{c: &lazyCell{t: t}}
}

func (r *Run) force(slot *Value) Value {
	if lz, ok := (*slot).(*LazyV); ok {
		if !lz.c.forced {
			lz.c.forced = true
			lz.c.val = r.havoc(lz.c.t)
		}
		*slot = copyVal(lz.c.val)
	}
	return *slot
}

func typeAt(t types.Type, path []PathElem) types.Type {
	for _, e := range path {
		switch u := t.Underlying().(type) {
		case *types.Struct:
			t = u.Field(e.field).Type()
		case *types.Array:
			t = u.Elem()
		default:
			panic("typeAt")
		}
	}
	return t
}

// ---- linear time: Time{wall:0, ext: 128-bit ns since 0001-01-01 UTC, loc:nil} ------------

const TW = 128

var nsY1970 = new(big.Int).Mul(big.NewInt(62135596800), big.NewInt(1000000000))
var nsY2262 = new(big.Int).Add(nsY1970, new(big.Int).Lsh(big.NewInt(1), 62))
var nsY9999 = new(big.Int).Mul(big.NewInt(315537897599), big.NewInt(1000000000))

func timeV(ns *Term) Value { return StructV{BVu(0, 64), ns, &PtrV{}} }
func nsOf(v Value) *Term {
	t := v.(StructV)[1].(*Term)
	if t.w != TW {
		return SExt(t, TW) // zero Time{} has a 64-bit 0
	}
	return t
}

// anyTime: an arbitrary instant (nanosecond count) in years 0001..9999.  KerberosTime has second
// granularity; allowing every nanosecond over-approximates that and keeps the arithmetic linear
// (a multiplication by 10^9 stalls every solver, see DESIGN 3.4).
func (r *Run) anyTime(harness bool) Value {
	var ns *Term
	if harness {
		ns = r.input(TW)
	} else {
		ns = r.hvar(TW)
	}
	r.addPC(And(SLe(BVi(0, TW), ns), SLe(ns, BV(nsY9999, TW))))
	return timeV(ns)
}

func sat64(d *Term) *Term {
	max := BV(new(big.Int).Sub(new(big.Int).Lsh(big.NewInt(1), 63), big.NewInt(1)), TW)
	min := BV(new(big.Int).Neg(new(big.Int).Lsh(big.NewInt(1), 63)), TW)
	return Extract(Ite(SLt(max, d), max, Ite(SLt(d, min), min, d)), 63, 0)
}

// stubSpec describes a nondeterministic stub for the native replay overlay: the function body is
// replaced by a call that pops the recorded results.  outs: "recv" (pointer receiver is an output),
// "ret<i>" (i-th non-error result); the last result must be error when hasErr.
type stubSpec struct {
	name   string // ssa function name
	outs   []string
	hasErr bool
	custom string // Go source of a custom native body (block contents), instead of the generated one
	set    string // the stub set that enables it
}

func (e *Engine) stub(set, name string, spec *stubSpec, f intrinsic) {
	fn := e.fnByName[name]
	// every stub call logs its arguments (receiver first) so that harness oracles can talk about them
	e.intrinsics[set+":"+name] = func(r *Run, fr *Frame, cc *ssa.CallCommon, a []Value) Value {
		rec := make([]Value, len(a))
		for i := range a {
			var t types.Type
			if fn != nil {
				sig := fn.Signature
				k := i
				if sig.Recv() != nil {
					if i == 0 {
						t = sig.Recv().Type()
					}
					k = i - 1
				}
				if t == nil && k < sig.Params().Len() {
					t = sig.Params().At(k).Type()
				}
			}
			rec[i] = &IfaceV{t: t, v: copyVal(a[i])}
		}
		r.ghostLog("args:"+name, rec)
		n0 := len(r.stubLog)
		var res Value
		if sc, ok := r.popScript(name); ok && spec != nil && fn != nil {
			if spec.custom != "" {
				r.curScript = &sc // stubs with a custom protocol interpret their script themselves
				res = f(r, fr, cc, a)
				r.curScript = nil
			} else {
				res = r.scriptedResult(fr, fn, spec, sc, a)
			}
		} else {
			res = f(r, fr, cc, a)
		}
		ok := True
		if len(r.stubLog) > n0 && r.stubLog[len(r.stubLog)-1].kind == "err" {
			ok = False
		}
		r.ghostLog("ok:"+name, ok)
		return res
	}
	if spec != nil {
		spec.name = name
		spec.set = set
		e.nativeStubs[name] = spec
	}
}

type scripted struct {
	kind string
	outs []Value
}

// popScript: the harness may script what a stub returns next (zzverif.ScriptStub).
func (r *Run) popScript(name string) (scripted, bool) {
	for k, v := range r.ghost {
		if strings.HasPrefix(k, "script:") && strings.HasSuffix(name, k[len("script:"):]) {
			q := v.([]Value)
			if len(q) == 0 {
				return scripted{}, false
			}
			r.ghost[k] = q[1:]
			return q[0].(scripted), true
		}
	}
	return scripted{}, false
}

// scriptedResult builds the stub's result from scripted outputs (same logging as a nondeterministic result).
func (r *Run) scriptedResult(fr *Frame, fn *ssa.Function, spec *stubSpec, sc scripted, a []Value) Value {
	sig := fn.Signature
	nres := sig.Results().Len()
	tup := make(TupleV, nres)
	for i := 0; i < nres; i++ {
		tup[i] = zeroValue(sig.Results().At(i).Type())
	}
	var logV []Value
	var logT []types.Type
	outs := spec.outs
	if spec.custom != "" {
		outs = nil
		for i := 0; i < nres-1; i++ {
			outs = append(outs, fmt.Sprintf("ret%d", i))
		}
	}
	for i, o := range outs {
		if i >= len(sc.outs) {
			break
		}
		v := sc.outs[i]
		if iv, ok := v.(*IfaceV); ok {
			v = iv.v
		}
		if o == "recv" {
			p := a[0].(*PtrV)
			r.store(p, v, lbl("scripted "+fn.String()))
			logV, logT = append(logV, p), append(logT, sig.Recv().Type())
		} else {
			var k int
			fmt.Sscanf(o, "ret%d", &k)
			tup[k] = v
			logV, logT = append(logV, v), append(logT, sig.Results().At(k).Type())
		}
	}
	if sc.kind == "err" {
		r.logStub(fn.String(), "err", logV, logT)
		tup[nres-1] = r.errNew(fr, "stub: scripted failure")
	} else {
		r.logStub(fn.String(), "val", logV, logT)
	}
	if nres == 1 {
		return tup[0]
	}
	return tup
}

// ghostBySuffix finds the ghost log whose stub name ends with the given short name.
func (r *Run) ghostBySuffix(prefix, short string) []Value {
	for k, v := range r.ghost {
		if strings.HasPrefix(k, prefix) && strings.HasSuffix(k, short) {
			return v.([]Value)
		}
	}
	return nil
}

func (e *Engine) registerStubs() {
	lt := func(name string, f intrinsic) { e.intrinsics["lineartime:"+name] = f }
	now := func(r *Run, fr *Frame, cc *ssa.CallCommon, a []Value) Value {
		if v, ok := r.ghost["now"]; ok {
			return v
		}
		// the harness clock: nanosecond granularity, years 1970..2262
		ns := r.hvar(TW)
		r.addPC(And(SLe(BV(nsY1970, TW), ns), SLe(ns, BV(nsY2262, TW))))
		v := timeV(ns)
		r.ghost["now"] = v
		r.clockLog = append(r.clockLog, ns)
		return v
	}
	lt("time.Now", now)
	lt(rtPkg+".Now", now)
	lt(rtPkg+".AdvanceClock", func(r *Run, fr *Frame, cc *ssa.CallCommon, a []Value) Value {
		old, ok := r.ghost["now"]
		ns := r.hvar(TW)
		r.addPC(And(SLe(BV(nsY1970, TW), ns), SLe(ns, BV(nsY2262, TW))))
		if ok {
			r.addPC(SLe(nsOf(old), ns))
		}
		r.ghost["now"] = timeV(ns)
		r.clockLog = append(r.clockLog, ns)
		return TupleV{}
	})
	// time.Sleep(d): the clock moves on by at least d.  Inside a background goroutine run by zzverif.Background
	// it is also the point at which the goroutine is parked again once its wake-ups are used up.
	lt("time.Sleep", func(r *Run, fr *Frame, cc *ssa.CallCommon, a []Value) Value {
		if r.bgActive {
			if r.bgBudget == 0 {
				panic(bgParked{})
			}
			r.bgBudget--
		}
		old := nsOf(now(r, fr, cc, nil))
		ns := r.hvar(TW)
		r.addPC(And(SLe(Add(old, SExt(a[0].(*Term), TW)), ns), SLe(ns, BV(nsY2262, TW))))
		r.ghost["now"] = timeV(ns)
		r.clockLog = append(r.clockLog, ns)
		return nil
	})
	lt(rtPkg+".Sleep", e.intrinsics["lineartime:time.Sleep"])
	lt(rtPkg+".AnyTime", func(r *Run, fr *Frame, cc *ssa.CallCommon, a []Value) Value { return r.anyTime(true) })
	lt("(time.Duration).Seconds", func(r *Run, fr *Frame, cc *ssa.CallCommon, a []Value) Value { return UF("seconds", 64, a[0].(*Term)) })
	lt("(time.Duration).String", func(r *Run, fr *Frame, cc *ssa.CallCommon, a []Value) Value {
		return &StrV{opaque: UF("durstring", 64, a[0].(*Term))}
	})
	// the Location pointer is kept (third slot): Go's == on time.Time compares it, Equal does not
	lt("(time.Time).UTC", func(r *Run, fr *Frame, cc *ssa.CallCommon, a []Value) Value { return timeV(nsOf(a[0])) })
	lt("(time.Time).In", func(r *Run, fr *Frame, cc *ssa.CallCommon, a []Value) Value {
		if a[1].(*PtrV).obj == nil {
			r.mustNot(True, "panic", lbl("time.In"), "time: missing Location in call to Time.In")
		}
		return StructV{BVu(0, 64), nsOf(a[0]), a[1]}
	})
	lt("time.FixedZone", func(r *Run, fr *Frame, cc *ssa.CallCommon, a []Value) Value {
		// a new Location object per call (the real function caches only whole-hour offsets)
		t := r.eng.prog.ImportedPackage("time").Type("Location").Type()
		return &PtrV{obj: r.newObj(t, zeroValue(t), "location")}
	})
	lt("(time.Time).Sub", func(r *Run, fr *Frame, cc *ssa.CallCommon, a []Value) Value {
		return sat64(Sub(nsOf(a[0]), nsOf(a[1])))
	})
	lt("(time.Time).Add", func(r *Run, fr *Frame, cc *ssa.CallCommon, a []Value) Value {
		return StructV{BVu(0, 64), Add(nsOf(a[0]), SExt(a[1].(*Term), TW)), a[0].(StructV)[2]}
	})
	lt("(time.Time).After", func(r *Run, fr *Frame, cc *ssa.CallCommon, a []Value) Value { return SLt(nsOf(a[1]), nsOf(a[0])) })
	lt("(time.Time).Before", func(r *Run, fr *Frame, cc *ssa.CallCommon, a []Value) Value { return SLt(nsOf(a[0]), nsOf(a[1])) })
	lt("(time.Time).Equal", func(r *Run, fr *Frame, cc *ssa.CallCommon, a []Value) Value { return Eq(nsOf(a[0]), nsOf(a[1])) })
	lt("(time.Time).IsZero", func(r *Run, fr *Frame, cc *ssa.CallCommon, a []Value) Value { return Eq(nsOf(a[0]), BVi(0, TW)) })
	lt("(time.Time).UnixNano", func(r *Run, fr *Frame, cc *ssa.CallCommon, a []Value) Value {
		return Extract(Sub(nsOf(a[0]), BV(nsY1970, TW)), 63, 0)
	})
	lt("(time.Time).Unix", func(r *Run, fr *Frame, cc *ssa.CallCommon, a []Value) Value {
		return Extract(SDiv(Sub(nsOf(a[0]), BV(nsY1970, TW)), BVi(1000000000, TW)), 63, 0)
	})
	lt("time.Since", func(r *Run, fr *Frame, cc *ssa.CallCommon, a []Value) Value {
		return sat64(Sub(nsOf(now(r, fr, cc, nil)), nsOf(a[0])))
	})
	lt("time.Unix", func(r *Run, fr *Frame, cc *ssa.CallCommon, a []Value) Value {
		ns := Add(Add(Mul(SExt(a[0].(*Term), TW), BVi(1000000000, TW)), SExt(a[1].(*Term), TW)), BV(nsY1970, TW))
		return timeV(ns)
	})
	lt("(time.Time).Format", func(r *Run, fr *Frame, cc *ssa.CallCommon, a []Value) Value {
		return &StrV{opaque: UF("timefmt", 64, nsOf(a[0]))}
	})
	lt("(time.Time).String", func(r *Run, fr *Frame, cc *ssa.CallCommon, a []Value) Value {
		return &StrV{opaque: UF("timefmt", 64, nsOf(a[0]))}
	})

	in := e.intrinsics
	in["math/rand.Intn"] = func(r *Run, fr *Frame, cc *ssa.CallCommon, a []Value) Value {
		n := a[0].(*Term)
		r.mustNot(SLe(n, BVi(0, 64)), "panic", lbl("rand.Intn"), "invalid argument to Intn")
		v := r.hvar(64)
		r.addPC(And(SLe(BVi(0, 64), v), SLt(v, n)))
		r.logStub("math/rand.Intn", "val", []Value{v}, []types.Type{types.Typ[types.Int]})
		return v
	}
	in[rtPkg+".Intn"] = in["math/rand.Intn"]
	in["randstub:math/rand.Intn"] = in["math/rand.Intn"]
	in[rtPkg+".Ghost"] = func(r *Run, fr *Frame, cc *ssa.CallCommon, a []Value) Value {
		k, _ := a[0].(*StrV).Concrete()
		if v, ok := r.ghost[k]; ok {
			return v
		}
		return False
	}
	in[rtPkg+".GhostCount"] = func(r *Run, fr *Frame, cc *ssa.CallCommon, a []Value) Value {
		k, _ := a[0].(*StrV).Concrete()
		if v, ok := r.ghost[k]; ok {
			return BVi(int64(len(v.([]Value))), 64)
		}
		return BVi(0, 64)
	}
	in[rtPkg+".ScriptStub"] = func(r *Run, fr *Frame, cc *ssa.CallCommon, a []Value) Value {
		short, _ := a[0].(*StrV).Concrete()
		kind, _ := a[1].(*StrV).Concrete()
		sc := scripted{kind: kind}
		if sl, ok := a[2].(*SliceV); ok {
			for i := 0; i < sl.len; i++ {
				sc.outs = append(sc.outs, copyVal(elemsOf(sl)[sl.off+i]))
			}
		}
		r.ghostLog("script:"+short, sc)
		return TupleV{}
	}
	in[rtPkg+".CallCount"] = func(r *Run, fr *Frame, cc *ssa.CallCommon, a []Value) Value {
		k, _ := a[0].(*StrV).Concrete()
		return BVi(int64(len(r.ghostBySuffix("args:", k))), 64)
	}
	in[rtPkg+".CallArg"] = func(r *Run, fr *Frame, cc *ssa.CallCommon, a []Value) Value {
		k, _ := a[0].(*StrV).Concrete()
		l := r.ghostBySuffix("args:", k)
		i, j := int(a[1].(*Term).Int()), int(a[2].(*Term).Int())
		if i >= len(l) || j >= len(l[i].([]Value)) {
			endPath("engine", "CallArg(%s,%d,%d): no such call/argument", k, i, j)
		}
		return l[i].([]Value)[j]
	}
	in[rtPkg+".CallOK"] = func(r *Run, fr *Frame, cc *ssa.CallCommon, a []Value) Value {
		k, _ := a[0].(*StrV).Concrete()
		l := r.ghostBySuffix("ok:", k)
		i := int(a[1].(*Term).Int())
		if i >= len(l) {
			endPath("engine", "CallOK(%s,%d): no such call", k, i)
		}
		return l[i]
	}
	in["log.New"] = func(r *Run, fr *Frame, cc *ssa.CallCommon, a []Value) Value {
		return &PtrV{obj: r.newObj(anyType, a[0], "logger")}
	}
	in["github.com/hashicorp/go-uuid.GenerateUUID"] = func(r *Run, fr *Frame, cc *ssa.CallCommon, a []Value) Value {
		// 16 bytes from crypto/rand (the same input stream as natively), formatted 8-4-4-4-12 in lower-case hex
		out := &StrV{}
		nib := func(n *Term) *Term {
			return Ite(ULt(n, BVu(10, 4)), Add(ZExt(n, 8), BVu('0', 8)), Add(ZExt(n, 8), BVu('a'-10, 8)))
		}
		for i := 0; i < 16; i++ {
			if i == 4 || i == 6 || i == 8 || i == 10 {
				out.b = append(out.b, BVu('-', 8))
			}
			b := r.input(8)
			out.b = append(out.b, nib(Extract(b, 7, 4)), nib(Extract(b, 3, 0)))
		}
		return TupleV{out, &IfaceV{}}
	}
	// math/big as 64-bit boxes (only NewInt / rand.Int / Int64 are needed)
	box := func(r *Run, t *Term) Value { return &PtrV{obj: r.newObj(types.Typ[types.Int64], t, "bigint")} }
	in["math/big.NewInt"] = func(r *Run, fr *Frame, cc *ssa.CallCommon, a []Value) Value { return box(r, a[0].(*Term)) }
	in["crypto/rand.Int"] = func(r *Run, fr *Frame, cc *ssa.CallCommon, a []Value) Value {
		max := a[1].(*PtrV).obj.val.(*Term)
		v := r.hvar(64)
		r.addPC(And(SLe(BVi(0, 64), v), SLt(v, max)))
		r.randInts = append(r.randInts, v)
		return TupleV{box(r, v), &IfaceV{}}
	}
	in["(*math/big.Int).Int64"] = func(r *Run, fr *Frame, cc *ssa.CallCommon, a []Value) Value { return a[0].(*PtrV).obj.val }

	// ---- decryption as an uninterpreted authenticity predicate (stub set "decryptstub") -------------
	// success iff authentic(cipher, key, usage); the plaintext is an opaque handle (its structure comes
	// from the havoc'd decoder).  What "authentic" means is C06's subject.
	bytesT := types.NewSlice(types.Typ[types.Uint8])
	dname := "github.com/jcmturner/gokrb5/v8/crypto.DecryptEncPart"
	e.stub("decryptstub", dname, &stubSpec{outs: []string{"ret0"}, hasErr: true}, func(r *Run, fr *Frame, cc *ssa.CallCommon, a []Value) Value {
		ed := a[0].(StructV)  // EncryptedData{EType, KVNO, Cipher}
		key := a[1].(StructV) // EncryptionKey{KeyType, KeyValue}
		usage := a[2].(*Term)
		cipher := r.force(&ed[2]).(*SliceV)
		kv := r.force(&key[1]).(*SliceV)
		args := []*Term{r.force(&ed[0]).(*Term), r.force(&key[0]).(*Term), usage}
		name := fmt.Sprintf("authentic_c%d_k%d", cipher.len, kv.len)
		if cipher.len > 0 {
			args = append(args, catBytes(sliceBytes(cipher)))
		}
		if kv.len > 0 {
			args = append(args, catBytes(sliceBytes(kv)))
		}
		ok := UF(name, 0, args...)
		r.ghostLog("decrypt-ok", ok)
		r.ghostLog("decrypt-usage", usage)
		r.ghostLog("decrypt-key", kv)
		r.ghostLog("decrypt-keytype", r.force(&key[0]))
		r.ghostLog("decrypt-cipher", cipher)
		if r.branch(ok) {
			pt := r.bytesToSlice([]*Term{UF("plain_"+name, 8, args...)})
			r.logStub(dname, "val", []Value{pt}, []types.Type{bytesT})
			return TupleV{pt, &IfaceV{}}
		}
		r.logStub(dname, "err", nil, nil)
		return TupleV{&SliceV{}, r.errNew(fr, "stub: integrity check failed")}
	})

	// ---- the network as seen by the exchanges (stub set "kdcstub"): reply bytes, a transport error, or a KRB-ERROR ----
	sname := "(*github.com/jcmturner/gokrb5/v8/client.Client).sendToKDC"
	e.stub("kdcstub", sname, &stubSpec{custom: `
	zzverif.StubArgs("` + sname + `", cl, b, realm)
	var zzrb []byte
	var zzcode int32
	var zzcrealm string
	zzerr := zzverif.Stub("` + sname + `", &zzrb, &zzcode, &zzcrealm)
	if zzerr != nil && zzcode >= 0 {
		return zzrb, messages.KRBError{ErrorCode: zzcode, CRealm: zzcrealm}
	}
	return zzrb, zzerr
`}, func(r *Run, fr *Frame, cc *ssa.CallCommon, a []Value) Value {
		i32, strT := types.Typ[types.Int32], types.Typ[types.String]
		unwrap := func(v Value) Value {
			if iv, ok := v.(*IfaceV); ok {
				return iv.v
			}
			return v
		}
		if sc := r.curScript; sc != nil {
			// scripted: "val" [reply bytes] | "err" (network) | "krberr" code [crealm]
			switch sc.kind {
			case "val":
				rb := r.bytesToSlice([]*Term{r.hvar(8)})
				if len(sc.outs) > 0 {
					rb = unwrap(sc.outs[0]).(*SliceV)
				}
				r.logStub(sname, "val", []Value{rb, BVi(-1, 32), &StrV{}}, []types.Type{bytesT, i32, strT})
				return TupleV{rb, &IfaceV{}}
			case "err":
				r.logStub(sname, "err", []Value{&SliceV{}, BVi(-1, 32), &StrV{}}, []types.Type{bytesT, i32, strT})
				return TupleV{&SliceV{}, r.errNew(fr, "stub: network error")}
			case "krberr":
				kt := r.eng.prog.ImportedPackage("github.com/jcmturner/gokrb5/v8/messages").Type("KRBError").Type()
				code := unwrap(sc.outs[0]).(*Term)
				var crealm Value = &StrV{}
				if len(sc.outs) > 1 {
					crealm = unwrap(sc.outs[1])
				}
				ke := zeroValue(kt).(StructV)
				st := kt.Underlying().(*types.Struct)
				for i := 0; i < st.NumFields(); i++ {
					switch st.Field(i).Name() {
					case "ErrorCode":
						ke[i] = code
					case "CRealm":
						ke[i] = crealm
					}
				}
				r.logStub(sname, "err", []Value{&SliceV{}, code, crealm}, []types.Type{bytesT, i32, strT})
				return TupleV{&SliceV{}, &IfaceV{t: kt, v: ke}}
			}
			endPath("engine", "sendToKDC: unknown script kind %q", sc.kind)
		}
		kind := r.hvar(8)
		r.addPC(ULe(kind, BVu(2, 8)))
		switch r.concretise(kind, "KDC behaviour") {
		case 0:
			rb := r.bytesToSlice([]*Term{r.hvar(8)})
			r.logStub(sname, "val", []Value{rb, BVi(-1, 32), &StrV{}}, []types.Type{bytesT, i32, strT})
			return TupleV{rb, &IfaceV{}}
		case 1:
			r.logStub(sname, "err", []Value{&SliceV{}, BVi(-1, 32), &StrV{}}, []types.Type{bytesT, i32, strT})
			return TupleV{&SliceV{}, r.errNew(fr, "stub: network error")}
		}
		// a KRB-ERROR from the KDC with an arbitrary non-negative code (and client realm, used for WRONG_REALM referrals)
		kt := r.eng.prog.ImportedPackage("github.com/jcmturner/gokrb5/v8/messages").Type("KRBError").Type()
		code := r.hvar(32)
		r.addPC(SLe(BVi(0, 32), code))
		crealm := r.havoc(strT)
		ke := zeroValue(kt).(StructV)
		st := kt.Underlying().(*types.Struct)
		for i := 0; i < st.NumFields(); i++ {
			switch st.Field(i).Name() {
			case "ErrorCode":
				ke[i] = code
			case "CRealm":
				ke[i] = crealm
			}
		}
		r.logStub(sname, "err", []Value{&SliceV{}, code, crealm}, []types.Type{bytesT, i32, strT})
		r.ghostLog("krberror-code", code)
		return TupleV{&SliceV{}, &IfaceV{t: kt, v: ke}}
	})

	// ---- PAC processing as seen by the AP-REQ verifier (stub set "pacstub"): no PAC, or a PAC that fails ----
	pname := "(*github.com/jcmturner/gokrb5/v8/messages.Ticket).GetPACType"
	e.stub("pacstub", pname, &stubSpec{outs: []string{"ret0"}, hasErr: true}, func(r *Run, fr *Frame, cc *ssa.CallCommon, a []Value) Value {
		pt := e.fnByName[pname].Signature.Results().At(1).Type()
		if r.branch(Eq(r.hvar(1), BVu(1, 1))) {
			r.logStub(pname, "val", []Value{False}, []types.Type{types.Typ[types.Bool]})
			return TupleV{False, zeroValue(pt), &IfaceV{}}
		}
		r.logStub(pname, "err", []Value{True}, []types.Type{types.Typ[types.Bool]})
		return TupleV{True, zeroValue(pt), r.errNew(fr, "stub: PAC verification failed")}
	})

	// ---- ASN.1 / NDR decoders: error, or an arbitrary value of the Go type (stub set "asn1havoc") ---
	for _, fn := range e.fnByName {
		if fn.Name() != "Unmarshal" || fn.Signature.Recv() == nil || fn.Pkg == nil {
			continue
		}
		pp := fn.Pkg.Pkg.Path()
		if !strings.HasPrefix(pp, "github.com/jcmturner/gokrb5/v8/") {
			continue
		}
		set := "asn1havoc"
		if !strings.HasSuffix(pp, "/pac") && !callsASN1Decoder(fn) {
			continue // a byte-level parser that happens to be called Unmarshal: executed from its real code
		}
		if strings.HasSuffix(pp, "/pac") {
			// PAC: the NDR-encoded structures are stubbed (set "ndrhavoc"); the byte-level readers run from their real code
			switch fn.Signature.Recv().Type().(*types.Pointer).Elem().(*types.Named).Obj().Name() {
			case "KerbValidationInfo", "S4UDelegationInfo", "ClientClaimsInfo", "DeviceInfo", "DeviceClaimsInfo", "CredentialsInfo", "SECPKGSupplementalCred":
				set = "ndrhavoc"
			default:
				continue
			}
		}
		pt, ok := fn.Signature.Recv().Type().(*types.Pointer)
		if !ok || fn.Signature.Params().Len() != 1 || fn.Signature.Results().Len() != 1 {
			continue
		}
		name, typ := fn.String(), pt.Elem()
		e.stub(set, name, &stubSpec{outs: []string{"recv"}, hasErr: true}, func(r *Run, fr *Frame, cc *ssa.CallCommon, a []Value) Value {
			p := a[0].(*PtrV)
			if p.obj == nil {
				r.mustNot(True, "nil", lbl(name), "nil receiver")
			}
			// the same input bytes decode to the same result (memoised per run)
			mk := "memo:" + name
			for _, b := range sliceBytes(a[1].(*SliceV)) {
				mk += fmt.Sprintf(",%d", b.id)
			}
			var dec *Term
			var val Value
			if m, ok := r.ghost[mk]; ok {
				dec, val = m.([]Value)[0].(*Term), m.([]Value)[1]
			} else {
				dec = Eq(r.hvar(1), BVu(1, 1))
				val = &LazyV{c: &lazyCell{t: typ}}
				r.ghost[mk] = []Value{dec, val}
			}
			if r.branch(dec) {
				v := val
				nv := r.force(&v)
				// a decoder never touches the receiver's unexported pointer-like fields (settings, context, ...),
				// and it leaves an OPTIONAL field alone when the element is absent from the input: if the
				// receiver already holds something there, whether it survives is part of what the input decides
				if sv, ok := nv.(StructV); ok {
					if st, ok := typ.Underlying().(*types.Struct); ok {
						old := r.load(p, lbl("havoc "+name)).(StructV)
						memo := r.ghost[mk].([]Value)
						for i := 0; i < st.NumFields(); i++ {
							if !st.Field(i).Exported() && isPtrLike(st.Field(i).Type()) {
								sv[i] = old[i]
								continue
							}
							tag, _ := reflect.StructTag(st.Tag(i)).Lookup("asn1")
							if !strings.Contains(tag, "optional") || isZeroVal(old[i]) {
								continue
							}
							for len(memo) < 2+st.NumFields() {
								memo = append(memo, nil)
							}
							if memo[2+i] == nil {
								memo[2+i] = Eq(r.hvar(1), BVu(1, 1))
								r.ghost[mk] = memo
							}
							if r.branch(memo[2+i].(*Term)) { // absent
								sv[i] = old[i]
							}
						}
					}
				}
				r.store(p, nv, lbl("havoc "+name))
				r.logStub(name, "val", []Value{p}, []types.Type{pt})
				return &IfaceV{}
			}
			r.logStub(name, "err", nil, nil)
			return r.errNew(fr, "stub: decode error")
		})
	}
}

// isZeroVal: the value is syntactically the zero value of its type (an unforced lazy value is not: it is arbitrary).
func isZeroVal(v Value) bool {
	switch x := v.(type) {
	case nil:
		return true
	case *Term:
		return x.IsConst() && x.isZero()
	case *StrV:
		return x.opaque == nil && len(x.b) == 0
	case *SliceV:
		return x.arr == nil || x.len == 0
	case StructV:
		for _, f := range x {
			if !isZeroVal(f) {
				return false
			}
		}
		return true
	case ArrayV:
		for _, f := range x {
			if !isZeroVal(f) {
				return false
			}
		}
		return true
	case *PtrV:
		return x.obj == nil
	case *IfaceV:
		return x.t == nil
	case *MapV:
		return x.isNil
	}
	return false
}

func isPtrLike(t types.Type) bool {
	switch t.Underlying().(type) {
	case *types.Pointer, *types.Interface, *types.Map, *types.Signature, *types.Chan:
		return true
	}
	return false
}

func (r *Run) ghostLog(k string, v Value) {
	var l []Value
	if o, ok := r.ghost[k]; ok {
		l = o.([]Value)
	}
	r.ghost[k] = append(l, v)
}

// callsASN1Decoder: the function calls the reflection-driven gofork asn1 decoder directly.
func callsASN1Decoder(fn *ssa.Function) bool {
	for _, b := range fn.Blocks {
		for _, ins := range b.Instrs {
			if c, ok := ins.(ssa.CallInstruction); ok {
				if f := c.Common().StaticCallee(); f != nil && f.Pkg != nil && f.Pkg.Pkg.Path() == "github.com/jcmturner/gofork/encoding/asn1" && strings.HasPrefix(f.Name(), "Unmarshal") {
					return true
				}
			}
		}
	}
	return false
}
