package main

import (
	"fmt"
	"go/types"
	"math/big"
	"strings"

	"golang.org/x/tools/go/ssa"
)

// ---- havoc: arbitrary value of a Go type, bounded ----------------------------------------

var maxStr, maxSeq = 1, 2

func (r *Run) havoc(t types.Type) Value {
	if n, ok := t.(*types.Named); ok {
		switch n.String() {
		case "time.Time":
			return r.anyTime()
		case "github.com/jcmturner/gofork/encoding/asn1.BitString":
			nb := int(r.chooseInt(0, 4))
			s := r.makeSlice(types.Typ[types.Uint8], nb, nb)
			for i := 0; i < nb; i++ {
				elemsOf(s)[i] = r.input(8)
			}
			return StructV{s, BVi(int64(8*nb), 64)}
		}
	}
	switch u := t.Underlying().(type) {
	case *types.Basic:
		switch {
		case u.Info()&types.IsBoolean != 0:
			return Eq(r.input(1), BVu(1, 1))
		case u.Info()&types.IsInteger != 0:
			return r.input(widthOf(t))
		case u.Info()&types.IsString != 0:
			n := int(r.chooseInt(0, int64(maxStr)))
			s := &StrV{b: make([]*Term, n)}
			for i := range s.b {
				s.b[i] = r.input(8)
			}
			return s
		}
	case *types.Struct:
		sv := make(StructV, u.NumFields())
		for i := range sv {
			sv[i] = r.lazy(u.Field(i).Type())
		}
		return sv
	case *types.Slice:
		n := int(r.chooseInt(0, int64(maxSeq)))
		s := r.makeSlice(u.Elem(), n, n)
		for i := 0; i < n; i++ {
			elemsOf(s)[i] = r.lazy(u.Elem())
		}
		if n == 0 {
			return &SliceV{}
		}
		return s
	case *types.Pointer, *types.Interface, *types.Map, *types.Signature:
		return zeroValue(t)
	case *types.Array:
		a := make(ArrayV, int(u.Len()))
		for i := range a {
			a[i] = r.havoc(u.Elem())
		}
		return a
	}
	endPath("engine", "havoc of %v", t)
	return nil
}

func (r *Run) chooseInt(lo, hi int64) int64 {
	v := r.input(64)
	r.addPC(And(SLe(BVi(lo, 64), v), SLe(v, BVi(hi, 64))))
	return r.concretise(v, "havoc length")
}

// ---- linear time: Time{wall:0, ext: 128-bit ns since 0001-01-01 UTC, loc:nil} ------------

const TW = 128

var nsY1970 = new(big.Int).Mul(big.NewInt(62135596800), big.NewInt(1000000000))
var nsY2262 = new(big.Int).Add(nsY1970, new(big.Int).Lsh(big.NewInt(1), 62))
var nsY9999 = new(big.Int).Mul(big.NewInt(315537897599), big.NewInt(1000000000))

func timeV(ns *Term) Value          { return StructV{BVu(0, 64), ns, &PtrV{}} }
func nsOf(v Value) *Term {
	t := v.(StructV)[1].(*Term)
	if t.w != TW {
		return SExt(t, TW) // zero Time{} has a 64-bit 0
	}
	return t
}

func (r *Run) anyTime() Value {
	ns := r.fresh("time", TW)
	r.inputs = append(r.inputs, ns)
	r.addPC(And(SLe(BVi(0, TW), ns), SLe(ns, BV(nsY9999, TW))))
	return timeV(ns)
}

func sat64(d *Term) *Term {
	max := BV(new(big.Int).Sub(new(big.Int).Lsh(big.NewInt(1), 63), big.NewInt(1)), TW)
	min := BV(new(big.Int).Neg(new(big.Int).Lsh(big.NewInt(1), 63)), TW)
	return Extract(Ite(SLt(max, d), max, Ite(SLt(d, min), min, d)), 63, 0)
}

// stubSetOf assigns each stub of this file to a named set that instances enable explicitly.
func stubSetOf(name string) string {
	switch {
	case strings.HasPrefix(name, "time.") || strings.HasPrefix(name, "(time.") || strings.HasSuffix(name, ".Now") || strings.HasSuffix(name, ".AdvanceClock") || strings.HasSuffix(name, ".AnyTime"):
		return "lineartime"
	case strings.HasPrefix(name, rtPkg), strings.HasPrefix(name, "math/rand."), strings.HasPrefix(name, "math/big."), strings.HasPrefix(name, "(*math/big."), strings.HasPrefix(name, "crypto/rand.Int"),
		strings.HasPrefix(name, "context."), strings.HasPrefix(name, "github.com/hashicorp/go-uuid"):
		return ""
	}
	return "proto"
}

type stubReg struct{ e *Engine }

func (s stubReg) set(name string, f intrinsic) {
	if set := stubSetOf(name); set != "" {
		s.e.intrinsics[set+":"+name] = f
	} else {
		s.e.intrinsics[name] = f
	}
}

func (e *Engine) registerStubs() {
	reg := stubReg{e}
	reg.set("time.Now", func(r *Run, fr *Frame, cc *ssa.CallCommon, a []Value) Value {
		if v, ok := r.ghost["now"]; ok {
			return v
		}
		ns := r.fresh("now", TW)
		r.inputs = append(r.inputs, ns)
		r.addPC(And(SLe(BV(nsY1970, TW), ns), SLe(ns, BV(nsY2262, TW))))
		v := timeV(ns)
		r.ghost["now"] = v
		return v
	})
	reg.set(rtPkg+".Now", e.intrinsics["lineartime:time.Now"])
	reg.set(rtPkg+".AdvanceClock", func(r *Run, fr *Frame, cc *ssa.CallCommon, a []Value) Value {
		old, ok := r.ghost["now"]
		ns := r.fresh("now", TW)
		r.inputs = append(r.inputs, ns)
		r.addPC(And(SLe(BV(nsY1970, TW), ns), SLe(ns, BV(nsY2262, TW))))
		if ok {
			r.addPC(SLe(nsOf(old), ns))
		}
		r.ghost["now"] = timeV(ns)
		return nil
	})
	reg.set(rtPkg+".AnyTime", func(r *Run, fr *Frame, cc *ssa.CallCommon, a []Value) Value { return r.anyTime() })
	reg.set("(time.Duration).Seconds", func(r *Run, fr *Frame, cc *ssa.CallCommon, a []Value) Value { return UF("seconds", 64, a[0].(*Term)) })
	reg.set("(time.Time).UTC", func(r *Run, fr *Frame, cc *ssa.CallCommon, a []Value) Value { return a[0] })
	reg.set("(time.Time).Sub", func(r *Run, fr *Frame, cc *ssa.CallCommon, a []Value) Value {
		return sat64(Sub(nsOf(a[0]), nsOf(a[1])))
	})
	reg.set("(time.Time).Add", func(r *Run, fr *Frame, cc *ssa.CallCommon, a []Value) Value {
		return timeV(Add(nsOf(a[0]), SExt(a[1].(*Term), TW)))
	})
	reg.set("(time.Time).After", func(r *Run, fr *Frame, cc *ssa.CallCommon, a []Value) Value { return SLt(nsOf(a[1]), nsOf(a[0])) })
	reg.set("(time.Time).Before", func(r *Run, fr *Frame, cc *ssa.CallCommon, a []Value) Value { return SLt(nsOf(a[0]), nsOf(a[1])) })
	reg.set("(time.Time).Equal", func(r *Run, fr *Frame, cc *ssa.CallCommon, a []Value) Value { return Eq(nsOf(a[0]), nsOf(a[1])) })
	reg.set("(time.Time).IsZero", func(r *Run, fr *Frame, cc *ssa.CallCommon, a []Value) Value { return Eq(nsOf(a[0]), BVi(0, TW)) })
	reg.set("(time.Time).UnixNano", func(r *Run, fr *Frame, cc *ssa.CallCommon, a []Value) Value {
		return Extract(Sub(nsOf(a[0]), BV(nsY1970, TW)), 63, 0)
	})
	reg.set("(time.Time).Unix", func(r *Run, fr *Frame, cc *ssa.CallCommon, a []Value) Value {
		return Extract(SDiv(Sub(nsOf(a[0]), BV(nsY1970, TW)), BVi(1000000000, TW)), 63, 0)
	})

	reg.set("math/rand.Intn", func(r *Run, fr *Frame, cc *ssa.CallCommon, a []Value) Value {
		n := a[0].(*Term)
		v := r.input(64)
		r.addPC(And(SLe(BVi(0, 64), v), SLt(v, n)))
		return v
	})
	// service.VerifyAPREQ as a nondeterministic verdict with a ghost flag
	reg.set("github.com/jcmturner/gokrb5/v8/service.VerifyAPREQ", func(r *Run, fr *Frame, cc *ssa.CallCommon, a []Value) Value {
		ok := Eq(r.input(1), BVu(1, 1))
		r.ghost["apreq-accepted"] = ok
		if r.branch(ok) {
			return TupleV{True, &PtrV{}, &IfaceV{}}
		}
		en := r.eng.prog.ImportedPackage("errors").Func("New")
		return TupleV{False, &PtrV{}, r.callFn(fr, en, []Value{concStr("rejected")}, lbl("stub"))}
	})
	reg.set(rtPkg+".Ghost", func(r *Run, fr *Frame, cc *ssa.CallCommon, a []Value) Value {
		k, _ := a[0].(*StrV).Concrete()
		if v, ok := r.ghost[k]; ok {
			return v
		}
		return False
	})
	reg.set("context.Background", func(r *Run, fr *Frame, cc *ssa.CallCommon, a []Value) Value { return &IfaceV{} })
	reg.set("context.WithValue", func(r *Run, fr *Frame, cc *ssa.CallCommon, a []Value) Value { return &IfaceV{} })
	// PA-DATA hint decoders with fixed distinguishable salts; StringToKey records its salt
	reg.set("(*github.com/jcmturner/gokrb5/v8/types.ETypeInfo2).Unmarshal", func(r *Run, fr *Frame, cc *ssa.CallCommon, a []Value) Value {
		p := a[0].(*PtrV)
		et := typeAt(p.obj.typ, p.path).Underlying().(*types.Slice).Elem()
		sl := r.makeSlice(et, 1, 1)
		elemsOf(sl)[0] = StructV{BVi(18, 32), concStr("2"), &SliceV{}}
		r.store(p, sl, lbl("info2"))
		return &IfaceV{}
	})
	reg.set("(*github.com/jcmturner/gokrb5/v8/types.ETypeInfo).Unmarshal", func(r *Run, fr *Frame, cc *ssa.CallCommon, a []Value) Value {
		p := a[0].(*PtrV)
		et := typeAt(p.obj.typ, p.path).Underlying().(*types.Slice).Elem()
		sl := r.makeSlice(et, 1, 1)
		elemsOf(sl)[0] = StructV{BVi(18, 32), r.bytesToSlice([]*Term{BVu('1', 8)})}
		r.store(p, sl, lbl("info"))
		return &IfaceV{}
	})
	reg.set("(github.com/jcmturner/gokrb5/v8/crypto.Aes256CtsHmacSha96).StringToKey", func(r *Run, fr *Frame, cc *ssa.CallCommon, a []Value) Value {
		r.ghost["s2k-salt"] = a[2]
		return TupleV{r.bytesToSlice(ufBytes("S2K", 32, a[1].(*StrV).b, a[2].(*StrV).b)), &IfaceV{}}
	})
	reg.set(rtPkg+".GhostString", func(r *Run, fr *Frame, cc *ssa.CallCommon, a []Value) Value {
		k, _ := a[0].(*StrV).Concrete()
		if v, ok := r.ghost[k]; ok {
			return v
		}
		return &StrV{}
	})
	reg.set("(*github.com/jcmturner/gokrb5/v8/pac.KerbValidationInfo).Unmarshal", func(r *Run, fr *Frame, cc *ssa.CallCommon, a []Value) Value {
		if r.branch(Eq(r.input(1), BVu(1, 1))) {
			return &IfaceV{}
		}
		en := r.eng.prog.ImportedPackage("errors").Func("New")
		return r.callFn(fr, en, []Value{concStr("ndr error")}, lbl("stub"))
	})
	reg.set("github.com/hashicorp/go-uuid.GenerateUUID", func(r *Run, fr *Frame, cc *ssa.CallCommon, a []Value) Value {
		return TupleV{concStr("00000000-0000-0000-0000-000000000000"), &IfaceV{}}
	})
	// math/big as 64-bit boxes (only NewInt / rand.Int / Int64 are needed)
	box := func(r *Run, t *Term) Value { return &PtrV{obj: r.newObj(types.Typ[types.Int64], t, "bigint")} }
	reg.set("math/big.NewInt", func(r *Run, fr *Frame, cc *ssa.CallCommon, a []Value) Value { return box(r, a[0].(*Term)) })
	reg.set("crypto/rand.Int", func(r *Run, fr *Frame, cc *ssa.CallCommon, a []Value) Value {
		max := a[1].(*PtrV).obj.val.(*Term)
		v := r.input(64)
		r.addPC(And(SLe(BVi(0, 64), v), SLt(v, max)))
		return TupleV{box(r, v), &IfaceV{}}
	})
	reg.set("(*math/big.Int).Int64", func(r *Run, fr *Frame, cc *ssa.CallCommon, a []Value) Value { return a[0].(*PtrV).obj.val })
	// ---- decision-logic stubs ---------------------------------------------------------------
	mk := func(r *Run, fr *Frame, msg string) Value {
		en := r.eng.prog.ImportedPackage("errors").Func("New")
		return r.callFn(fr, en, []Value{concStr(msg)}, lbl("stub"))
	}
	reg.set("github.com/jcmturner/gokrb5/v8/crypto.DecryptEncPart", func(r *Run, fr *Frame, cc *ssa.CallCommon, a []Value) Value {
		ed := a[0].(StructV)  // EncryptedData{EType, KVNO, Cipher}
		key := a[1].(StructV) // EncryptionKey{KeyType, KeyValue}
		usage := a[2].(*Term)
		cipher := r.force(&ed[2]).(*SliceV)
		kv := r.force(&key[1]).(*SliceV)
		args := []*Term{r.force(&key[0]).(*Term), usage}
		name := fmt.Sprintf("authentic_c%d_k%d", cipher.len, kv.len)
		if cipher.len > 0 {
			args = append(args, catBytes(sliceBytes(cipher)))
		}
		if kv.len > 0 {
			args = append(args, catBytes(sliceBytes(kv)))
		}
		ok := UF(name, 0, args...)
		r.ghostLog("decrypt", ok)
		if r.branch(ok) {
			return TupleV{cipher, &IfaceV{}}
		}
		return TupleV{&SliceV{}, mk(r, fr, "decrypt failed")}
	})
	unm := func(typeName string) intrinsic {
		return func(r *Run, fr *Frame, cc *ssa.CallCommon, a []Value) Value {
			p := a[0].(*PtrV)
			if r.branch(Eq(r.input(1), BVu(1, 1))) {
				r.store(p, r.havoc(typeAt(p.obj.typ, p.path)), lbl("havoc "+typeName))
				return &IfaceV{}
			}
			return mk(r, fr, "asn1 decode error")
		}
	}
	reg.set("(*github.com/jcmturner/gokrb5/v8/messages.EncTicketPart).Unmarshal", unm("EncTicketPart"))
	reg.set("(*github.com/jcmturner/gokrb5/v8/types.Authenticator).Unmarshal", unm("Authenticator"))
	reg.set("(*github.com/jcmturner/gokrb5/v8/messages.EncKDCRepPart).Unmarshal", unm("EncKDCRepPart"))
}

func (r *Run) ghostLog(k string, v Value) {
	var l []Value
	if o, ok := r.ghost[k]; ok {
		l = o.([]Value)
	}
	r.ghost[k] = append(l, v)
}

var _ = strings.Contains

func typeAt(t types.Type, path []PathElem) types.Type {
	for _, e := range path {
		switch u := t.Underlying().(type) {
		case *types.Struct:
			t = u.Field(e.field).Type()
		case *types.Array:
			t = u.Elem()
		default:
			panic("typeAt")
		}
	}
	return t
}

// lazy havoc: a field or element is materialised the first time it is read; copies share the cell
type lazyCell struct {
	t      types.Type
	forced bool
	val    Value
}
type LazyV struct{ c *lazyCell }

func (r *Run) lazy(t types.Type) Value {
	if isScalarType(t) {
		return r.havoc(t)
	}
	return &LazyV{c: &lazyCell{t: t}}
}

func (r *Run) force(slot *Value) Value {
	if lz, ok := (*slot).(*LazyV); ok {
		if !lz.c.forced {
			lz.c.forced = true
			lz.c.val = r.havoc(lz.c.t)
		}
		*slot = copyVal(lz.c.val)
	}
	return *slot
}
