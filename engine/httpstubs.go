package main

import (
	"go/types"
	"net/textproto"
	"strings"

	"golang.org/x/tools/go/ssa"
)

// Support for the SPNEGO HTTP code (C03, C18).
//
// Executed from their real code: net/http.Header (a map), http.Error, HandlerFunc.ServeHTTP,
// Request.Context/WithContext, goidentity's context helpers, strings/base64/hex.
// Intrinsics (global): textproto.CanonicalMIMEHeaderKey on concrete keys, fmt.Fprintln into an
// io.Writer, context.Background/WithValue (the real valueCtx type, so that the real Value code runs).
// Stub sets:
//   apreqstub  service.VerifyAPREQ returns an arbitrary verdict (what "the service accepts" means is C01)
//   hoststub   types.GetHostAddress returns an arbitrary address or an error
// encoding/gob Encode/Decode are an inverse pair (engine-side only: the native replay runs the real gob code).

const credsT = "github.com/jcmturner/gokrb5/v8/credentials"

// callMethod calls the method `name` of the dynamic type of an interface value.
func (r *Run) callMethod(fr *Frame, recv *IfaceV, name string, args []Value, site Site) Value {
	if recv.t == nil {
		r.mustNot(True, "nil", site, "invoke on nil interface "+name)
	}
	ms := r.eng.prog.MethodSets.MethodSet(recv.t)
	for i := 0; i < ms.Len(); i++ {
		if ms.At(i).Obj().Name() == name {
			fn := r.eng.prog.MethodValue(ms.At(i))
			return r.callFn(fr, fn, append([]Value{recv.v}, args...), site)
		}
	}
	endPath("engine", "method %s not found on %v", name, recv.t)
	return nil
}

func (r *Run) structField(t types.Type, sv StructV, name string) *Value {
	st := t.Underlying().(*types.Struct)
	for i := 0; i < st.NumFields(); i++ {
		if st.Field(i).Name() == name {
			return &sv[i]
		}
	}
	endPath("engine", "no field %s in %v", name, t)
	return nil
}

func (e *Engine) registerHTTP() {
	in := e.intrinsics
	in["net/textproto.CanonicalMIMEHeaderKey"] = func(r *Run, fr *Frame, cc *ssa.CallCommon, a []Value) Value {
		s, ok := a[0].(*StrV).Concrete()
		if !ok {
			endPath("engine", "symbolic header name")
		}
		return concStr(textproto.CanonicalMIMEHeaderKey(s))
	}
	in["fmt.Fprintln"] = func(r *Run, fr *Frame, cc *ssa.CallCommon, a []Value) Value {
		var bs []*Term
		if sl, ok := a[1].(*SliceV); ok {
			for i := 0; i < sl.len; i++ {
				if i > 0 {
					bs = append(bs, BVu(' ', 8))
				}
				iv, _ := r.force(&elemsOf(sl)[sl.off+i]).(*IfaceV)
				if iv != nil {
					if s, ok := iv.v.(*StrV); ok && s.opaque == nil {
						bs = append(bs, s.b...)
						continue
					}
				}
				bs = append(bs, BVu('?', 8))
			}
		}
		bs = append(bs, BVu('\n', 8))
		return r.callMethod(fr, a[0].(*IfaceV), "Write", []Value{r.bytesToSlice(bs)}, lbl("fmt.Fprintln"))
	}
	ctxPkg := func(r *Run) *ssa.Package { return r.eng.prog.ImportedPackage("context") }
	in["context.Background"] = func(r *Run, fr *Frame, cc *ssa.CallCommon, a []Value) Value {
		t := ctxPkg(r).Type("backgroundCtx").Type()
		return &IfaceV{t: t, v: zeroValue(t)}
	}
	in["context.WithValue"] = func(r *Run, fr *Frame, cc *ssa.CallCommon, a []Value) Value {
		parent := a[0].(*IfaceV)
		if parent.t == nil {
			r.mustNot(True, "panic", lbl("context.WithValue"), "cannot create context from nil parent")
		}
		if a[1].(*IfaceV).t == nil {
			r.mustNot(True, "panic", lbl("context.WithValue"), "nil key")
		}
		t := ctxPkg(r).Type("valueCtx").Type()
		o := r.newObj(t, StructV{parent, a[1], a[2]}, "valueCtx")
		return &IfaceV{t: types.NewPointer(t), v: &PtrV{obj: o}}
	}

	// ---- service.VerifyAPREQ: an arbitrary verdict ----------------------------------------------------
	vname := "github.com/jcmturner/gokrb5/v8/service.VerifyAPREQ"
	e.stub("apreqstub", vname, &stubSpec{custom: `
	zzverif.StubArgs("` + vname + `", APReq, s)
	var zzok, zzhas bool
	var zzcreds credentials.Credentials
	zzerr := zzverif.Stub("` + vname + `", &zzok, &zzhas, &zzcreds)
	if !zzhas {
		return zzok, nil, zzerr
	}
	return zzok, &zzcreds, zzerr
`}, func(r *Run, fr *Frame, cc *ssa.CallCommon, a []Value) Value {
		ct := r.eng.prog.ImportedPackage(credsT).Type("Credentials").Type()
		boolT := types.Typ[types.Bool]
		unwrap := func(v Value) Value {
			if iv, ok := v.(*IfaceV); ok {
				return iv.v
			}
			return v
		}
		var ok *Term
		var creds Value = &PtrV{}
		fails := false
		if sc := r.curScript; sc != nil {
			// scripted: "val" [ok bool, creds *Credentials] | "err" [creds]
			fails = sc.kind == "err"
			ok = False
			if !fails {
				ok = unwrap(sc.outs[0]).(*Term)
				creds = unwrap(sc.outs[1])
			} else if len(sc.outs) > 0 {
				creds = unwrap(sc.outs[0])
			}
		} else {
			// the documented contract: ok => no error and credentials; an error => not ok
			k := r.hvar(8)
			r.addPC(ULe(k, BVu(2, 8)))
			switch r.concretise(k, "VerifyAPREQ outcome") {
			case 0:
				ok = True
				creds = &PtrV{obj: r.newObj(ct, r.havoc(ct), "creds")}
			case 1:
				ok, fails = False, true
			default:
				ok = False
			}
		}
		has := False
		var cv Value = zeroValue(ct)
		if p := creds.(*PtrV); p.obj != nil {
			has = True
			cv = r.load(p, lbl("creds"))
		}
		kind := "val"
		var err Value = &IfaceV{}
		if fails {
			kind = "err"
			err = r.errNew(fr, "stub: AP-REQ not valid")
		}
		r.logStub(vname, kind, []Value{ok, has, cv}, []types.Type{boolT, boolT, ct})
		r.ghostLog("apreq-ok", And(ok, boolTerm(!fails)))
		return TupleV{ok, creds, err}
	})

	// ---- the Kerberos client as seen by the SPNEGO client (stub set "ticketstub") ------------------------------
	gst := "(*github.com/jcmturner/gokrb5/v8/client.Client).GetServiceTicket"
	e.stub("ticketstub", gst, &stubSpec{outs: []string{"ret0", "ret1"}, hasErr: true}, func(r *Run, fr *Frame, cc *ssa.CallCommon, a []Value) Value {
		res := e.fnByName[gst].Signature.Results()
		tt, kt := res.At(0).Type(), res.At(1).Type()
		if r.branch(Eq(r.hvar(1), BVu(1, 1))) {
			t, k := r.havoc(tt), r.havoc(kt)
			r.logStub(gst, "val", []Value{t, k}, []types.Type{tt, kt})
			return TupleV{t, k, &IfaceV{}}
		}
		r.logStub(gst, "err", nil, nil)
		return TupleV{zeroValue(tt), zeroValue(kt), r.errNew(fr, "stub: could not get service ticket")}
	})
	aff := "(*github.com/jcmturner/gokrb5/v8/client.Client).AffirmLogin"
	e.stub("ticketstub", aff, &stubSpec{hasErr: true}, func(r *Run, fr *Frame, cc *ssa.CallCommon, a []Value) Value {
		if r.branch(Eq(r.hvar(1), BVu(1, 1))) {
			r.logStub(aff, "val", nil, nil)
			return &IfaceV{}
		}
		r.logStub(aff, "err", nil, nil)
		return r.errNew(fr, "stub: could not get valid TGT")
	})

	// ---- types.GetHostAddress: any address or an error ---------------------------------------------------
	hname := "github.com/jcmturner/gokrb5/v8/types.GetHostAddress"
	e.stub("hoststub", hname, &stubSpec{outs: []string{"ret0"}, hasErr: true}, func(r *Run, fr *Frame, cc *ssa.CallCommon, a []Value) Value {
		ht := e.fnByName[hname].Signature.Results().At(0).Type()
		if r.branch(Eq(r.hvar(1), BVu(1, 1))) {
			h := r.havoc(ht)
			r.logStub(hname, "val", []Value{h}, []types.Type{ht})
			return TupleV{h, &IfaceV{}}
		}
		r.logStub(hname, "err", nil, nil)
		return TupleV{zeroValue(ht), r.errNew(fr, "stub: invalid format of client address")}
	})

	// ---- encoding/gob (reflection-driven) as an inverse pair -------------------------------------------------
	// Encode snapshots the value and writes a two-byte handle; Decode of a handle restores the snapshot
	// into a value of the same type; anything else is a decode error.  The code around it
	// (Credentials.Marshal / Unmarshal and their field copies) runs from its real code.
	in["encoding/gob.Register"] = func(r *Run, fr *Frame, cc *ssa.CallCommon, a []Value) Value { return TupleV{} }
	box := func(r *Run, v Value) Value { return &PtrV{obj: r.newObj(anyType, v, "gob")} }
	in["encoding/gob.NewEncoder"] = func(r *Run, fr *Frame, cc *ssa.CallCommon, a []Value) Value { return box(r, a[0]) }
	in["encoding/gob.NewDecoder"] = func(r *Run, fr *Frame, cc *ssa.CallCommon, a []Value) Value { return box(r, a[0]) }
	in["(*encoding/gob.Encoder).Encode"] = func(r *Run, fr *Frame, cc *ssa.CallCommon, a []Value) Value {
		w := a[0].(*PtrV).obj.val.(*IfaceV)
		e := a[1].(*IfaceV)
		var snap Value = e
		if pt, ok := e.t.Underlying().(*types.Pointer); ok {
			snap = &IfaceV{t: pt.Elem(), v: copyVal(r.load(e.v.(*PtrV), lbl("gob.Encode")))}
		}
		r.ghostLog("gob-values", snap)
		n := len(r.ghost["gob-values"].([]Value))
		r.callMethod(fr, w, "Write", []Value{r.bytesToSlice([]*Term{BVu(0xc5, 8), BVu(uint64(n-1), 8)})}, lbl("gob.Encode"))
		return &IfaceV{}
	}
	in["(*encoding/gob.Decoder).Decode"] = func(r *Run, fr *Frame, cc *ssa.CallCommon, a []Value) Value {
		rd := a[0].(*PtrV).obj.val.(*IfaceV)
		e := a[1].(*IfaceV)
		b, _ := r.callMethod(fr, rd, "Bytes", nil, lbl("gob.Decode")).(*SliceV)
		l, _ := r.ghost["gob-values"].([]Value)
		if b != nil && b.len == 2 {
			bs := sliceBytes(b)
			if bs[0].IsConst() && bs[1].IsConst() && bs[0].Uint() == 0xc5 && int(bs[1].Uint()) < len(l) {
				snap := l[bs[1].Uint()].(*IfaceV)
				if pt, ok := e.t.Underlying().(*types.Pointer); ok && types.Identical(pt.Elem(), snap.t) {
					r.store(e.v.(*PtrV), copyVal(snap.v), lbl("gob.Decode"))
					return &IfaceV{}
				}
			}
		}
		return r.errNew(fr, "gob: not an encoding produced by this run")
	}
	_ = strings.HasPrefix
}

func boolTerm(b bool) *Term {
	if b {
		return True
	}
	return False
}
