package main

import (
	"os"
	"go/token"
	"go/types"

	"golang.org/x/tools/go/ssa"
)

var bodyType = types.NewNamed(types.NewTypeName(token.NoPos, fakePkg, "Body", nil), types.NewStruct(nil, nil), nil)

// Scripted HTTP server: the k-th request gets a symbolic response kind
//   0 = 200, 1 = 401 with "WWW-Authenticate: Negotiate", 2 = transport error
func (e *Engine) registerHTTP() {
	in := e.intrinsics
	in["(*net/http.Client).Do"] = func(r *Run, fr *Frame, cc *ssa.CallCommon, a []Value) Value {
		n := 0
		if v, ok := r.ghost["http-requests"]; ok {
			n = v.(int)
		}
		n++
		r.ghost["http-requests"] = n
		if n > 12 {
			r.mustNot(True, "unwind", lbl("spnego.Client.Do"), "more than 12 HTTP requests for one call: no retry bound")
		}
		kind := r.input(8)
		r.addPC(ULe(kind, BVu(2, 8)))
		if r.branch(Eq(kind, BVu(2, 8))) {
			en := r.eng.prog.ImportedPackage("errors").Func("New")
			return TupleV{&PtrV{}, r.callFn(fr, en, []Value{concStr("transport error")}, lbl("http"))}
		}
		rt := r.eng.prog.ImportedPackage("net/http").Type("Response").Type()
		o := r.newObj(rt, zeroValue(rt), "response")
		sv := o.val.(StructV)
		st := rt.Underlying().(*types.Struct)
		for i := 0; i < st.NumFields(); i++ {
			switch st.Field(i).Name() {
			case "StatusCode":
				sv[i] = Ite(Eq(kind, BVu(1, 8)), BVi(401, 64), BVi(200, 64))
			case "Body":
				sv[i] = &IfaceV{t: bodyType, v: BVi(0, 64)}
			}
		}
		r.ghost["last-kind"] = kind
		return TupleV{&PtrV{obj: o}, &IfaceV{}}
	}
	in["(net/http.Header).Get"] = func(r *Run, fr *Frame, cc *ssa.CallCommon, a []Value) Value {
		// only the response's WWW-Authenticate header is read by the code under test
		return concStr("Negotiate")
	}
	in["(net/http.Header).Set"] = func(r *Run, fr *Frame, cc *ssa.CallCommon, a []Value) Value { return nil }
	in["(net/http.Header).Del"] = func(r *Run, fr *Frame, cc *ssa.CallCommon, a []Value) Value { return nil }
	in["gosym.Body.Close"] = func(r *Run, fr *Frame, cc *ssa.CallCommon, a []Value) Value { return &IfaceV{} }
	if os.Getenv("GOSYM_HTTP") != "" {
	in["io.Copy"] = func(r *Run, fr *Frame, cc *ssa.CallCommon, a []Value) Value { return TupleV{BVi(0, 64), &IfaceV{}} }
	}
	in["github.com/jcmturner/gokrb5/v8/spnego.SetSPNEGOHeader"] = func(r *Run, fr *Frame, cc *ssa.CallCommon, a []Value) Value {
		return &IfaceV{}
	}
}
