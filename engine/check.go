package main

import (
	"bufio"
	"encoding/json"
	"flag"
	"fmt"
	"os"
	"path/filepath"
	"sort"
	"strconv"
	"strings"
	"time"
)

// ---- known findings --------------------------------------------------------------------------
//
// /verif/KNOWN_FINDINGS.txt, one entry per line (never written at run time):
//   known: property=C04 key=<violation key> what=<text>
//   fixed: property=C05 <commit> <what failed>
// A known: line suppresses exactly one violation key of one property.

type knownFinding struct {
	property, key, what string
	used                bool
}

func loadKnown(path string) []*knownFinding {
	f, err := os.Open(path)
	if err != nil {
		return nil
	}
	defer f.Close()
	var out []*knownFinding
	sc := bufio.NewScanner(f)
	sc.Buffer(make([]byte, 1<<20), 1<<20)
	for sc.Scan() {
		l := strings.TrimSpace(sc.Text())
		if !strings.HasPrefix(l, "known:") {
			continue
		}
		kf := &knownFinding{}
		rest := strings.TrimSpace(strings.TrimPrefix(l, "known:"))
		if i := strings.Index(rest, " what="); i >= 0 {
			kf.what = rest[i+6:]
			rest = rest[:i]
		}
		for _, f := range strings.Fields(rest) {
			if kv := strings.SplitN(f, "=", 2); len(kv) == 2 {
				switch kv[0] {
				case "property":
					kf.property = kv[1]
				case "key":
					kf.key = kv[1]
				}
			}
		}
		if kf.property != "" && kf.key != "" {
			out = append(out, kf)
		}
	}
	return out
}

// ---- check command ---------------------------------------------------------------------------

func cmdCheck(args []string) int {
	fs := flag.NewFlagSet("check", flag.ExitOnError)
	cf := addCommon(fs)
	prop := fs.String("property", "", "property id, e.g. C05")
	tier := fs.String("tier", "quick", "quick|thorough")
	only := fs.String("only", "", "run only instances whose name contains this")
	evdir := fs.String("evidence", "/verif/evidence", "")
	known := fs.String("known", "/verif/KNOWN_FINDINGS.txt", "")
	replace := fs.String("replace", "", "repoFile=localFile,... (overlay replacement; experiments only)")
	noEv := fs.Bool("no-evidence", false, "do not write the evidence file (experiments)")
	maxPaths := fs.Int("maxpaths", 0, "override every instance's path limit (experiments)")
	timeoutS := fs.Int("timeout", 0, "override every instance's work budget in seconds (experiments)")
	smtlog := fs.String("smtlog", "", "write the complete SMT-LIB session of worker 0 here (use with -workers 1; input of tools/crosscheck.sh)")
	nwit := fs.Int("witness", 1, "completed paths per instance whose model is replayed natively (translator validation); 0 = off")
	fs.Parse(args)
	verbose = *cf.v
	t0 := time.Now()
	seed := 0
	if s := os.Getenv("VERIF_SEED"); s != "" {
		seed, _ = strconv.Atoi(s)
	}
	var insts []*Instance
	for _, in := range allInstances() {
		if in.Property != *prop {
			continue
		}
		if in.Tier == "thorough" && *tier != "thorough" {
			continue
		}
		if in.Tier == "quickonly" && *tier != "quick" {
			continue
		}
		if *only != "" && !strings.Contains(in.Name, *only) {
			continue
		}
		if *maxPaths > 0 {
			in.MaxPaths = *maxPaths
		}
		if *timeoutS > 0 {
			in.TimeoutS = *timeoutS
		}
		insts = append(insts, in)
	}
	if len(insts) == 0 {
		fmt.Printf("INCONCLUSIVE property=%s reason=no instances registered\n", *prop)
		return 2
	}
	extra := map[string]string{}
	for _, m := range strings.Split(*replace, ",") {
		if kv := strings.SplitN(m, "=", 2); len(kv) == 2 {
			extra[kv[0]] = kv[1]
		}
	}
	ov := harnessOverlay(*cf.repo, *cf.harness, extra)
	prog, err := loadProgram(*cf.repo, ov)
	if err != nil {
		fmt.Printf("INCONCLUSIVE property=%s reason=cannot load %s: %v\n", *prop, *cf.repo, err)
		return 2
	}
	loadT := time.Since(t0)
	eng := newEngine(prog)
	ck := &Checker{eng: eng, repo: *cf.repo, harness: *cf.harness, solverBin: *cf.z3, workers: *cf.workers, extra: extra, witnesses: *nwit, smtlog: *smtlog}
	states := ck.explore(insts)
	// if-conversion is an optimisation with limits (it cannot merge pointer-valued locals): an instance whose
	// code has changed so that a merge fails is explored again path by path instead of ending inconclusive
	var retry []*Instance
	retryAt := map[string]int{}
	for i, st := range states {
		for m := range st.engineErr {
			if strings.Contains(m, "cannot merge") && len(st.in.Merge) > 0 {
				c := *st.in
				c.Merge, c.mergeFns = nil, map[string]bool{}
				c.Note = strings.TrimSpace(c.Note + " (explored without if-conversion: a merge failed on the current source)")
				retry = append(retry, &c)
				retryAt[c.Name] = i
				break
			}
		}
	}
	if len(retry) > 0 {
		ck2 := &Checker{eng: eng, repo: ck.repo, harness: ck.harness, solverBin: ck.solverBin, workers: ck.workers, extra: extra, witnesses: ck.witnesses}
		for _, st := range ck2.explore(retry) {
			states[retryAt[st.in.Name]] = st
		}
	}
	exploreT := time.Since(t0) - loadT

	// classify violations
	kfs := loadKnown(*known)
	for _, st := range states {
		expect := map[string]bool{}
		for _, e := range st.in.Expect {
			expect[e] = true
		}
		for _, k := range st.violOrder {
			v := st.viols[k]
			v.class = "new"
			if expect[k] {
				v.class = "expected"
				continue
			}
			for _, kf := range kfs {
				if kf.property == *prop && kf.key == k {
					v.class = "known"
					kf.used = true
				}
			}
		}
	}
	// replay everything that would be reported (new and known; expected twins are not replayed)
	var toReplay []*instState
	for _, st := range states {
		need := false
		for _, v := range st.viols {
			if v.class != "expected" {
				need = true
			} else {
				v.replay = "skipped"
			}
		}
		if need || len(st.wits) > 0 {
			toReplay = append(toReplay, st)
		}
	}
	rt0 := time.Now()
	if len(toReplay) > 0 {
		// only replay non-expected ones
		saved := map[*instState][]string{}
		for _, st := range toReplay {
			saved[st] = st.violOrder
			var keep []string
			for _, k := range st.violOrder {
				if st.viols[k].class != "expected" {
					keep = append(keep, k)
				}
			}
			st.violOrder = keep
		}
		ck.replayAll(toReplay)
		for st, o := range saved {
			st.violOrder = o
		}
	}
	replayT := time.Since(rt0)

	// verdict
	exit := 0
	var lines []string
	inconclusive := func(reason string) {
		lines = append(lines, fmt.Sprintf("INCONCLUSIVE property=%s reason=%s", *prop, reason))
		if exit == 0 {
			exit = 2
		}
	}
	nViol, nKnown := 0, 0
	knownPrinted := map[string]bool{}
	for _, st := range states {
		in := st.in
		ck.printInstance(st, false)
		if st.stopped != "" && st.stopped != "violation budget" {
			inconclusive(fmt.Sprintf("%s: exploration incomplete (%s)", in.Name, st.stopped))
		}
		for u, n := range st.unknowns {
			inconclusive(fmt.Sprintf("%s: %s (x%d)", in.Name, u, n))
		}
		for e, n := range st.engineErr {
			inconclusive(fmt.Sprintf("%s: engine: %s (x%d)", in.Name, e, n))
		}
		for _, l := range in.Reach {
			if !st.reach[l] {
				inconclusive(fmt.Sprintf("%s: reach label %q not hit (vacuity guard)", in.Name, l))
			}
		}
		for _, e := range in.Expect {
			if _, ok := st.viols[e]; !ok {
				inconclusive(fmt.Sprintf("%s: mutation witness did not produce expected violation %s (oracle blind)", in.Name, e))
			}
		}
		for _, k := range st.violOrder {
			v := st.viols[k]
			switch v.class {
			case "expected":
			case "known":
				if v.replay != "confirmed" {
					inconclusive(fmt.Sprintf("%s: known finding %s did not replay (%s: %s)", in.Name, k, v.replay, v.replayMsg))
				}
				nKnown++
				if !knownPrinted[k] {
					knownPrinted[k] = true
					what := ""
					for _, kf := range kfs {
						if kf.property == *prop && kf.key == k {
							what = kf.what
						}
					}
					lines = append(lines, fmt.Sprintf("KNOWN-FINDING: property=%s key=%s %s", *prop, k, what))
				}
			default:
				if v.replay == "confirmed" {
					nViol++
					lines = append(lines, fmt.Sprintf("VIOLATION property=%s replay=%s instance=%s key=%s site=%s msg=%q", *prop, v.replayFile, in.Name, k, v.Site, v.Msg))
					exit = 1
				} else {
					lines = append(lines, fmt.Sprintf("UNCONFIRMED property=%s instance=%s key=%s site=%s replay=%s (%s)", *prop, in.Name, k, v.Site, v.replay, v.replayMsg))
					if exit == 0 {
						exit = 2
					}
				}
			}
		}
	}
	for _, kf := range kfs {
		if kf.property == *prop && !kf.used && *only == "" {
			// a listed finding that no longer occurs is not an error (it may have been fixed), but say so
			lines = append(lines, fmt.Sprintf("NOTE property=%s listed known finding not observed in tier %s: %s", *prop, *tier, kf.key))
		}
	}
	// translator validation: completed paths replayed natively must complete natively too
	nWit, nWitOK := 0, 0
	for _, st := range states {
		for _, w := range st.wits {
			if w.replay == "" || w.replay == "skipped" {
				continue
			}
			nWit++
			if w.replay == "confirmed" {
				nWitOK++
			} else {
				lines = append(lines, fmt.Sprintf("WITNESS-MISMATCH property=%s instance=%s the native run of a completed symbolic path differs: %s (%s) file=%s", *prop, st.in.Name, w.replay, w.replayMsg, w.replayFile))
				// a native panic or failed assertion on a path the symbolic run completed cleanly means the encoding
				// does not represent the code there: the verdict for the property cannot be "held"
				if (strings.Contains(w.replayMsg, "result=panic") || strings.Contains(w.replayMsg, "result=assert")) && exit == 0 {
					lines = append(lines, fmt.Sprintf("INCONCLUSIVE property=%s reason=%s: translator validation failed (native run of a completed symbolic path panicked or failed an assertion)", *prop, st.in.Name))
					exit = 2
				}
			}
		}
	}
	lines = append(lines, fmt.Sprintf("WITNESSES property=%s completed symbolic paths replayed natively: %d, agreeing: %d", *prop, nWit, nWitOK))
	if nViol > 0 {
		exit = 1
	}
	for _, l := range lines {
		fmt.Println(l)
	}
	wall := time.Since(t0)
	if !*noEv {
		writeEvidence(*evdir, *prop, *tier, seed, states, wall, loadT, exploreT, replayT, nViol, nKnown, lines, ck)
	}
	fmt.Printf("RESULT property=%s tier=%s exit=%d instances=%d violations=%d known=%d wall=%.1fs (load %.1fs, explore %.1fs, replay %.1fs)\n", *prop, *tier, exit, len(states), nViol, nKnown, wall.Seconds(), loadT.Seconds(), exploreT.Seconds(), replayT.Seconds())
	return exit
}

// ---- evidence --------------------------------------------------------------------------------

func writeEvidence(dir, prop, tier string, seed int, states []*instState, wall, loadT, exploreT, replayT time.Duration, nViol, nKnown int, lines []string, ck *Checker) {
	os.MkdirAll(dir, 0o755)
	paths, steps, queries, qsat, qunsat, qunk, oblU, oblS, confirmed := 0, 0, 0, 0, 0, 0, 0, 0, 0
	var solverT time.Duration
	fnSet := map[string]int{}
	var instList []map[string]interface{}
	var samples []interface{}
	assume := map[string]bool{}
	stubs := map[string]bool{}
	allDone := true
	for _, st := range states {
		paths += st.paths
		steps += st.steps
		queries += st.queries
		qsat += st.qsat
		qunsat += st.qunsat
		qunk += st.qunknown
		oblU += st.oblUnsat
		oblS += st.oblSat
		solverT += st.solverT
		for f, n := range st.instr {
			fnSet[f] += n
		}
		if st.stopped != "" || len(st.unknowns) > 0 || len(st.engineErr) > 0 {
			allDone = false
		}
		var reach []string
		for l := range st.reach {
			reach = append(reach, l)
		}
		sort.Strings(reach)
		var vl []map[string]interface{}
		for _, k := range st.violOrder {
			v := st.viols[k]
			if v.replay == "confirmed" {
				confirmed++
			}
			vl = append(vl, map[string]interface{}{"key": k, "site": v.Site, "msg": v.Msg, "class": v.class, "replay": v.replay, "replay_detail": v.replayMsg, "replay_file": v.replayFile, "paths_hit": v.count})
			if len(samples) < 8 {
				samples = append(samples, map[string]interface{}{"instance": st.in.Name, "obligation": v.Kind + " at " + v.Site, "verdict": "sat (" + v.class + ", replay " + v.replay + ")", "model_inputs_hex": inputHex(v.Inputs, 40)})
			}
		}
		for _, s := range st.samples {
			if len(samples) < 12 {
				samples = append(samples, map[string]interface{}{"instance": st.in.Name, "obligation": s})
			}
		}
		for _, s := range st.in.Stubs {
			stubs[s] = true
		}
		instList = append(instList, map[string]interface{}{"name": st.in.Name, "entry": st.in.Entry, "params": st.in.Params, "bound": st.in.Bound, "note": st.in.Note,
			"paths": st.paths, "path_ends": st.ends, "ssa_instructions": st.steps, "merges": st.merges, "queries": st.queries, "obligations_unsat": st.oblUnsat, "obligations_sat": st.oblSat, "secrecy_sinks_checked": st.sinks,
			"solver_s": round2(st.solverT.Seconds()), "wall_s": round2(st.wall().Seconds()), "reach": reach, "violations": vl, "inconclusive": st.unknowns, "engine_errors": st.engineErr,
			"stopped": st.stopped, "unwind": st.in.Unwind, "merge_list": st.in.Merge, "stub_sets": st.in.Stubs, "logic": st.in.Logic, "expected_witnesses": st.in.Expect, "functions_from_ssa": len(st.instr)})
	}
	var fns []string
	for f := range fnSet {
		fns = append(fns, f)
	}
	sort.Strings(fns)
	if len(samples) == 0 {
		samples = append(samples, "no obligations recorded")
	}
	for a := range propertyAssumptions(prop, stubs) {
		assume[a] = true
	}
	var al []string
	for a := range assume {
		al = append(al, a)
	}
	sort.Strings(al)
	cov := map[string]interface{}{
		"states":                        paths,
		"transitions":                   steps,
		"traces_validated_against_impl": confirmed + witnessesOK(states),
		"witness_paths_replayed":        witnessesRun(states),
		"samples":                       samples,
		"evaluations":                   queries,
		"distinct_nontrivial":           oblU + oblS,
		"rule":                          "evaluations = SMT queries sent by this run (feasibility + obligations); distinct_nontrivial = obligation queries (implicit panic/bounds/alloc checks and harness assertions whose failure condition did not fold to a constant) decided unsat or sat; states = completed symbolic paths; transitions = SSA instructions executed symbolically; traces_validated_against_impl = solver models replayed against the natively compiled code with the same outcome: counterexamples that reproduced, plus models of completed violation-free paths (translator validation, -witness N per instance) whose native run also completed without a failed assertion or panic",
		"exhaustive":                    allDone,
		"explanation":                   "bounded symbolic execution of the real go/ssa of /repo/v8 (regenerated on this run); every path inside the stated bounds explored; each obligation decided by z3 5.1.0 over all values of the symbolic inputs",
		"instances":                     instList,
		"functions_encoded":             fns,
		"functions_encoded_count":       len(fns),
		"queries":                       map[string]int{"total": queries, "sat": qsat, "unsat": qunsat, "unknown": qunk},
		"obligations":                   oblU + oblS,
		"discharged":                    oblU,
		"solver":                        ck.solverBin + " (z3 5.1.0) -in, incremental",
		"solver_s":                      round2(solverT.Seconds()),
		"load_s":                        round2(loadT.Seconds()),
		"explore_s":                     round2(exploreT.Seconds()),
		"replay_s":                      round2(replayT.Seconds()),
		"verdict_lines":                 lines,
		"known_findings_matched":        nKnown,
	}
	ev := map[string]interface{}{"property_id": prop, "tier": tier, "seed": seed, "level": "model_checking", "coverage": cov, "assumptions": al, "wall_s": round2(wall.Seconds()), "violations": nViol}
	b, _ := json.MarshalIndent(ev, "", " ")
	os.WriteFile(filepath.Join(dir, prop+".json"), b, 0o644)
}

func round2(f float64) float64 { return float64(int64(f*100+0.5)) / 100 }

func inputHex(in []InputVal, max int) []string {
	var out []string
	for i, v := range in {
		if i >= max {
			out = append(out, fmt.Sprintf("...(%d more)", len(in)-i))
			break
		}
		out = append(out, v.Hex)
	}
	return out
}


func witnessesOK(states []*instState) int {
	n := 0
	for _, st := range states {
		for _, w := range st.wits {
			if w.replay == "confirmed" {
				n++
			}
		}
	}
	return n
}

func witnessesRun(states []*instState) int {
	n := 0
	for _, st := range states {
		for _, w := range st.wits {
			if w.replay != "" && w.replay != "skipped" {
				n++
			}
		}
	}
	return n
}
