package main

import (
	"fmt"
	"go/types"

	"golang.org/x/tools/go/ssa"
)

// asn1.Marshal as an uninterpreted function of everything the codec can read from its argument.
func (r *Run) flatten(v Value, sig *string, out *[]*Term) {
	switch x := v.(type) {
	case *Term:
		t := x
		if t.w == 0 {
			t = BoolToBV(t, 1)
		}
		*sig += fmt.Sprintf("w%d", t.w)
		*out = append(*out, t)
	case *StrV:
		if x.opaque != nil {
			*sig += "o"
			*out = append(*out, x.opaque)
			return
		}
		*sig += fmt.Sprintf("s%d", len(x.b))
		*out = append(*out, x.b...)
	case *SliceV:
		*sig += fmt.Sprintf("[%d", x.len)
		for i := 0; i < x.len; i++ {
			r.flatten(r.force(&elemsOf(x)[x.off+i]), sig, out)
		}
		*sig += "]"
	case StructV:
		*sig += "{"
		for i := range x {
			r.flatten(r.force(&x[i]), sig, out)
		}
		*sig += "}"
	case ArrayV:
		for i := range x {
			r.flatten(r.force(&x[i]), sig, out)
		}
	case *PtrV:
		if x.obj == nil {
			*sig += "n"
		} else {
			*sig += "p"
		}
	case *IfaceV:
		if x.t == nil {
			*sig += "n"
		} else {
			r.flatten(x.v, sig, out)
		}
	default:
		*sig += "?"
	}
}

func (e *Engine) registerASN1() {
	in := e.intrinsics
	in["github.com/jcmturner/gofork/encoding/asn1.Marshal"] = func(r *Run, fr *Frame, cc *ssa.CallCommon, a []Value) Value {
		iv := a[0].(*IfaceV)
		sig := iv.t.String()
		var ts []*Term
		r.flatten(iv.v, &sig, &ts)
		h := fnvs(sig)
		name := fmt.Sprintf("ASN1_%08x", h)
		var args []*Term
		if len(ts) > 0 {
			t := ts[0]
			for _, x := range ts[1:] {
				t = Concat(t, x)
			}
			args = append(args, t)
		}
		out := splitBytes(UF(name, 64, args...))
		return TupleV{r.bytesToSlice(out), &IfaceV{}}
	}
	_ = types.Typ
}

func fnvs(s string) uint32 {
	var h uint32 = 2166136261
	for i := 0; i < len(s); i++ {
		h ^= uint32(s[i])
		h *= 16777619
	}
	return h
}
