package main

import (
	"go/types"

	"golang.org/x/tools/go/ssa"
)

// Stub set "exactfmt": fmt.Sprintf / fmt.Fprintf produce the exact text for formats made of literal text
// and the verbs %s, %d, %v applied to strings and integers (decimal digits of a symbolic integer are
// computed by division by 10 after a case split on the number of digits, so harnesses keep such integers
// small).  Anything else falls back to the opaque model.  Used where the code under test compares
// formatted strings (PAC group SIDs).

func (r *Run) exactFormat(f *StrV, args *SliceV) (*StrV, bool) {
	fs, ok := f.Concrete()
	if !ok {
		return nil, false
	}
	out := &StrV{}
	ai := 0
	for i := 0; i < len(fs); i++ {
		if fs[i] != '%' {
			out.b = append(out.b, BVu(uint64(fs[i]), 8))
			continue
		}
		i++
		if i >= len(fs) {
			return nil, false
		}
		if fs[i] == '%' {
			out.b = append(out.b, BVu('%', 8))
			continue
		}
		if fs[i] != 's' && fs[i] != 'd' && fs[i] != 'v' {
			return nil, false
		}
		if ai >= args.len {
			return nil, false
		}
		iv, _ := r.force(&elemsOf(args)[args.off+ai]).(*IfaceV)
		ai++
		if iv == nil || iv.t == nil {
			return nil, false
		}
		switch v := iv.v.(type) {
		case *StrV:
			if v.opaque != nil {
				return nil, false
			}
			out.b = append(out.b, v.b...)
		case *Term:
			if v.w == 0 {
				return nil, false
			}
			b, ok := iv.t.Underlying().(*types.Basic)
			if !ok || b.Info()&types.IsInteger == 0 {
				return nil, false
			}
			x := v
			if b.Info()&types.IsUnsigned == 0 {
				if r.branch(SLt(x, BVi(0, x.w))) {
					out.b = append(out.b, BVu('-', 8))
					x = Neg(x)
				}
			}
			if x.w < 64 {
				x = ZExt(x, 64)
			}
			digits := 1
			pow := uint64(10)
			for digits < 20 && !r.branch(ULt(x, BVu(pow, 64))) {
				digits++
				pow *= 10
			}
			ds := make([]*Term, digits)
			for k := digits - 1; k >= 0; k-- {
				ds[k] = Add(Extract(URem(x, BVu(10, 64)), 7, 0), BVu('0', 8))
				x = UDiv(x, BVu(10, 64))
			}
			out.b = append(out.b, ds...)
		default:
			return nil, false
		}
	}
	return out, true
}

func (e *Engine) registerExactFmt() {
	in := e.intrinsics
	in["exactfmt:fmt.Sprintf"] = func(r *Run, fr *Frame, cc *ssa.CallCommon, a []Value) Value {
		if s, ok := r.exactFormat(a[0].(*StrV), a[1].(*SliceV)); ok {
			return s
		}
		return r.opaqueFormat(a[0].(*StrV), a[1].(*SliceV))
	}
	in["exactfmt:fmt.Fprintf"] = func(r *Run, fr *Frame, cc *ssa.CallCommon, a []Value) Value {
		s, ok := r.exactFormat(a[1].(*StrV), a[2].(*SliceV))
		if !ok {
			endPath("engine", "exactfmt: unsupported format written to a writer")
		}
		return r.callMethod(fr, a[0].(*IfaceV), "Write", []Value{r.bytesToSlice(s.b)}, lbl("fmt.Fprintf"))
	}
}
