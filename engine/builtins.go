package main

import (
	"fmt"
	"go/types"

	"golang.org/x/tools/go/ssa"
)

func (r *Run) builtin(fr *Frame, b *ssa.Builtin, cc *ssa.CallCommon, args []Value, site Site) Value {
	switch b.Name() {
	case "len":
		switch a := args[0].(type) {
		case *SliceV:
			return BVi(int64(a.len), 64)
		case *StrV:
			if a.opaque != nil {
				return UF("strlen", 64, a.opaque)
			}
			return BVi(int64(len(a.b)), 64)
		case *MapV:
			return r.mapLen(a)
		case *PtrV:
			n := cc.Args[0].Type().Underlying().(*types.Pointer).Elem().Underlying().(*types.Array).Len()
			return BVi(n, 64)
		case ArrayV:
			return BVi(int64(len(a)), 64)
		}
	case "cap":
		switch a := args[0].(type) {
		case *SliceV:
			return BVi(int64(a.cap), 64)
		}
	case "append":
		s := args[0].(*SliceV)
		et := cc.Args[0].Type().Underlying().(*types.Slice).Elem()
		var elems []Value
		switch a := args[1].(type) {
		case *SliceV:
			for i := 0; i < a.len; i++ {
				elems = append(elems, copyVal(elemsOf(a)[a.off+i]))
			}
		case *StrV:
			if a.opaque != nil {
				endPath("engine", "append opaque string")
			}
			for _, t := range a.b {
				elems = append(elems, t)
			}
		}
		n := s.len + len(elems)
		if n <= s.cap && s.arr != nil {
			arr := elemsOf(s)
			for i, e := range elems {
				arr[s.off+s.len+i] = e
			}
			return &SliceV{arr: s.arr, base: s.base, off: s.off, len: n, cap: s.cap}
		}
		if len(elems) == 0 {
			return s
		}
		nc := 2 * s.cap
		if nc < n {
			nc = n
		}
		ns := r.makeSlice(et, n, nc)
		na := elemsOf(ns)
		for i := 0; i < s.len; i++ {
			na[i] = copyVal(elemsOf(s)[s.off+i])
		}
		for i, e := range elems {
			na[s.len+i] = e
		}
		return ns
	case "copy":
		d := args[0].(*SliceV)
		var src []Value
		switch a := args[1].(type) {
		case *SliceV:
			for i := 0; i < a.len; i++ {
				src = append(src, copyVal(elemsOf(a)[a.off+i]))
			}
		case *StrV:
			for _, t := range a.b {
				src = append(src, t)
			}
		}
		n := d.len
		if len(src) < n {
			n = len(src)
		}
		for i := 0; i < n; i++ {
			elemsOf(d)[d.off+i] = src[i]
		}
		return BVi(int64(n), 64)
	case "delete":
		m := args[0].(*MapV)
		if !m.isNil {
			m.entries = append(m.entries, MapEntry{k: args[1], del: true})
		}
		return nil
	case "String": // unsafe.String(ptr, len)
		p, ok := args[0].(*PtrV)
		n := int(r.concretise(args[1].(*Term), "unsafe.String len"))
		if n == 0 {
			return &StrV{}
		}
		if !ok || p.obj == nil || len(p.path) == 0 || p.path[len(p.path)-1].idx == nil {
			endPath("engine", "unsafe.String of %T", args[0])
		}
		base := &PtrV{obj: p.obj, path: p.path[:len(p.path)-1]}
		arr, ok2 := r.loadPath(r.force(&base.obj.val), base.path, site).(ArrayV)
		off := int(r.concretise(p.path[len(p.path)-1].idx, "unsafe.String offset"))
		if !ok2 || off+n > len(arr) {
			endPath("engine", "unsafe.String out of its array")
		}
		out := &StrV{b: make([]*Term, n)}
		for i := 0; i < n; i++ {
			out.b[i] = arr[off+i].(*Term)
		}
		return out
	case "SliceData":
		sl := args[0].(*SliceV)
		if sl.arr == nil {
			return &PtrV{}
		}
		return &PtrV{obj: sl.arr, path: append(append([]PathElem{}, sl.base...), PathElem{idx: BVi(int64(sl.off), 64)})}
	case "StringData":
		endPath("engine", "unsafe.%s unsupported", b.Name())
	case "print", "println":
		return nil
	case "recover":
		// effective only when called directly by a deferred function while its deferrer is panicking
		if fr != nil && fr.caller != nil && fr.caller.panicking != nil {
			v := fr.caller.panicking.val
			fr.caller.panicking = nil
			if iv, ok := v.(*IfaceV); ok {
				return iv
			}
			return &IfaceV{t: anyType, v: v}
		}
		return &IfaceV{}
	case "ssa:wrapnilchk":
		p := args[0].(*PtrV)
		if p.obj == nil {
			r.mustNot(True, "nil", site, "nil receiver in wrapper")
		}
		return p
	case "min", "max":
		x := args[0].(*Term)
		for _, a := range args[1:] {
			y := a.(*Term)
			var lt *Term
			if isSigned(cc.Args[0].Type()) {
				lt = SLt(x, y)
			} else {
				lt = ULt(x, y)
			}
			if b.Name() == "min" {
				x = Ite(lt, x, y)
			} else {
				x = Ite(lt, y, x)
			}
		}
		return x
	}
	endPath("engine", "unsupported builtin %s on %T at %s", b.Name(), args[0], site)
	return nil
}

// ---- maps (association list, symbolic keys) ------------------------------------------

func (r *Run) mapLookup(m *MapV, k Value, site Site) (Value, *Term) {
	zero := zeroValue(m.typ.Elem())
	// later entries shadow earlier ones: walk from newest to oldest building a decision by branching
	for i := len(m.entries) - 1; i >= 0; i-- {
		e := m.entries[i]
		eq := r.valEq(e.k, k, site)
		if r.branch(eq) {
			if e.del {
				return zero, False
			}
			return copyVal(e.v), True
		}
	}
	return zero, False
}

func (r *Run) mapUpdate(m *MapV, k, v Value) {
	m.entries = append(m.entries, MapEntry{k: k, v: copyVal(v)})
}

// live entries (newest wins), in insertion order of first appearance; forks on symbolic key equality
func (r *Run) mapLive(m *MapV) []MapEntry {
	var live []MapEntry
	for i := 0; i < len(m.entries); i++ {
		e := m.entries[i]
		shadowed := false
		for j := i + 1; j < len(m.entries); j++ {
			if r.branch(r.valEq(m.entries[j].k, e.k, lbl("maplive"))) {
				shadowed = true
				break
			}
		}
		if !shadowed && !e.del {
			live = append(live, e)
		}
	}
	return live
}

func (r *Run) mapLen(m *MapV) *Term {
	return BVi(int64(len(r.mapLive(m))), 64)
}

// ---- range -----------------------------------------------------------------------------

type iterV struct {
	entries []MapEntry
	str     *StrV
	pos     int
}

func (r *Run) rangeInit(x Value, site Site) Value {
	switch a := x.(type) {
	case *MapV:
		return &iterV{entries: r.mapLive(a)}
	case *StrV:
		if a.opaque != nil {
			endPath("engine", "range over opaque string")
		}
		return &iterV{str: a}
	}
	endPath("engine", "range over %T", x)
	return nil
}

func (r *Run) rangeNext(it *iterV, isString bool, site Site) Value {
	if !isString {
		if it.pos >= len(it.entries) {
			return TupleV{False, nil, nil}
		}
		e := it.entries[it.pos]
		it.pos++
		return TupleV{True, e.k, copyVal(e.v)}
	}
	s := it.str
	if it.pos >= len(s.b) {
		return TupleV{False, BVi(0, 64), BVi(0, 32)}
	}
	start := it.pos
	b0 := s.b[start]
	rem := len(s.b) - start
	bad := func() Value {
		it.pos = start + 1
		return TupleV{True, BVi(int64(start), 64), BVi(0xFFFD, 32)}
	}
	cont := func(b *Term) *Term { return And(ULe(BVu(0x80, 8), b), ULe(b, BVu(0xBF, 8))) }
	z32 := func(b *Term) *Term { return ZExt(b, 32) }
	// ASCII
	if r.branch(ULt(b0, BVu(0x80, 8))) {
		it.pos = start + 1
		return TupleV{True, BVi(int64(start), 64), z32(b0)}
	}
	// 2-byte
	if r.branch(And(ULe(BVu(0xC2, 8), b0), ULe(b0, BVu(0xDF, 8)))) {
		if rem < 2 || !r.branch(cont(s.b[start+1])) {
			return bad()
		}
		it.pos = start + 2
		rv := BOr(Shl(BAnd(z32(b0), BVu(0x1F, 32)), BVu(6, 32)), BAnd(z32(s.b[start+1]), BVu(0x3F, 32)))
		return TupleV{True, BVi(int64(start), 64), rv}
	}
	// 3-byte
	if r.branch(And(ULe(BVu(0xE0, 8), b0), ULe(b0, BVu(0xEF, 8)))) {
		if rem < 3 {
			return bad()
		}
		b1, b2 := s.b[start+1], s.b[start+2]
		lo := Ite(Eq(b0, BVu(0xE0, 8)), BVu(0xA0, 8), BVu(0x80, 8))
		hi := Ite(Eq(b0, BVu(0xED, 8)), BVu(0x9F, 8), BVu(0xBF, 8))
		if !r.branch(And(And(ULe(lo, b1), ULe(b1, hi)), cont(b2))) {
			return bad()
		}
		it.pos = start + 3
		rv := BOr(BOr(Shl(BAnd(z32(b0), BVu(0x0F, 32)), BVu(12, 32)), Shl(BAnd(z32(b1), BVu(0x3F, 32)), BVu(6, 32))), BAnd(z32(b2), BVu(0x3F, 32)))
		return TupleV{True, BVi(int64(start), 64), rv}
	}
	// 4-byte
	if r.branch(And(ULe(BVu(0xF0, 8), b0), ULe(b0, BVu(0xF4, 8)))) {
		if rem < 4 {
			return bad()
		}
		b1, b2, b3 := s.b[start+1], s.b[start+2], s.b[start+3]
		lo := Ite(Eq(b0, BVu(0xF0, 8)), BVu(0x90, 8), BVu(0x80, 8))
		hi := Ite(Eq(b0, BVu(0xF4, 8)), BVu(0x8F, 8), BVu(0xBF, 8))
		if !r.branch(And(And(And(ULe(lo, b1), ULe(b1, hi)), cont(b2)), cont(b3))) {
			return bad()
		}
		it.pos = start + 4
		rv := BOr(BOr(Shl(BAnd(z32(b0), BVu(0x07, 32)), BVu(18, 32)), Shl(BAnd(z32(b1), BVu(0x3F, 32)), BVu(12, 32))),
			BOr(Shl(BAnd(z32(b2), BVu(0x3F, 32)), BVu(6, 32)), BAnd(z32(b3), BVu(0x3F, 32))))
		return TupleV{True, BVi(int64(start), 64), rv}
	}
	return bad()
}

var _ = fmt.Sprintf
