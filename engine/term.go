package main

// Hash-consed SMT term DAG with construction-time simplification.
// Sort: w==0 -> Bool, w>0 -> (_ BitVec w).
// The store is global and safe for concurrent use (sharded); terms are immutable.

import (
	"fmt"
	"math/big"
	"math/bits"
	"strings"
	"sync"
	"sync/atomic"
)

type Op uint8

const (
	OpConst Op = iota
	OpVar
	OpNot
	OpAnd
	OpOr
	OpEq
	OpIte
	OpAdd
	OpSub
	OpMul
	OpUDiv
	OpURem
	OpSDiv
	OpSRem
	OpBAnd
	OpBOr
	OpBXor
	OpBNot
	OpNeg
	OpShl
	OpLShr
	OpAShr
	OpULt
	OpULe
	OpSLt
	OpSLe
	OpExtract
	OpConcat
	OpZExt
	OpSExt
	OpUF
)

var opNames = [...]string{OpNot: "not", OpAnd: "and", OpOr: "or", OpEq: "=", OpIte: "ite", OpAdd: "bvadd", OpSub: "bvsub", OpMul: "bvmul",
	OpUDiv: "bvudiv", OpURem: "bvurem", OpSDiv: "bvsdiv", OpSRem: "bvsrem", OpBAnd: "bvand", OpBOr: "bvor", OpBXor: "bvxor", OpBNot: "bvnot", OpNeg: "bvneg",
	OpShl: "bvshl", OpLShr: "bvlshr", OpAShr: "bvashr", OpULt: "bvult", OpULe: "bvule", OpSLt: "bvslt", OpSLe: "bvsle", OpConcat: "concat", OpUF: "uf"}

type Term struct {
	id   int32
	op   Op
	w    int // 0 = Bool
	args []*Term
	u    uint64   // const value when w <= 64 (Bool: 0/1)
	bigv *big.Int // const value when w > 64
	name string   // var / uf name
	hi   int      // extract hi / ext amount
	lo   int
	ew   int // effective width (see effWidth)
}

type tkey struct {
	op         Op
	w, hi, lo  int32
	name       string
	u          uint64
	a0, a1, a2 int32
	ext        string
}

const nShards = 256

type shard struct {
	mu  sync.Mutex
	tab map[tkey]*Term
}

type TermStore struct {
	shards [nShards]shard
	next   int32
}

var TS = newTermStore()

func newTermStore() *TermStore {
	ts := &TermStore{}
	for i := range ts.shards {
		ts.shards[i].tab = map[tkey]*Term{}
	}
	return ts
}

func (ts *TermStore) Count() int { return int(atomic.LoadInt32(&ts.next)) }

func (ts *TermStore) mk(t *Term) *Term {
	k := tkey{op: t.op, w: int32(t.w), hi: int32(t.hi), lo: int32(t.lo), name: t.name, u: t.u, a0: -1, a1: -1, a2: -1}
	if t.bigv != nil {
		k.ext = t.bigv.Text(16)
	}
	switch len(t.args) {
	case 0:
	case 1:
		k.a0 = t.args[0].id
	case 2:
		k.a0, k.a1 = t.args[0].id, t.args[1].id
	case 3:
		k.a0, k.a1, k.a2 = t.args[0].id, t.args[1].id, t.args[2].id
	default:
		var sb strings.Builder
		for _, a := range t.args {
			fmt.Fprintf(&sb, ",%d", a.id)
		}
		k.ext = sb.String()
	}
	h := uint64(k.op)*0x9e3779b97f4a7c15 ^ uint64(uint32(k.a0))*0xbf58476d1ce4e5b9 ^ uint64(uint32(k.a1))*0x94d049bb133111eb ^ k.u*0xff51afd7ed558ccd ^ uint64(k.hi)<<7 ^ uint64(len(k.name))<<3 ^ uint64(k.w)
	h ^= h >> 29
	sh := &ts.shards[h%nShards]
	sh.mu.Lock()
	if e, ok := sh.tab[k]; ok {
		sh.mu.Unlock()
		return e
	}
	t.id = atomic.AddInt32(&ts.next, 1) - 1
	t.ew = computeEffWidth(t)
	sh.tab[k] = t
	sh.mu.Unlock()
	return t
}

func maskBig(w int) *big.Int {
	m := new(big.Int).Lsh(big.NewInt(1), uint(w))
	return m.Sub(m, big.NewInt(1))
}

func mask64(w int) uint64 {
	if w >= 64 {
		return ^uint64(0)
	}
	return (uint64(1) << uint(w)) - 1
}

// BV builds a constant from a (possibly negative) big integer, wrapped to w bits.
func BV(v *big.Int, w int) *Term {
	if w == 0 {
		return Bool(v.Sign() != 0)
	}
	r := new(big.Int).And(v, maskBig(w)) // And with negative uses two's complement semantics
	if w <= 64 {
		return TS.mk(&Term{op: OpConst, w: w, u: r.Uint64()})
	}
	return TS.mk(&Term{op: OpConst, w: w, bigv: r})
}
func BVu(v uint64, w int) *Term {
	if w <= 64 {
		return TS.mk(&Term{op: OpConst, w: w, u: v & mask64(w)})
	}
	return TS.mk(&Term{op: OpConst, w: w, bigv: new(big.Int).SetUint64(v)})
}
func BVi(v int64, w int) *Term {
	if w <= 64 {
		return TS.mk(&Term{op: OpConst, w: w, u: uint64(v) & mask64(w)})
	}
	return BV(big.NewInt(v), w)
}
func Bool(b bool) *Term {
	if b {
		return True
	}
	return False
}

var True, False = TS.mk(&Term{op: OpConst, w: 0, u: 1}), TS.mk(&Term{op: OpConst, w: 0, u: 0})

func Var(name string, w int) *Term { return TS.mk(&Term{op: OpVar, w: w, name: name}) }

func (t *Term) IsConst() bool { return t.op == OpConst }
func (t *Term) IsTrue() bool  { return t == True }
func (t *Term) IsFalse() bool { return t == False }

// Big returns the unsigned value of a constant.
func (t *Term) Big() *big.Int {
	if t.bigv != nil {
		return t.bigv
	}
	return new(big.Int).SetUint64(t.u)
}
func (t *Term) Uint() uint64 {
	if t.bigv != nil {
		return t.bigv.Uint64()
	}
	return t.u
}
func (t *Term) isZero() bool {
	if t.op != OpConst {
		return false
	}
	if t.bigv != nil {
		return t.bigv.Sign() == 0
	}
	return t.u == 0
}
func (t *Term) isOnes() bool {
	if t.op != OpConst || t.w == 0 {
		return false
	}
	if t.bigv != nil {
		return t.bigv.Cmp(maskBig(t.w)) == 0
	}
	return t.u == mask64(t.w)
}
func (t *Term) isOne() bool {
	if t.op != OpConst {
		return false
	}
	if t.bigv != nil {
		return t.bigv.Cmp(big.NewInt(1)) == 0
	}
	return t.u == 1
}
func (t *Term) Signed() *big.Int {
	v := t.Big()
	if t.w > 0 && v.Bit(t.w-1) == 1 {
		return new(big.Int).Sub(v, new(big.Int).Lsh(big.NewInt(1), uint(t.w)))
	}
	return new(big.Int).Set(v)
}

// Int returns the signed value of a constant of width <= 64 (wider: low 64 bits of the signed value).
func (t *Term) Int() int64 {
	if t.bigv != nil {
		return t.Signed().Int64()
	}
	if t.w == 0 || t.w == 64 {
		return int64(t.u)
	}
	sh := uint(64 - t.w)
	return int64(t.u<<sh) >> sh
}

func Not(a *Term) *Term {
	if a.IsConst() {
		return Bool(a.u == 0)
	}
	if a.op == OpNot {
		return a.args[0]
	}
	return TS.mk(&Term{op: OpNot, args: []*Term{a}})
}
func And(a, b *Term) *Term {
	if a.IsFalse() || b.IsFalse() {
		return False
	}
	if a.IsTrue() {
		return b
	}
	if b.IsTrue() {
		return a
	}
	if a == b {
		return a
	}
	if (a.op == OpNot && a.args[0] == b) || (b.op == OpNot && b.args[0] == a) {
		return False
	}
	return TS.mk(&Term{op: OpAnd, args: []*Term{a, b}})
}
func Or(a, b *Term) *Term {
	if a.IsTrue() || b.IsTrue() {
		return True
	}
	if a.IsFalse() {
		return b
	}
	if b.IsFalse() {
		return a
	}
	if a == b {
		return a
	}
	if (a.op == OpNot && a.args[0] == b) || (b.op == OpNot && b.args[0] == a) {
		return True
	}
	return TS.mk(&Term{op: OpOr, args: []*Term{a, b}})
}
func constEq(a, b *Term) bool {
	if a.bigv != nil || b.bigv != nil {
		return a.Big().Cmp(b.Big()) == 0
	}
	return a.u == b.u
}
func Eq(a, b *Term) *Term {
	if a.w != b.w {
		panic(fmt.Sprintf("Eq width mismatch %d %d", a.w, b.w))
	}
	if a == b {
		return True
	}
	if a.IsConst() && b.IsConst() {
		return Bool(constEq(a, b))
	}
	if a.w == 0 {
		if a.IsTrue() {
			return b
		}
		if b.IsTrue() {
			return a
		}
		if a.IsFalse() {
			return Not(b)
		}
		if b.IsFalse() {
			return Not(a)
		}
	}
	if a.w > 1 {
		ea, eb := effWidth(a), effWidth(b)
		k := ea
		if eb > k {
			k = eb
		}
		if k <= a.w/2 {
			return Eq(narrow(a, k), narrow(b, k))
		}
	}
	// ite(c, k1, k2) == k  with constants folds to a condition on c
	if a.op == OpIte && b.IsConst() {
		a, b = b, a
	}
	if b.op == OpIte && a.IsConst() && b.args[1].IsConst() && b.args[2].IsConst() {
		e1, e2 := constEq(a, b.args[1]), constEq(a, b.args[2])
		switch {
		case e1 && e2:
			return True
		case e1:
			return b.args[0]
		case e2:
			return Not(b.args[0])
		default:
			return False
		}
	}
	if a.id > b.id {
		a, b = b, a
	}
	return TS.mk(&Term{op: OpEq, args: []*Term{a, b}})
}
func Ite(c, a, b *Term) *Term {
	if c.IsTrue() {
		return a
	}
	if c.IsFalse() {
		return b
	}
	if a == b {
		return a
	}
	if a.w == 0 {
		if a.IsTrue() && b.IsFalse() {
			return c
		}
		if a.IsFalse() && b.IsTrue() {
			return Not(c)
		}
		if a.IsTrue() {
			return Or(c, b)
		}
		if b.IsFalse() {
			return And(c, a)
		}
	}
	if c.op == OpNot {
		return Ite(c.args[0], b, a)
	}
	return TS.mk(&Term{op: OpIte, w: a.w, args: []*Term{c, a, b}})
}

func binFoldBig(op Op, a, b *Term) *big.Int {
	w := a.w
	x, y := a.Big(), b.Big()
	r := new(big.Int)
	switch op {
	case OpAdd:
		r.Add(x, y)
	case OpSub:
		r.Sub(x, y)
	case OpMul:
		r.Mul(x, y)
	case OpBAnd:
		r.And(x, y)
	case OpBOr:
		r.Or(x, y)
	case OpBXor:
		r.Xor(x, y)
	case OpUDiv:
		if y.Sign() == 0 {
			return maskBig(w)
		}
		r.Quo(x, y)
	case OpURem:
		if y.Sign() == 0 {
			return x
		}
		r.Rem(x, y)
	case OpSDiv:
		sy := b.Signed()
		if sy.Sign() == 0 {
			if a.Signed().Sign() < 0 {
				return big.NewInt(1)
			}
			return maskBig(w)
		}
		r.Quo(a.Signed(), sy)
	case OpSRem:
		sy := b.Signed()
		if sy.Sign() == 0 {
			return x
		}
		r.Rem(a.Signed(), sy)
	case OpShl:
		if y.Cmp(big.NewInt(int64(w))) >= 0 {
			return big.NewInt(0)
		}
		r.Lsh(x, uint(y.Uint64()))
	case OpLShr:
		if y.Cmp(big.NewInt(int64(w))) >= 0 {
			return big.NewInt(0)
		}
		r.Rsh(x, uint(y.Uint64()))
	case OpAShr:
		sx := a.Signed()
		sh := uint(w)
		if y.Cmp(big.NewInt(int64(w))) < 0 {
			sh = uint(y.Uint64())
		}
		r.Rsh(sx, sh)
	}
	return r
}

// fast constant folding for widths <= 64; ok=false => use the big path
func binFold64(op Op, w int, x, y uint64) (uint64, bool) {
	switch op {
	case OpAdd:
		return x + y, true
	case OpSub:
		return x - y, true
	case OpMul:
		return x * y, true
	case OpBAnd:
		return x & y, true
	case OpBOr:
		return x | y, true
	case OpBXor:
		return x ^ y, true
	case OpUDiv:
		if y == 0 {
			return mask64(w), true
		}
		return x / y, true
	case OpURem:
		if y == 0 {
			return x, true
		}
		return x % y, true
	case OpShl:
		if y >= uint64(w) {
			return 0, true
		}
		return x << y, true
	case OpLShr:
		if y >= uint64(w) {
			return 0, true
		}
		return x >> y, true
	}
	return 0, false
}

func bin(op Op, a, b *Term) *Term {
	if a.w != b.w || a.w == 0 {
		panic(fmt.Sprintf("bin %v width mismatch %d %d", opNames[op], a.w, b.w))
	}
	if a.IsConst() && b.IsConst() {
		if a.w <= 64 {
			if v, ok := binFold64(op, a.w, a.u, b.u); ok {
				return BVu(v, a.w)
			}
		}
		return BV(binFoldBig(op, a, b), a.w)
	}
	switch op {
	case OpAdd:
		if a.isZero() {
			return b
		}
		if b.isZero() {
			return a
		}
	case OpSub:
		if b.isZero() {
			return a
		}
		if a == b {
			return BVu(0, a.w)
		}
	case OpMul:
		if a.isZero() || b.isZero() {
			return BVu(0, a.w)
		}
		if a.isOne() {
			return b
		}
		if b.isOne() {
			return a
		}
	case OpBAnd:
		if a.isZero() || b.isZero() {
			return BVu(0, a.w)
		}
		if a.isOnes() {
			return b
		}
		if b.isOnes() {
			return a
		}
		if a == b {
			return a
		}
	case OpBOr:
		if a.isZero() {
			return b
		}
		if b.isZero() {
			return a
		}
		if a == b {
			return a
		}
		if a.isOnes() {
			return a
		}
		if b.isOnes() {
			return b
		}
	case OpBXor:
		if a.isZero() {
			return b
		}
		if b.isZero() {
			return a
		}
		if a == b {
			return BVu(0, a.w)
		}
	case OpShl, OpLShr, OpAShr:
		if b.isZero() {
			return a
		}
		if a.isZero() {
			return a
		}
		if b.IsConst() && a.w <= 64 && b.u < uint64(a.w) {
			// constant shifts become extract/concat so that byte-level code stays byte-level
			k := int(b.u)
			switch op {
			case OpShl:
				return Concat(Extract(a, a.w-1-k, 0), BVu(0, k))
			case OpLShr:
				return ZExt(Extract(a, a.w-1, k), a.w)
			}
		}
	case OpUDiv, OpSDiv:
		if b.isOne() {
			return a
		}
	}
	// commutative normalisation
	switch op {
	case OpAdd, OpMul, OpBAnd, OpBOr, OpBXor:
		if a.id > b.id {
			a, b = b, a
		}
	}
	return TS.mk(&Term{op: op, w: a.w, args: []*Term{a, b}})
}

func Add(a, b *Term) *Term {
	if !a.IsConst() || !b.IsConst() {
		ea, eb := effWidth(a), effWidth(b)
		k := ea
		if eb > k {
			k = eb
		}
		k++
		if k <= a.w/2 {
			return ZExt(bin(OpAdd, narrow(a, k), narrow(b, k)), a.w)
		}
	}
	return bin(OpAdd, a, b)
}
func Sub(a, b *Term) *Term  { return bin(OpSub, a, b) }
func Mul(a, b *Term) *Term  { return bin(OpMul, a, b) }
func UDiv(a, b *Term) *Term { return bin(OpUDiv, a, b) }
func URem(a, b *Term) *Term { return bin(OpURem, a, b) }
func SDiv(a, b *Term) *Term { return bin(OpSDiv, a, b) }
func SRem(a, b *Term) *Term { return bin(OpSRem, a, b) }
func BAnd(a, b *Term) *Term {
	if a.IsConst() != b.IsConst() && a.w <= 64 {
		// and with a low mask 0..01..1 is a zero-extended extract
		c, x := a, b
		if b.IsConst() {
			c, x = b, a
		}
		if c.u != 0 && c.u&(c.u+1) == 0 && c.u != mask64(a.w) {
			k := bits.Len64(c.u)
			return ZExt(Extract(x, k-1, 0), a.w)
		}
	}
	return bin(OpBAnd, a, b)
}
func BOr(a, b *Term) *Term  { return bin(OpBOr, a, b) }
func BXor(a, b *Term) *Term { return bin(OpBXor, a, b) }
func Shl(a, b *Term) *Term  { return bin(OpShl, a, b) }
func LShr(a, b *Term) *Term { return bin(OpLShr, a, b) }
func AShr(a, b *Term) *Term { return bin(OpAShr, a, b) }
func BNot(a *Term) *Term {
	if a.IsConst() {
		if a.w <= 64 {
			return BVu(^a.u, a.w)
		}
		return BV(new(big.Int).Xor(a.Big(), maskBig(a.w)), a.w)
	}
	if a.op == OpBNot {
		return a.args[0]
	}
	return TS.mk(&Term{op: OpBNot, w: a.w, args: []*Term{a}})
}
func Neg(a *Term) *Term { return Sub(BVu(0, a.w), a) }

func cmp(op Op, a, b *Term) *Term {
	if a.w != b.w || a.w == 0 {
		panic(fmt.Sprintf("cmp width mismatch %d %d", a.w, b.w))
	}
	if a.IsConst() && b.IsConst() {
		var c int
		if op == OpULt || op == OpULe {
			c = a.Big().Cmp(b.Big())
		} else {
			c = a.Signed().Cmp(b.Signed())
		}
		if op == OpULt || op == OpSLt {
			return Bool(c < 0)
		}
		return Bool(c <= 0)
	}
	if a == b {
		return Bool(op == OpULe || op == OpSLe)
	}
	{
		ea, eb := effWidth(a), effWidth(b)
		k := ea
		if eb > k {
			k = eb
		}
		if k < a.w/2 { // both are small non-negative numbers: compare unsigned in the narrow width
			nop := op
			if op == OpSLt {
				nop = OpULt
			} else if op == OpSLe {
				nop = OpULe
			}
			return cmp(nop, narrow(a, k), narrow(b, k))
		}
	}
	if op == OpULt && b.isZero() {
		return False
	}
	if op == OpULe && a.isZero() {
		return True
	}
	if op == OpULe && b.isOnes() {
		return True
	}
	if op == OpULt && a.isOnes() {
		return False
	}
	return TS.mk(&Term{op: op, args: []*Term{a, b}})
}
func ULt(a, b *Term) *Term { return cmp(OpULt, a, b) }
func ULe(a, b *Term) *Term { return cmp(OpULe, a, b) }
func SLt(a, b *Term) *Term { return cmp(OpSLt, a, b) }
func SLe(a, b *Term) *Term { return cmp(OpSLe, a, b) }

func Extract(a *Term, hi, lo int) *Term {
	if hi < lo || hi >= a.w || lo < 0 {
		panic(fmt.Sprintf("bad extract %d %d of w%d", hi, lo, a.w))
	}
	if lo == 0 && hi == a.w-1 {
		return a
	}
	w := hi - lo + 1
	if a.IsConst() {
		if a.bigv == nil {
			return BVu(a.u>>uint(lo), w)
		}
		return BV(new(big.Int).Rsh(a.bigv, uint(lo)), w)
	}
	switch a.op {
	case OpExtract:
		return Extract(a.args[0], a.lo+hi, a.lo+lo)
	case OpConcat:
		// args[0] is high part
		lw := a.args[1].w
		if hi < lw {
			return Extract(a.args[1], hi, lo)
		}
		if lo >= lw {
			return Extract(a.args[0], hi-lw, lo-lw)
		}
		return Concat(Extract(a.args[0], hi-lw, 0), Extract(a.args[1], lw-1, lo))
	case OpZExt:
		iw := a.args[0].w
		if hi < iw {
			return Extract(a.args[0], hi, lo)
		}
		if lo >= iw {
			return BVu(0, w)
		}
		return ZExt(Extract(a.args[0], iw-1, lo), w)
	case OpSExt:
		iw := a.args[0].w
		if hi < iw {
			return Extract(a.args[0], hi, lo)
		}
	case OpBAnd, OpBOr, OpBXor:
		if w <= 8 || a.args[0].IsConst() || a.args[1].IsConst() { // push extraction through bitwise ops for byte-level code
			return bin(a.op, Extract(a.args[0], hi, lo), Extract(a.args[1], hi, lo))
		}
	case OpBNot:
		return BNot(Extract(a.args[0], hi, lo))
	case OpIte:
		if a.args[1].IsConst() || a.args[2].IsConst() {
			return Ite(a.args[0], Extract(a.args[1], hi, lo), Extract(a.args[2], hi, lo))
		}
	case OpAdd, OpSub, OpMul:
		if lo == 0 { // low bits of +,-,* depend only on low bits of the operands
			return bin(a.op, Extract(a.args[0], hi, 0), Extract(a.args[1], hi, 0))
		}
	}
	return TS.mk(&Term{op: OpExtract, w: w, args: []*Term{a}, hi: hi, lo: lo})
}

// Concat(hi, lo)
func Concat(h, l *Term) *Term {
	if h.IsConst() && l.IsConst() {
		if h.w+l.w <= 64 {
			return BVu(h.u<<uint(l.w)|l.u, h.w+l.w)
		}
		v := new(big.Int).Lsh(h.Big(), uint(l.w))
		v.Or(v, l.Big())
		return BV(v, h.w+l.w)
	}
	// concat(extract(x,a,b), extract(x,b-1,c)) = extract(x,a,c)
	if h.op == OpExtract && l.op == OpExtract && h.args[0] == l.args[0] && h.lo == l.hi+1 {
		return Extract(h.args[0], h.hi, l.lo)
	}
	// concat(extract(x,a,b), concat(extract(x,b-1,c), r)) = concat(extract(x,a,c), r)
	if h.op == OpExtract && l.op == OpConcat && l.args[0].op == OpExtract && l.args[0].args[0] == h.args[0] && h.lo == l.args[0].hi+1 {
		return Concat(Extract(h.args[0], h.hi, l.args[0].lo), l.args[1])
	}
	if h.isZero() {
		return ZExt(l, h.w+l.w)
	}
	if h.op == OpZExt && false {
		return ZExt(Concat(h.args[0], l), h.w+l.w)
	}
	return TS.mk(&Term{op: OpConcat, w: h.w + l.w, args: []*Term{h, l}})
}

func ZExt(a *Term, w int) *Term {
	if w == a.w {
		return a
	}
	if w < a.w {
		return Extract(a, w-1, 0)
	}
	if a.IsConst() {
		if w <= 64 {
			return BVu(a.u, w)
		}
		return BV(a.Big(), w)
	}
	if a.op == OpZExt {
		return ZExt(a.args[0], w)
	}
	return TS.mk(&Term{op: OpZExt, w: w, args: []*Term{a}, hi: w - a.w})
}
func SExt(a *Term, w int) *Term {
	if w == a.w {
		return a
	}
	if w < a.w {
		return Extract(a, w-1, 0)
	}
	if a.IsConst() {
		if w <= 64 {
			return BVi(a.Int(), w)
		}
		return BV(a.Signed(), w)
	}
	if a.op == OpZExt { // sign bit is known zero
		return ZExt(a.args[0], w)
	}
	return TS.mk(&Term{op: OpSExt, w: w, args: []*Term{a}, hi: w - a.w})
}

// UF application; w = result width (0 = Bool)
func UF(name string, w int, args ...*Term) *Term {
	return TS.mk(&Term{op: OpUF, w: w, name: name, args: args})
}

func BoolToBV(c *Term, w int) *Term { return Ite(c, BVu(1, w), BVu(0, w)) }

func sortStr(w int) string {
	if w == 0 {
		return "Bool"
	}
	return fmt.Sprintf("(_ BitVec %d)", w)
}

func constStr(t *Term) string {
	if t.w == 0 {
		if t.u != 0 {
			return "true"
		}
		return "false"
	}
	v := t.Big()
	if t.w%4 == 0 {
		s := v.Text(16)
		return "#x" + strings.Repeat("0", t.w/4-len(s)) + s
	}
	s := v.Text(2)
	return "#b" + strings.Repeat("0", t.w-len(s)) + s
}

func (t *Term) String() string {
	if t.IsConst() {
		return constStr(t)
	}
	if t.op == OpVar {
		return t.name
	}
	return fmt.Sprintf("t%d", t.id)
}

// effWidth: smallest k (conservatively) such that t == zero_extend(extract(t,k-1,0)).
func effWidth(t *Term) int { return t.ew }

func computeEffWidth(t *Term) int {
	if t.w == 0 {
		return 0
	}
	switch t.op {
	case OpConst:
		n := t.Big().BitLen()
		if n == 0 {
			n = 1
		}
		return n
	case OpZExt:
		return t.args[0].ew
	case OpBAnd:
		a, b := t.args[0].ew, t.args[1].ew
		if a < b {
			return a
		}
		return b
	case OpBOr, OpBXor:
		a, b := t.args[0].ew, t.args[1].ew
		if a > b {
			return a
		}
		return b
	case OpAdd:
		a, b := t.args[0].ew, t.args[1].ew
		if a < b {
			a = b
		}
		if a+1 < t.w {
			return a + 1
		}
	case OpIte:
		a, b := t.args[1].ew, t.args[2].ew
		if a > b {
			return a
		}
		return b
	case OpLShr:
		if t.args[1].IsConst() && t.args[1].w <= 64 {
			e := t.args[0].ew - int(t.args[1].u)
			if e < 1 {
				e = 1
			}
			return e
		}
		return t.args[0].ew
	case OpShl:
		if t.args[1].IsConst() && t.args[1].w <= 64 {
			e := t.args[0].ew + int(t.args[1].u)
			if e < t.w {
				return e
			}
		}
	case OpConcat:
		if t.args[0].isZero() {
			return t.args[1].ew
		}
	case OpURem:
		if t.args[1].IsConst() && !t.args[1].isZero() {
			return t.args[1].ew
		}
	case OpUDiv:
		return t.args[0].ew
	}
	return t.w
}

func narrow(t *Term, k int) *Term { return Extract(t, k-1, 0) }

// evalTerm evaluates a term under a total assignment of its variables (used by concrete replay).
func evalConst(t *Term) (*big.Int, bool) {
	if t.IsConst() {
		return t.Big(), true
	}
	return nil, false
}
