package main

import (
	"fmt"
	"go/token"
	"go/types"

	"golang.org/x/tools/go/ssa"
)

// Uninterpreted cryptography.
//
//   hash / HMAC objects      H_alg_n(data), HMAC_alg_k_n(key, data)      one UF per algorithm and operand lengths
//   block ciphers            E_alg_k(key, block), D_alg_k(key, block)    with the instantiated axioms D(k,E(k,x))=x, E(k,D(k,x))=x
//   CBC mode                 real xor chaining over E / D (cipher.NewCBCEncrypter/Decrypter + CryptBlocks)
//   rc4                      dst = src xor RC4KS_k_n(key)
//   pbkdf2                   PBKDF2_alg_len_p_s(password, salt, iter)
//   n-fold (stub set nfolduf)NFOLD_n_m(data)
//
// The same symbols are used by the specification-side primitives of package zzverif, so that
// "code = RFC reference" is decided for every interpretation of the primitives.

type HashObj struct {
	alg  string
	key  []*Term // nil => unkeyed
	data []*Term
}

type BlockObj struct {
	alg string
	key []*Term
}

type CBCObj struct {
	blk  *BlockObj
	enc  bool
	prev []*Term
}

type RC4Obj struct {
	key []*Term
	pos int
}

var digestSize = map[string]int{"md4": 16, "md5": 16, "sha1": 20, "sha256": 32, "sha384": 48}
var hashBlockSize = map[string]int{"md4": 64, "md5": 64, "sha1": 64, "sha256": 64, "sha384": 128}
var cipherBlockSize = map[string]int{"aes": 16, "des3": 8}

var fakePkg = types.NewPackage("gosym", "gosym")

func fakeNamed(name string) *types.Named {
	return types.NewNamed(types.NewTypeName(token.NoPos, fakePkg, name, nil), types.NewStruct(nil, nil), nil)
}

var hashType, blockType, cbcType, rc4Type = fakeNamed("Hash"), fakeNamed("Block"), fakeNamed("CBC"), fakeNamed("RC4")
var runtimeErrType = fakeNamed("RuntimeError")

func catBytes(bs []*Term) *Term {
	if len(bs) == 0 {
		return nil
	}
	t := bs[0]
	for _, b := range bs[1:] {
		t = Concat(t, b)
	}
	return t
}

func splitBytes(t *Term) []*Term {
	n := t.w / 8
	out := make([]*Term, n)
	for i := 0; i < n; i++ {
		out[i] = Extract(t, t.w-1-8*i, t.w-8-8*i)
	}
	return out
}

// ufBytes applies an uninterpreted function named after operand lengths to byte-vector operands.
func ufBytes(name string, outBytes int, operands ...[]*Term) []*Term {
	var args []*Term
	for _, o := range operands {
		name += fmt.Sprintf("_%d", len(o))
		if len(o) > 0 {
			args = append(args, catBytes(o))
		}
	}
	return splitBytes(UF(name, outBytes*8, args...))
}

func sliceBytes(s *SliceV) []*Term {
	out := make([]*Term, s.len)
	if s.len == 0 {
		return out
	}
	el := elemsOf(s)
	for i := range out {
		out[i] = el[s.off+i].(*Term)
	}
	return out
}

func (r *Run) bytesToSlice(bs []*Term) *SliceV {
	s := r.makeSlice(types.Typ[types.Uint8], len(bs), len(bs))
	el := elemsOf(s)
	for i, b := range bs {
		el[i] = b
	}
	return s
}

func setBytes(s *SliceV, bs []*Term) {
	el := elemsOf(s)
	for i, b := range bs {
		el[s.off+i] = b
	}
}

func algOfFunc(v Value) string {
	fv := v.(*FuncV)
	n := ""
	if fv.fn != nil {
		n = fv.fn.String()
	} else {
		n = fv.ext
	}
	switch n {
	case "crypto/md5.New":
		return "md5"
	case "crypto/sha1.New":
		return "sha1"
	case "crypto/sha256.New":
		return "sha256"
	case "crypto/sha512.New384":
		return "sha384"
	case "golang.org/x/crypto/md4.New":
		return "md4"
	}
	endPath("engine", "unknown hash constructor %s", n)
	return ""
}

func (r *Run) errNew(fr *Frame, msg string) Value {
	en := r.eng.prog.ImportedPackage("errors").Func("New")
	return r.callFn(fr, en, []Value{concStr(msg)}, lbl("errors.New"))
}

func (r *Run) hmacBytes(alg string, key, data []*Term) []*Term {
	d := ufBytes("HMAC_"+alg, digestSize[alg], key, data)
	r.macAxioms("HMAC_"+alg, alg, append(append([]*Term{}, key...), data...), len(key), d)
	return d
}

func (r *Run) hashBytes(alg string, data []*Term) []*Term {
	d := ufBytes("H_"+alg, digestSize[alg], data)
	r.macAxioms("H_"+alg, alg, data, 0, d)
	return d
}

// blockApply: E/D of one block with the bijection axiom instantiated on this application.
func (r *Run) blockApply(alg string, enc bool, key, block []*Term) []*Term {
	e, d := "E_"+alg, "D_"+alg
	if !enc {
		e, d = d, e
	}
	bs := cipherBlockSize[alg]
	out := ufBytes(e, bs, key, block)
	back := ufBytes(d, bs, key, out)
	r.addPC(Eq(catBytes(back), catBytes(block)))
	if enc && r.inst.stubSet["idealmac"] {
		// idealised cipher: encryptions under different (effective) keys or of different blocks differ
		kk := key
		if alg == "des3" { // DES ignores the parity bit of every key byte
			kk = make([]*Term, len(key))
			for i, b := range key {
				kk[i] = Extract(b, 7, 1)
			}
		}
		r.injective("E_"+alg, append(append([]*Term{}, kk...), block...), out)
	}
	return out
}

type injApp struct {
	fam  string
	args []*Term
	out  []*Term
}

// injective (idealised model only): two applications of the same symbol with operands of the same
// length give equal results only for equal operands.
func (r *Run) injective(fam string, args, out []*Term) {
	ca, co := catBytesAny(args), catBytes(out)
	for _, o := range r.injApps {
		if o.fam != fam || len(o.args) != len(args) {
			continue
		}
		oa, oo := catBytesAny(o.args), catBytes(o.out)
		if oo == co || oa.w != ca.w {
			continue
		}
		r.addPC(Or(Not(Eq(oo, co)), Eq(oa, ca)))
	}
	r.injApps = append(r.injApps, injApp{fam, args, out})
}

// catBytesAny concatenates terms of arbitrary widths.
func catBytesAny(ts []*Term) *Term {
	t := ts[0]
	for _, b := range ts[1:] {
		t = Concat(t, b)
	}
	return t
}

func xorBytes(a, b []*Term) []*Term {
	out := make([]*Term, len(a))
	for i := range a {
		out[i] = BXor(a[i], b[i])
	}
	return out
}

func (e *Engine) registerCrypto() {
	in := e.intrinsics
	for fn, alg := range map[string]string{"crypto/md5.New": "md5", "crypto/sha1.New": "sha1", "crypto/sha256.New": "sha256", "crypto/sha512.New384": "sha384", "golang.org/x/crypto/md4.New": "md4"} {
		alg := alg
		in[fn] = func(r *Run, fr *Frame, cc *ssa.CallCommon, a []Value) Value {
			return &IfaceV{t: hashType, v: &HashObj{alg: alg}}
		}
	}
	in["crypto/hmac.New"] = func(r *Run, fr *Frame, cc *ssa.CallCommon, a []Value) Value {
		return &IfaceV{t: hashType, v: &HashObj{alg: algOfFunc(a[0]), key: append([]*Term{}, sliceBytes(a[1].(*SliceV))...)}}
	}
	in["gosym.Hash.Write"] = func(r *Run, fr *Frame, cc *ssa.CallCommon, a []Value) Value {
		h := a[0].(*HashObj)
		p := a[1].(*SliceV)
		h.data = append(h.data, sliceBytes(p)...)
		return TupleV{BVi(int64(p.len), 64), &IfaceV{}}
	}
	in["gosym.Hash.Sum"] = func(r *Run, fr *Frame, cc *ssa.CallCommon, a []Value) Value {
		h := a[0].(*HashObj)
		pre := a[1].(*SliceV)
		var d []*Term
		if h.key != nil {
			d = r.hmacBytes(h.alg, h.key, h.data)
		} else {
			d = r.hashBytes(h.alg, h.data)
		}
		var out []*Term
		if pre.arr != nil {
			out = append(out, sliceBytes(pre)...)
		}
		out = append(out, d...)
		return r.bytesToSlice(out)
	}
	in["gosym.Hash.Size"] = func(r *Run, fr *Frame, cc *ssa.CallCommon, a []Value) Value {
		return BVi(int64(digestSize[a[0].(*HashObj).alg]), 64)
	}
	in["gosym.Hash.BlockSize"] = func(r *Run, fr *Frame, cc *ssa.CallCommon, a []Value) Value {
		return BVi(int64(hashBlockSize[a[0].(*HashObj).alg]), 64)
	}
	in["gosym.Hash.Reset"] = func(r *Run, fr *Frame, cc *ssa.CallCommon, a []Value) Value {
		a[0].(*HashObj).data = nil
		return TupleV{}
	}
	in["crypto/rand.Read"] = func(r *Run, fr *Frame, cc *ssa.CallCommon, a []Value) Value {
		s := a[0].(*SliceV)
		for i := 0; i < s.len; i++ {
			t := r.input(8)
			elemsOf(s)[s.off+i] = t
			r.randLog = append(r.randLog, t)
		}
		return TupleV{BVi(int64(s.len), 64), &IfaceV{}}
	}
	in["(*crypto/rand.reader).Read"] = func(r *Run, fr *Frame, cc *ssa.CallCommon, a []Value) Value {
		return in["crypto/rand.Read"](r, fr, cc, a[1:])
	}
	in[rtPkg+".RandLog"] = func(r *Run, fr *Frame, cc *ssa.CallCommon, a []Value) Value {
		s := r.bytesToSlice(r.randLog)
		r.randLog = nil
		return s
	}

	// ---- block ciphers and CBC ---------------------------------------------------------------
	newBlock := func(alg string, okLens ...int) intrinsic {
		return func(r *Run, fr *Frame, cc *ssa.CallCommon, a []Value) Value {
			key := sliceBytes(a[0].(*SliceV))
			ok := false
			for _, l := range okLens {
				if len(key) == l {
					ok = true
				}
			}
			if !ok {
				return TupleV{&IfaceV{}, r.errNew(fr, "crypto/"+alg+": invalid key size")}
			}
			return TupleV{&IfaceV{t: blockType, v: &BlockObj{alg: alg, key: append([]*Term{}, key...)}}, &IfaceV{}}
		}
	}
	in["crypto/aes.NewCipher"] = newBlock("aes", 16, 24, 32)
	in["crypto/des.NewTripleDESCipher"] = newBlock("des3", 24)
	in["gosym.Block.BlockSize"] = func(r *Run, fr *Frame, cc *ssa.CallCommon, a []Value) Value {
		return BVi(int64(cipherBlockSize[a[0].(*BlockObj).alg]), 64)
	}
	blockOp := func(enc bool) intrinsic {
		return func(r *Run, fr *Frame, cc *ssa.CallCommon, a []Value) Value {
			b := a[0].(*BlockObj)
			bs := cipherBlockSize[b.alg]
			dst, src := a[1].(*SliceV), a[2].(*SliceV)
			if src.len < bs || dst.len < bs {
				r.mustNot(True, "panic", lbl("cipher.Block"), "input/output not full block")
			}
			setBytes(dst, r.blockApply(b.alg, enc, b.key, sliceBytes(src)[:bs]))
			return TupleV{}
		}
	}
	in["gosym.Block.Encrypt"] = blockOp(true)
	in["gosym.Block.Decrypt"] = blockOp(false)
	newCBC := func(enc bool) intrinsic {
		return func(r *Run, fr *Frame, cc *ssa.CallCommon, a []Value) Value {
			bi := a[0].(*IfaceV)
			if bi.t == nil {
				r.mustNot(True, "nil", lbl("cipher.NewCBC"), "nil cipher.Block")
			}
			b := bi.v.(*BlockObj)
			iv := sliceBytes(a[1].(*SliceV))
			if len(iv) != cipherBlockSize[b.alg] {
				r.mustNot(True, "panic", lbl("cipher.NewCBC"), "cipher.NewCBC: IV length must equal block size")
			}
			return &IfaceV{t: cbcType, v: &CBCObj{blk: b, enc: enc, prev: append([]*Term{}, iv...)}}
		}
	}
	in["crypto/cipher.NewCBCEncrypter"] = newCBC(true)
	in["crypto/cipher.NewCBCDecrypter"] = newCBC(false)
	in["gosym.CBC.BlockSize"] = func(r *Run, fr *Frame, cc *ssa.CallCommon, a []Value) Value {
		return BVi(int64(cipherBlockSize[a[0].(*CBCObj).blk.alg]), 64)
	}
	in["gosym.CBC.CryptBlocks"] = func(r *Run, fr *Frame, cc *ssa.CallCommon, a []Value) Value {
		c := a[0].(*CBCObj)
		bs := cipherBlockSize[c.blk.alg]
		dst, src := a[1].(*SliceV), a[2].(*SliceV)
		if src.len%bs != 0 {
			r.mustNot(True, "panic", lbl("cipher.CryptBlocks"), "crypto/cipher: input not full blocks")
		}
		if dst.len < src.len {
			r.mustNot(True, "panic", lbl("cipher.CryptBlocks"), "crypto/cipher: output smaller than input")
		}
		inb := append([]*Term{}, sliceBytes(src)...) // dst may alias src
		out := make([]*Term, 0, len(inb))
		for i := 0; i+bs <= len(inb); i += bs {
			blk := inb[i : i+bs]
			if c.enc {
				ct := r.blockApply(c.blk.alg, true, c.blk.key, xorBytes(blk, c.prev))
				out = append(out, ct...)
				c.prev = ct
			} else {
				pt := xorBytes(r.blockApply(c.blk.alg, false, c.blk.key, blk), c.prev)
				out = append(out, pt...)
				c.prev = append([]*Term{}, blk...)
			}
		}
		setBytes(dst, out)
		return TupleV{}
	}

	// ---- rc4 ------------------------------------------------------------------------------------
	in["crypto/rc4.NewCipher"] = func(r *Run, fr *Frame, cc *ssa.CallCommon, a []Value) Value {
		key := sliceBytes(a[0].(*SliceV))
		if len(key) < 1 || len(key) > 256 {
			return TupleV{&PtrV{}, r.errNew(fr, "crypto/rc4: invalid key size")}
		}
		o := r.newObj(rc4Type, &RC4Obj{key: append([]*Term{}, key...)}, "rc4")
		return TupleV{&PtrV{obj: o}, &IfaceV{}}
	}
	in["(*crypto/rc4.Cipher).XORKeyStream"] = func(r *Run, fr *Frame, cc *ssa.CallCommon, a []Value) Value {
		c := a[0].(*PtrV).obj.val.(*RC4Obj)
		dst, src := a[1].(*SliceV), a[2].(*SliceV)
		if src.len == 0 {
			return TupleV{}
		}
		if dst.len < src.len {
			r.mustNot(True, "panic", lbl("rc4.XORKeyStream"), "crypto/rc4: output smaller than input")
		}
		ks := ufBytes(fmt.Sprintf("RC4KS_%d", c.pos+src.len), c.pos+src.len, c.key)[c.pos:]
		c.pos += src.len
		setBytes(dst, xorBytes(sliceBytes(src), ks))
		return TupleV{}
	}
	in["(*crypto/rc4.Cipher).Reset"] = func(r *Run, fr *Frame, cc *ssa.CallCommon, a []Value) Value { return TupleV{} }

	// ---- pbkdf2 -----------------------------------------------------------------------------------
	pb := func(r *Run, fr *Frame, cc *ssa.CallCommon, a []Value) Value {
		pw, salt := sliceBytes(a[0].(*SliceV)), sliceBytes(a[1].(*SliceV))
		iter := a[2].(*Term)
		kl := int(r.concretise(a[3].(*Term), "pbkdf2 key length"))
		alg := algOfFunc(a[4])
		return r.bytesToSlice(pbkdf2Bytes(alg, pw, salt, iter, kl))
	}
	in["golang.org/x/crypto/pbkdf2.Key"] = pb
	in["github.com/jcmturner/gofork/x/crypto/pbkdf2.Key64"] = pb
	in["github.com/jcmturner/gofork/x/crypto/pbkdf2.Key"] = pb

	// ---- specification-side primitives exposed to harnesses (same symbols) --------------------------
	in[rtPkg+".HMAC"] = func(r *Run, fr *Frame, cc *ssa.CallCommon, a []Value) Value {
		alg, _ := a[0].(*StrV).Concrete()
		return r.bytesToSlice(r.hmacBytes(alg, sliceBytes(a[1].(*SliceV)), sliceBytes(a[2].(*SliceV))))
	}
	in[rtPkg+".Hash"] = func(r *Run, fr *Frame, cc *ssa.CallCommon, a []Value) Value {
		alg, _ := a[0].(*StrV).Concrete()
		return r.bytesToSlice(r.hashBytes(alg, sliceBytes(a[1].(*SliceV))))
	}
	specBlock := func(enc bool) intrinsic {
		return func(r *Run, fr *Frame, cc *ssa.CallCommon, a []Value) Value {
			alg, _ := a[0].(*StrV).Concrete()
			key, blk := sliceBytes(a[1].(*SliceV)), sliceBytes(a[2].(*SliceV))
			if len(blk) != cipherBlockSize[alg] {
				endPath("engine", "zzverif.Block%v: block of %d bytes", enc, len(blk))
			}
			return r.bytesToSlice(r.blockApply(alg, enc, key, blk))
		}
	}
	in[rtPkg+".BlockEnc"] = specBlock(true)
	in[rtPkg+".BlockDec"] = specBlock(false)
	in[rtPkg+".RC4"] = func(r *Run, fr *Frame, cc *ssa.CallCommon, a []Value) Value {
		key, data := sliceBytes(a[0].(*SliceV)), sliceBytes(a[1].(*SliceV))
		if len(data) == 0 {
			return r.bytesToSlice(nil)
		}
		ks := ufBytes(fmt.Sprintf("RC4KS_%d", len(data)), len(data), key)
		return r.bytesToSlice(xorBytes(data, ks))
	}
	in[rtPkg+".PBKDF2"] = func(r *Run, fr *Frame, cc *ssa.CallCommon, a []Value) Value {
		alg, _ := a[0].(*StrV).Concrete()
		kl := int(r.concretise(a[4].(*Term), "pbkdf2 key length"))
		return r.bytesToSlice(pbkdf2Bytes(alg, sliceBytes(a[1].(*SliceV)), sliceBytes(a[2].(*SliceV)), a[3].(*Term), kl))
	}
	nfold := func(r *Run, fr *Frame, cc *ssa.CallCommon, a []Value) Value {
		m := sliceBytes(a[0].(*SliceV))
		n := int(r.concretise(a[1].(*Term), "nfold n"))
		if len(m) == 0 {
			// the reference n-fold of the empty string is all zero (nothing is added up), as natively
			z := make([]*Term, n/8)
			for i := range z {
				z[i] = BVu(0, 8)
			}
			return r.bytesToSlice(z)
		}
		out := ufBytes(fmt.Sprintf("NFOLD_%d", n), n/8, m)
		if r.inst.stubSet["idealmac"] && len(m) > 0 {
			r.injective(fmt.Sprintf("NFOLD_%d", n), m, out)
		}
		return r.bytesToSlice(out)
	}
	des3rtk := func(r *Run, fr *Frame, cc *ssa.CallCommon, a []Value) Value {
		in := sliceBytes(a[0].(*SliceV))
		out := ufBytes("DES3RTK", 24, in)
		if r.inst.stubSet["idealmac"] && len(in) > 0 {
			// distinct seeds give keys that differ in non-parity bits (true except for the 16 weak-key corrections)
			eff := make([]*Term, len(out))
			for i, b := range out {
				eff[i] = Extract(b, 7, 1)
			}
			r.injective("DES3RTK", in, eff)
		}
		return r.bytesToSlice(out)
	}
	in["des3rtkuf:"+rtPkg+".DES3RandomToKey"] = des3rtk
	in["des3rtkuf:github.com/jcmturner/gokrb5/v8/crypto/rfc3961.DES3RandomToKey"] = des3rtk
	ocadd := func(r *Run, fr *Frame, cc *ssa.CallCommon, a []Value) Value {
		x, y := sliceBytes(a[0].(*SliceV)), sliceBytes(a[1].(*SliceV))
		return r.bytesToSlice(ufBytes("OCADD", len(x), x, y))
	}
	in["ocadduf:"+rtPkg+".OnesAdd"] = ocadd
	in["ocadduf:github.com/jcmturner/gokrb5/v8/crypto/rfc3961.onesComplementAddition"] = ocadd
	in[rtPkg+".Nfold"] = nfold
	// summary of the real n-fold by the same symbol (its own correctness is a separate obligation, C08)
	// the summary of the real Nfold applies to non-empty inputs and n > 0 (the cases the structure lemmas of C08
	// cover); the degenerate cases run the real code, which decides itself whether it panics (found by the
	// translator-validation witnesses: the native run of a "completed" path divided by zero)
	in["nfolduf:github.com/jcmturner/gokrb5/v8/crypto/rfc3961.Nfold"] = func(r *Run, fr *Frame, cc *ssa.CallCommon, a []Value) Value {
		if n, ok := idxConst(a[1].(*Term)); a[0].(*SliceV).len == 0 || (ok && n <= 0) {
			return r.callReal(fr, r.eng.fnByName["github.com/jcmturner/gokrb5/v8/crypto/rfc3961.Nfold"], a, lbl("Nfold (degenerate input)"))
		}
		return nfold(r, fr, cc, a)
	}
}

func pbkdf2Bytes(alg string, pw, salt []*Term, iter *Term, kl int) []*Term {
	name := fmt.Sprintf("PBKDF2_%s_%d_%d_%d", alg, kl, len(pw), len(salt))
	var args []*Term
	if len(pw) > 0 {
		args = append(args, catBytes(pw))
	}
	if len(salt) > 0 {
		args = append(args, catBytes(salt))
	}
	args = append(args, iter)
	return splitBytes(UF(name, kl*8, args...))
}

// Idealised MAC/hash (stub set "idealmac"): applications of the same function agree on their
// (shortest used) tag prefix only if their operands are identical.  Instantiated pairwise on the
// applications that occur.
type macApp struct {
	fam    string
	klen   int
	args   []*Term
	digest []*Term
}

var tagBytes = map[string]int{"sha1": 12, "md5": 16, "md4": 16, "sha256": 16, "sha384": 24}

func (r *Run) macAxioms(fam, alg string, args []*Term, klen int, digest []*Term) {
	if !r.inst.stubSet["idealmac"] {
		return
	}
	tb := tagBytes[alg]
	me := macApp{fam, klen, args, digest}
	for _, o := range r.macApps {
		if o.fam != fam {
			continue
		}
		p1, p2 := catBytes(o.digest[:tb]), catBytes(digest[:tb])
		if p1 == p2 {
			continue
		}
		if o.klen == klen && len(o.args) == len(args) {
			if len(args) == 0 {
				continue
			}
			r.addPC(Or(Not(Eq(p1, p2)), Eq(catBytes(o.args), catBytes(args))))
		} else {
			r.addPC(Not(Eq(p1, p2)))
		}
	}
	r.macApps = append(r.macApps, me)
}
