package main

import (
	"fmt"
	"go/token"
	"go/types"
	"strings"

	"golang.org/x/tools/go/ssa"
)

// Uninterpreted cryptography: hash objects, HMAC, aescts, rand.

type HashObj struct {
	alg  string
	key  []*Term // nil => unkeyed
	data []*Term
}

var digestSize = map[string]int{"md4": 16, "md5": 16, "sha1": 20, "sha256": 32, "sha384": 48}
var blockSize = map[string]int{"md4": 64, "md5": 64, "sha1": 64, "sha256": 64, "sha384": 128}

var fakePkg = types.NewPackage("gosym", "gosym")
var hashType = types.NewNamed(types.NewTypeName(token.NoPos, fakePkg, "Hash", nil), types.NewStruct(nil, nil), nil)

func catBytes(bs []*Term) *Term {
	if len(bs) == 0 {
		return nil
	}
	t := bs[0]
	for _, b := range bs[1:] {
		t = Concat(t, b)
	}
	return t
}

func splitBytes(t *Term) []*Term {
	n := t.w / 8
	out := make([]*Term, n)
	for i := 0; i < n; i++ {
		out[i] = Extract(t, t.w-1-8*i, t.w-8-8*i)
	}
	return out
}

// ufBytes applies an uninterpreted function named after operand lengths to byte-vector operands.
func ufBytes(name string, outBytes int, operands ...[]*Term) []*Term {
	var args []*Term
	for _, o := range operands {
		name += fmt.Sprintf("_%d", len(o))
		if len(o) > 0 {
			args = append(args, catBytes(o))
		}
	}
	return splitBytes(UF(name, outBytes*8, args...))
}

func sliceBytes(s *SliceV) []*Term {
	out := make([]*Term, s.len)
	for i := range out {
		out[i] = elemsOf(s)[s.off+i].(*Term)
	}
	return out
}

func (r *Run) bytesToSlice(bs []*Term) *SliceV {
	s := r.makeSlice(types.Typ[types.Uint8], len(bs), len(bs))
	for i, b := range bs {
		elemsOf(s)[i] = b
	}
	return s
}

func algOfFunc(v Value) string {
	fv := v.(*FuncV)
	n := ""
	if fv.fn != nil {
		n = fv.fn.String()
	} else {
		n = fv.ext
	}
	switch n {
	case "crypto/md5.New":
		return "md5"
	case "crypto/sha1.New":
		return "sha1"
	case "crypto/sha256.New":
		return "sha256"
	case "crypto/sha512.New384":
		return "sha384"
	case "golang.org/x/crypto/md4.New":
		return "md4"
	}
	endPath("engine", "unknown hash constructor %s", n)
	return ""
}

func (e *Engine) registerCrypto() {
	in := e.intrinsics
	for fn, alg := range map[string]string{"crypto/md5.New": "md5", "crypto/sha1.New": "sha1", "crypto/sha256.New": "sha256", "crypto/sha512.New384": "sha384", "golang.org/x/crypto/md4.New": "md4"} {
		alg := alg
		in[fn] = func(r *Run, fr *Frame, cc *ssa.CallCommon, a []Value) Value {
			return &IfaceV{t: hashType, v: &HashObj{alg: alg}}
		}
	}
	in["crypto/hmac.New"] = func(r *Run, fr *Frame, cc *ssa.CallCommon, a []Value) Value {
		return &IfaceV{t: hashType, v: &HashObj{alg: algOfFunc(a[0]), key: append([]*Term{}, sliceBytes(a[1].(*SliceV))...)}}
	}
	in["gosym.Hash.Write"] = func(r *Run, fr *Frame, cc *ssa.CallCommon, a []Value) Value {
		h := a[0].(*HashObj)
		p := a[1].(*SliceV)
		h.data = append(h.data, sliceBytes(p)...)
		return TupleV{BVi(int64(p.len), 64), &IfaceV{}}
	}
	in["gosym.Hash.Sum"] = func(r *Run, fr *Frame, cc *ssa.CallCommon, a []Value) Value {
		h := a[0].(*HashObj)
		pre := a[1].(*SliceV)
		var d []*Term
		if h.key != nil {
			d = ufBytes("HMAC_"+h.alg, digestSize[h.alg], h.key, h.data)
			r.macAxioms("HMAC_"+h.alg, h.alg, append(append([]*Term{}, h.key...), h.data...), len(h.key), d)
		} else {
			d = ufBytes("H_"+h.alg, digestSize[h.alg], h.data)
			r.macAxioms("H_"+h.alg, h.alg, h.data, 0, d)
		}
		var out []*Term
		if pre.arr != nil {
			out = append(out, sliceBytes(pre)...)
		}
		out = append(out, d...)
		return r.bytesToSlice(out)
	}
	in["gosym.Hash.Size"] = func(r *Run, fr *Frame, cc *ssa.CallCommon, a []Value) Value {
		return BVi(int64(digestSize[a[0].(*HashObj).alg]), 64)
	}
	in["gosym.Hash.BlockSize"] = func(r *Run, fr *Frame, cc *ssa.CallCommon, a []Value) Value {
		return BVi(int64(blockSize[a[0].(*HashObj).alg]), 64)
	}
	in["gosym.Hash.Reset"] = func(r *Run, fr *Frame, cc *ssa.CallCommon, a []Value) Value {
		a[0].(*HashObj).data = nil
		return nil
	}
	in["crypto/rand.Read"] = func(r *Run, fr *Frame, cc *ssa.CallCommon, a []Value) Value {
		s := a[0].(*SliceV)
		for i := 0; i < s.len; i++ {
			t := r.input(8)
			elemsOf(s)[s.off+i] = t
			r.randLog = append(r.randLog, t)
		}
		return TupleV{BVi(int64(s.len), 64), &IfaceV{}}
	}
	in[rtPkg+".RandLog"] = func(r *Run, fr *Frame, cc *ssa.CallCommon, a []Value) Value {
		s := r.bytesToSlice(r.randLog)
		r.randLog = nil
		return s
	}
	// aescts as an uninterpreted pair with the length behaviour of the real code
	aes := "github.com/jcmturner/aescts/v2."
	errNew := func(r *Run, fr *Frame, msg string) Value {
		en := r.eng.prog.ImportedPackage("errors").Func("New")
		return r.callFn(fr, en, []Value{concStr(msg)}, lbl("aescts"))
	}
	in[aes+"Encrypt"] = func(r *Run, fr *Frame, cc *ssa.CallCommon, a []Value) Value {
		key, iv, pt := sliceBytes(a[0].(*SliceV)), sliceBytes(a[1].(*SliceV)), sliceBytes(a[2].(*SliceV))
		if len(key) != 16 && len(key) != 24 && len(key) != 32 {
			return TupleV{r.bytesToSlice(nil), r.bytesToSlice(nil), errNew(r, fr, "error creating cipher")}
		}
		n := len(pt)
		if n < 16 {
			n = 16
		}
		ct := ufBytes("AESCTS_E", n, key, iv, pt)
		niv := ufBytes("AESCTS_IV", 16, key, iv, pt)
		r.axiomDE(key, iv, pt, ct)
		return TupleV{r.bytesToSlice(niv), r.bytesToSlice(ct), &IfaceV{}}
	}
	in[aes+"Decrypt"] = func(r *Run, fr *Frame, cc *ssa.CallCommon, a []Value) Value {
		key, iv, ct := sliceBytes(a[0].(*SliceV)), sliceBytes(a[1].(*SliceV)), sliceBytes(a[2].(*SliceV))
		if len(ct) < 16 {
			return TupleV{r.bytesToSlice(nil), errNew(r, fr, "ciphertext is not large enough")}
		}
		if len(key) != 16 && len(key) != 24 && len(key) != 32 {
			return TupleV{&SliceV{}, errNew(r, fr, "error creating cipher")}
		}
		pt := ufBytes("AESCTS_D", len(ct), key, iv, ct)
		// instantiated bijection axiom: E(k, iv, D(k, iv, c)) = c
		back := ufBytes("AESCTS_E", len(ct), key, iv, pt)
		r.addPC(Eq(catBytes(back), catBytes(ct)))
		return TupleV{r.bytesToSlice(pt), &IfaceV{}}
	}
	// spec-side primitives exposed to harnesses (same symbols)
	in[rtPkg+".HMAC"] = func(r *Run, fr *Frame, cc *ssa.CallCommon, a []Value) Value {
		alg, _ := a[0].(*StrV).Concrete()
		k, dt := sliceBytes(a[1].(*SliceV)), sliceBytes(a[2].(*SliceV))
		d := ufBytes("HMAC_"+alg, digestSize[alg], k, dt)
		r.macAxioms("HMAC_"+alg, alg, append(append([]*Term{}, k...), dt...), len(k), d)
		return r.bytesToSlice(d)
	}
	in[rtPkg+".Hash"] = func(r *Run, fr *Frame, cc *ssa.CallCommon, a []Value) Value {
		alg, _ := a[0].(*StrV).Concrete()
		dt := sliceBytes(a[1].(*SliceV))
		d := ufBytes("H_"+alg, digestSize[alg], dt)
		r.macAxioms("H_"+alg, alg, dt, 0, d)
		return r.bytesToSlice(d)
	}
	in[rtPkg+".AESCTSEncrypt"] = func(r *Run, fr *Frame, cc *ssa.CallCommon, a []Value) Value {
		key, iv, pt := sliceBytes(a[0].(*SliceV)), sliceBytes(a[1].(*SliceV)), sliceBytes(a[2].(*SliceV))
		n := len(pt)
		if n < 16 {
			n = 16
		}
		ct := ufBytes("AESCTS_E", n, key, iv, pt)
		r.axiomDE(key, iv, pt, ct)
		return r.bytesToSlice(ct)
	}
	in[rtPkg+".AESCTSDecrypt"] = func(r *Run, fr *Frame, cc *ssa.CallCommon, a []Value) Value {
		key, iv, ct := sliceBytes(a[0].(*SliceV)), sliceBytes(a[1].(*SliceV)), sliceBytes(a[2].(*SliceV))
		pt := ufBytes("AESCTS_D", len(ct), key, iv, ct)
		back := ufBytes("AESCTS_E", len(ct), key, iv, pt)
		r.addPC(Eq(catBytes(back), catBytes(ct)))
		return r.bytesToSlice(pt)
	}
	// summary: n-fold as an uninterpreted function (its correctness is a separate obligation)
	in["github.com/jcmturner/gokrb5/v8/crypto/rfc3961.Nfold"] = func(r *Run, fr *Frame, cc *ssa.CallCommon, a []Value) Value {
		m := sliceBytes(a[0].(*SliceV))
		n := int(r.concretise(a[1].(*Term), "nfold n"))
		return r.bytesToSlice(ufBytes(fmt.Sprintf("NFOLD_%d", n), n/8, m))
	}
}

var _ = strings.Contains

// instantiated axiom D(k, iv, E(k, iv, p)) = p (for |p| >= 16, where E is length preserving)
func (r *Run) axiomDE(key, iv, pt, ct []*Term) {
	if len(pt) < 16 {
		return
	}
	back := ufBytes("AESCTS_D", len(ct), key, iv, ct)
	r.addPC(Eq(catBytes(back), catBytes(pt)))
}

// Idealised MAC/hash: applications of the same function agree on their (shortest used) tag prefix
// only if their operands are identical.  Instantiated pairwise on the applications that occur.
type macApp struct {
	fam    string
	klen   int
	args   []*Term
	digest []*Term
}

var tagBytes = map[string]int{"sha1": 12, "md5": 16, "md4": 16, "sha256": 16, "sha384": 24}

func (r *Run) macAxioms(fam, alg string, args []*Term, klen int, digest []*Term) {
	tb := tagBytes[alg]
	me := macApp{fam, klen, args, digest}
	for _, o := range r.macApps {
		if o.fam != fam {
			continue
		}
		p1, p2 := catBytes(o.digest[:tb]), catBytes(digest[:tb])
		if p1 == p2 {
			continue
		}
		if o.klen == klen && len(o.args) == len(args) {
			if len(args) == 0 {
				continue
			}
			r.addPC(Or(Not(Eq(p1, p2)), Eq(catBytes(o.args), catBytes(args))))
		} else {
			r.addPC(Not(Eq(p1, p2)))
		}
	}
	r.macApps = append(r.macApps, me)
}
