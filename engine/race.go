package main

import "fmt"

// Vector-clock data race detection for threads started by zzverif.Par.

type vc map[int]int

func (a vc) copyVC() vc {
	n := vc{}
	for k, v := range a {
		n[k] = v
	}
	return n
}
func (a vc) join(b vc) {
	for k, v := range b {
		if v > a[k] {
			a[k] = v
		}
	}
}

type epoch struct {
	tid, clk int
	site     string
}
type cellHist struct {
	w     *epoch
	reads map[int]epoch
}

func (r *Run) threadVC() vc {
	s := r.sch
	if s == nil || s.cur == nil {
		return nil
	}
	if s.vcs == nil {
		s.vcs = map[int]vc{}
	}
	v, ok := s.vcs[s.cur.id]
	if !ok {
		v = vc{s.cur.id: 1}
		s.vcs[s.cur.id] = v
	}
	return v
}

func (r *Run) access(key string, write bool, site Site) {
	v := r.threadVC()
	if v == nil {
		return
	}
	s := r.sch
	if s.hist == nil {
		s.hist = map[string]*cellHist{}
	}
	h, ok := s.hist[key]
	if !ok {
		h = &cellHist{reads: map[int]epoch{}}
		s.hist[key] = h
	}
	tid := s.cur.id
	hb := func(e epoch) bool { return e.tid == tid || v[e.tid] >= e.clk }
	if h.w != nil && !hb(*h.w) {
		r.reportRace(site, fmt.Sprintf("data race on %s: unordered with write at %s", key, h.w.site))
	}
	if write {
		for _, e := range h.reads {
			if !hb(e) {
				r.reportRace(site, fmt.Sprintf("data race on %s: write unordered with read at %s", key, e.site))
			}
		}
		h.w = &epoch{tid, v[tid], site.String()}
		h.reads = map[int]epoch{}
	} else {
		h.reads[tid] = epoch{tid, v[tid], site.String()}
	}
}

func cellKey(p *PtrV) string {
	k := fmt.Sprintf("o%d", p.obj.id)
	for _, e := range p.path {
		if e.idx != nil {
			if e.idx.IsConst() {
				k += fmt.Sprintf("[%d]", e.idx.Int())
			} else {
				k += "[*]"
			}
		} else {
			k += fmt.Sprintf(".%d", e.field)
		}
	}
	return k
}

// lock release / acquire edges
func (r *Run) vcRelease(l *lockState, read bool) {
	v := r.threadVC()
	if v == nil {
		return
	}
	if l.relW == nil {
		l.relW, l.relR = vc{}, vc{}
	}
	if read {
		l.relR.join(v)
	} else {
		l.relW.join(v)
	}
	v[r.sch.cur.id]++
}
func (r *Run) vcAcquire(l *lockState, read bool) {
	v := r.threadVC()
	if v == nil || l.relW == nil {
		return
	}
	v.join(l.relW)
	if !read {
		v.join(l.relR)
	}
}

// reportRace records a data race (once per site and path) and lets the path go on: a race is not a crash, and what
// the racing accesses lead to - a torn pair, a key overwritten under a reader - is what the harness's assertions
// then see and what the native replay can confirm (the race itself is invisible to a replay that serialises the
// threads with a baton).
func (r *Run) reportRace(site Site, msg string) {
	k := site.String()
	if r.raceSeen == nil {
		r.raceSeen = map[string]bool{}
	}
	if r.raceSeen[k] {
		return
	}
	r.raceSeen[k] = true
	if len(r.taken) >= len(r.prefix) && r.sol.Check() == "sat" {
		r.oblSat++
		r.report("race", site, msg)
	}
}
