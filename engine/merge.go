package main

import (
	"fmt"

	"golang.org/x/tools/go/ssa"
)

// ---- immediate post-dominators (simple iterative dataflow, virtual exit) --------------------

func (e *Engine) computeIPDom(fn *ssa.Function) {
	// caller holds e.ipdomMu
	if e.ipdomDone[fn] {
		return
	}
	e.ipdomDone[fn] = true
	n := len(fn.Blocks)
	// pdom sets as bitsets over block indices; exit = n
	full := make([]bool, n+1)
	for i := range full {
		full[i] = true
	}
	pd := make([][]bool, n+1)
	for i := 0; i <= n; i++ {
		pd[i] = append([]bool{}, full...)
	}
	pd[n] = make([]bool, n+1)
	pd[n][n] = true
	succs := func(b *ssa.BasicBlock) []int {
		if len(b.Succs) == 0 {
			return []int{n}
		}
		var r []int
		for _, s := range b.Succs {
			r = append(r, s.Index)
		}
		return r
	}
	changed := true
	for changed {
		changed = false
		for i := n - 1; i >= 0; i-- {
			b := fn.Blocks[i]
			nw := append([]bool{}, full...)
			for _, s := range succs(b) {
				for k := range nw {
					nw[k] = nw[k] && pd[s][k]
				}
			}
			nw[i] = true
			for k := range nw {
				if nw[k] != pd[i][k] {
					changed = true
				}
			}
			pd[i] = nw
		}
	}
	// ipdom(b) = the strict post-dominator that is post-dominated by all other strict post-dominators
	for i := 0; i < n; i++ {
		var cands []int
		for k := 0; k <= n; k++ {
			if k != i && pd[i][k] {
				cands = append(cands, k)
			}
		}
		for _, c := range cands {
			ok := true
			for _, d := range cands {
				if d != c && !pd[c][d] {
					ok = false
				}
			}
			if ok {
				if c < n {
					e.ipdom[fn.Blocks[i]] = fn.Blocks[c]
				}
				break
			}
		}
	}
}

// mergePoint returns the immediate post-dominator of b if the region between b and it is
// free of Return / Panic / Go / Defer / RunDefers terminators and instructions; nil otherwise.
func (e *Engine) mergePoint(b *ssa.BasicBlock) *ssa.BasicBlock {
	fn := b.Parent()
	e.ipdomMu.Lock()
	if mp, ok := e.mergePts[b]; ok {
		e.ipdomMu.Unlock()
		return mp
	}
	e.computeIPDom(fn)
	j := e.ipdom[b]
	e.ipdomMu.Unlock()
	res := e.mergePointSlow(b, j)
	e.ipdomMu.Lock()
	e.mergePts[b] = res
	e.ipdomMu.Unlock()
	return res
}

func (e *Engine) mergePointSlow(b, j *ssa.BasicBlock) *ssa.BasicBlock {
	if j == nil {
		return nil
	}
	seen := map[*ssa.BasicBlock]bool{j: true}
	ok := true
	var walk func(x *ssa.BasicBlock)
	walk = func(x *ssa.BasicBlock) {
		if seen[x] || !ok {
			return
		}
		seen[x] = true
		for _, ins := range x.Instrs {
			switch ins.(type) {
			case *ssa.Return, *ssa.Panic, *ssa.Go, *ssa.Defer, *ssa.RunDefers:
				ok = false
				return
			}
		}
		for _, s := range x.Succs {
			walk(s)
		}
	}
	for _, s := range b.Succs {
		walk(s)
	}
	if !ok {
		return nil
	}
	return j
}

type arrival struct {
	g   *Term
	env []Value
}

func cloneEnv(m []Value) []Value {
	n := make([]Value, len(m))
	copy(n, m)
	return n
}

// predicate executes both sides of the symbolic If ending block b under complementary guards
// until the merge point j, then merges the SSA environment (memory is merged by guarded stores).
func (r *Run) predicate(fr *Frame, b *ssa.BasicBlock, c *Term, j *ssa.BasicBlock) {
	outer := r.guard
	if outer == nil {
		outer = True
	}
	saved := fr.env
	var arrs []arrival
	for side, cond := range []*Term{c, Not(c)} {
		g := And(outer, cond)
		if g.IsFalse() || (recursive(fr) && r.sol.CheckWith(g) == "unsat") {
			continue
		}
		fr.env = cloneEnv(saved)
		r.guard = g
		r.predDepth++
		r.runRegion(fr, b.Succs[side], b, j, &arrs, 0)
		r.predDepth--
	}
	r.guard = outer
	if len(arrs) == 0 {
		endPath("infeasible", "no feasible side in predicated region")
	}
	r.merges++
	// merge environments
	merged := arrs[len(arrs)-1].env
	for i := len(arrs) - 2; i >= 0; i-- {
		a := arrs[i]
		for k, v := range a.env {
			if v == nil {
				continue
			}
			if mv := merged[k]; mv != nil {
				if !sameValue(mv, v) {
					merged[k] = r.mergeVal(a.g, v, mv, lbl("env merge"))
				}
			} else {
				merged[k] = v
			}
		}
	}
	fr.env = merged
}

func sameValue(a, b Value) bool {
	switch x := a.(type) {
	case *Term:
		y, ok := b.(*Term)
		return ok && x == y
	case *SliceV:
		y, ok := b.(*SliceV)
		return ok && x.arr == y.arr && x.off == y.off && x.len == y.len && x.cap == y.cap && samePath(x.base, y.base)
	case *PtrV:
		y, ok := b.(*PtrV)
		return ok && x.obj == y.obj && samePath(x.path, y.path)
	case StructV, ArrayV, TupleV:
		return false
	case nil:
		return b == nil
	}
	return a == b
}

func samePath(a, b []PathElem) bool {
	if len(a) != len(b) {
		return false
	}
	for i := range a {
		if a[i] != b[i] {
			return false
		}
	}
	return true
}

// runRegion runs from block b (entered from prev) under r.guard until reaching stop.
func (r *Run) runRegion(fr *Frame, b, prev, stop *ssa.BasicBlock, arrs *[]arrival, depth int) {
	fn := fr.fn
	g := r.guard
	visits := 0
	for {
		if b == stop {
			// evaluate stop's phis for this arrival
			fr.prev = prev
			for _, ins := range stop.Instrs {
				phi, ok := ins.(*ssa.Phi)
				if !ok {
					break
				}
				for i, p := range stop.Preds {
					if p == prev {
						fr.set(phi, r.get(fr, phi.Edges[i]))
					}
				}
			}
			*arrs = append(*arrs, arrival{g: g, env: fr.env})
			return
		}
		visits++
		if visits > 10000 || depth > r.inst.Unwind*4 {
			r.unknowns = append(r.unknowns, fmt.Sprintf("unwind bound in merge region of %s", fn))
			endPath("limit", "unwind bound in merge region of %s", fn)
		}
		fr.prev = prev
		for _, ins := range b.Instrs {
			r.steps++
			r.instrCount[fn]++
			if r.steps > r.inst.MaxSteps {
				r.unknowns = append(r.unknowns, "step limit")
				endPath("limit", "step limit")
			}
			switch x := ins.(type) {
			case *ssa.Jump:
				prev, b = b, b.Succs[0]
			case *ssa.If:
				c := r.get(fr, x.Cond).(*Term)
				if c.IsTrue() {
					prev, b = b, b.Succs[0]
				} else if c.IsFalse() {
					prev, b = b, b.Succs[1]
				} else {
					// nested symbolic branch: both sides continue to the same stop
					saved := fr.env
					for side, cond := range []*Term{c, Not(c)} {
						ng := And(g, cond)
						if ng.IsFalse() {
							continue
						}
						fr.env = cloneEnv(saved)
						r.guard = ng
						r.predDepth++
						r.runRegion(fr, b.Succs[side], b, stop, arrs, depth+1)
						r.predDepth--
					}
					r.guard = g
					return
				}
			default:
				r.exec(fr, ins)
			}
		}
	}
}

// mergeVal = ite(g, a, b) lifted to aggregates and equal-length slices.
func (r *Run) mergeVal(g *Term, a, b Value, site Site) Value {
	if sameValue(a, b) {
		return a
	}
	switch x := a.(type) {
	case *Term:
		return Ite(g, x, b.(*Term))
	case StructV:
		y := b.(StructV)
		n := make(StructV, len(x))
		for i := range x {
			n[i] = r.mergeVal(g, x[i], y[i], site)
		}
		return n
	case ArrayV:
		y := b.(ArrayV)
		n := make(ArrayV, len(x))
		for i := range x {
			n[i] = r.mergeVal(g, x[i], y[i], site)
		}
		return n
	case TupleV:
		y := b.(TupleV)
		n := make(TupleV, len(x))
		for i := range x {
			if x[i] == nil || y[i] == nil {
				n[i] = x[i]
				continue
			}
			n[i] = r.mergeVal(g, x[i], y[i], site)
		}
		return n
	case *SliceV:
		y := b.(*SliceV)
		if x.len == y.len && x.arr != nil && y.arr != nil {
			ns := &SliceV{len: x.len, cap: x.len}
			arr := make(ArrayV, x.len)
			for i := 0; i < x.len; i++ {
				arr[i] = r.mergeVal(g, elemsOf(x)[x.off+i], elemsOf(y)[y.off+i], site)
			}
			ns.arr = r.newObj(x.arr.typ, arr, "merged")
			return ns
		}
	case *StrV:
		y := b.(*StrV)
		if x.opaque == nil && y.opaque == nil && len(x.b) == len(y.b) {
			n := &StrV{b: make([]*Term, len(x.b))}
			for i := range x.b {
				n.b[i] = Ite(g, x.b[i], y.b[i])
			}
			return n
		}
	}
	if xs, ok := a.(*SliceV); ok {
		ys := b.(*SliceV)
		endPath("engine", "cannot merge slices len %d/%d arr %v/%v at %s", xs.len, ys.len, xs.arr != nil, ys.arr != nil, site)
	}
	endPath("engine", "cannot merge %T values at %s", a, site)
	return nil
}

func recursive(fr *Frame) bool {
	n := 0
	for f := fr; f != nil; f = f.caller {
		if f.fn == fr.fn {
			n++
		}
	}
	return n >= 2
}
