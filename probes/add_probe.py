import sys, time
exec(open('nfold_probe.py').read().split("mlen=int")[0])
n=int(sys.argv[1])
a=[BitVec('a%d'%i,8) for i in range(n//8)]; b=[BitVec('b%d'%i,8) for i in range(n//8)]
c=Concat(*code_add(a,b))
A=Concat(*a); B=Concat(*b)
t=ZeroExt(1,A)+ZeroExt(1,B)
t=ZeroExt(1,Extract(n-1,0,t))+ZeroExt(n,Extract(n,n,t))
t=ZeroExt(1,Extract(n-1,0,t))+ZeroExt(n,Extract(n,n,t))
r=Extract(n-1,0,t)
s=Solver(); s.set("timeout",120000); s.add(c!=r)
t0=time.time(); print("add",n,s.check(),round(time.time()-t0,2))
if s.check()==sat:
    m=s.model(); print(m.eval(A),m.eval(B),m.eval(c),m.eval(r))
# rotation
for mlen,step in [(5,13),(5,26),(16,13*7),(64,13*20)]:
    m=[BitVec('m%d'%i,8) for i in range(mlen)]
    cr=Concat(*code_rot(m,step)) if mlen>1 else code_rot(m,step)[0]
    M=Concat(*m)
    s=Solver(); s.set("timeout",60000); s.add(cr!=RotateRight(M,step%(mlen*8)))
    t0=time.time(); print("rot",mlen,step,s.check(),round(time.time()-t0,2))
