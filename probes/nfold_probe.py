import sys, time
from z3 import *
from math import gcd

def getBit(b, p):  # b list of BV8
    return Extract(0,0, LShR(b[p//8], 8-(p%8+1)))  # 1-bit
def code_rot(m, step):
    L=len(m)*8
    out=[BitVecVal(0,8) for _ in m]
    for i in range(L):
        v=getBit(m,i)
        p=(i+step)%L
        out[p//8]= out[p//8] | (ZeroExt(7,v) << (8-(p%8+1)))
    return out
def code_add(n1,n2, depth=0):
    nb=len(n1)*8
    out=[BitVecVal(0,8) for _ in n1]
    carry=BitVecVal(0,2)
    for i in range(nb-1,-1,-1):
        s=ZeroExt(1,getBit(n1,i))+ZeroExt(1,getBit(n2,i))+carry   # 2-bit
        # s==0|1: set bit s, carry 0; s==2: carry 1; s==3: set 1 carry 1
        bit=Extract(0,0,s)
        out[i//8]= out[i//8] | (ZeroExt(7,bit) << (8-(i%8+1)))
        carry=ZeroExt(1,Extract(1,1,s))
    if depth<2:
        ca=[BitVecVal(0,8) for _ in n1]; ca[-1]=BitVecVal(1,8)
        out2=code_add(out,ca,depth+1)
        return [If(carry==1,a,b) for a,b in zip(out2,out)]
    return out
def code_nfold(m,n):
    k=len(m)*8
    l=n*k//gcd(n,k)
    rep=l//k
    sb=[]
    for i in range(rep):
        sb+=code_rot(m,13*i)
    nf=[BitVecVal(0,8)]*(n//8)
    for i in range(l//n):
        s=[sb[j+i*(n//8)] for j in range(n//8)]
        nf=code_add(nf,s)
    return nf
# reference: big-int style
def ref_nfold(m,n):
    k=len(m)*8
    l=n*k//gcd(n,k)
    M=Concat(*m) if len(m)>1 else m[0]
    parts=[]
    for i in range(l//k):
        r=(13*i)%k
        parts.append(RotateRight(M,r))
    big=Concat(*parts) if len(parts)>1 else parts[0]
    acc=BitVecVal(0,n+1)
    for i in range(l//n):
        chunk=Extract(l-1-i*n, l-(i+1)*n, big)
        t=acc+ZeroExt(1,chunk)
        # end around carry
        t=ZeroExt(1,Extract(n-1,0,t))+ZeroExt(n,Extract(n,n,t))
        t=ZeroExt(1,Extract(n-1,0,t))+ZeroExt(n,Extract(n,n,t))
        acc=t
    return Extract(n-1,0,acc)
mlen=int(sys.argv[1]); n=int(sys.argv[2])
m=[BitVec('m%d'%i,8) for i in range(mlen)]
c=code_nfold(m,n); r=ref_nfold(m,n)
C=Concat(*c) if len(c)>1 else c[0]
s=Solver(); s.set("timeout",120000)
s.add(C!=r)
t=time.time(); print(mlen,n,s.check(), round(time.time()-t,2))
