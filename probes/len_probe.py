import time
from z3 import *
# MarshalLengthBytes(l) for l>127, loop unrolled K iterations, 64-bit signed ints; then GetLengthFromASN on [tag]+bytes
def sdiv(a,b): return a/b      # z3 BV '/' is signed div
def srem(a,b): return SRem(a,b)
l0=BitVec('l',64)
def marshal(l,K=8):
    # returns list of (guard, bytes list) alternatives by number of iterations
    alts=[]
    b=[]; p=BitVecVal(1,64); g=BoolVal(True)
    for it in range(K):
        byte=Extract(7,0, sdiv(srem(l,p*256),p))
        b=[byte]+b
        p=p*256
        l=l-srem(l,p)
        done=(l<=0)
        alts.append((And(g,done), list(b)))
        g=And(g,Not(done))
    return alts,g
alts,rest=marshal(l0)
def getlen(hdr):  # hdr = [0x80+n, b1..bn]
    n=len(hdr)-1
    base=1; acc=BitVecVal(0,64)
    for i in range(n-1,-1,-1):
        acc=acc+ZeroExt(56,hdr[1+i])*base
        base*=256
    return acc
s=Solver(); s.set("timeout",60000)
bound=(1<<31)
s.add(l0>127, l0<bound)
bad=[]
for g,b in alts:
    hdr=[BitVecVal(128+len(b),8)]+b
    bad.append(And(g, getlen(hdr)!=l0))
bad.append(rest)  # unwinding: not finished after K iterations
s.add(Or(*bad))
t=time.time(); r=s.check(); print("roundtrip l in (127,2^31):", r, round(time.time()-t,2))
if r==sat: print(s.model()[l0])
# minimality: number of octets is the DER-minimal one
s=Solver(); s.set("timeout",60000); s.add(l0>127, l0<bound)
bad=[]
for g,b in alts:
    n=len(b)
    minimal = And(l0 >= (1<<(8*(n-1))), l0 < (1<<(8*n))) if n<8 else BoolVal(True)
    bad.append(And(g, Not(minimal)))
s.add(Or(*bad)); t=time.time(); r=s.check(); print("DER-minimal:", r, round(time.time()-t,2))
if r==sat: print(s.model()[l0])
