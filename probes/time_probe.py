import time
from z3 import *
# real-ish time.Sub on (sec:int64, nsec:int32) -> int64 ns with no saturation (assume range)
def sub(ts,tn,us,un):
    return (ts-us)*BitVecVal(1000000000,64) + SignExt(32,tn-un)
def rng(s,n):
    return And(s>=0, s< (1<<32), n>=0, n<1000000000)
S=lambda *xs:[BitVec(x,64) for x in xs]
now_s,ct_s,now2_s,d = S('now_s','ct_s','now2_s','d')
now_n,ct_n,now2_n = [BitVec(x,32) for x in ('now_n','ct_n','now2_n')]
def check(name, fs, to=60000):
    s=Solver(); s.set("timeout",to); s.add(*fs)
    t=time.time(); r=s.check(); print(name, r, round(time.time()-t,2))
# (a) boundary sat: find times with now-ct == d and d == 300s
check("boundary-sat",[rng(now_s,now_n),rng(ct_s,ct_n), sub(now_s,now_n,ct_s,ct_n)==d, d==300*10**9])
# (b) monotonic unsat: now2>=now, now-ct>d  => now2-ct>d
later=Or(now2_s>now_s, And(now2_s==now_s, now2_n>=now_n))
check("monotone-unsat-mul",[rng(now_s,now_n),rng(ct_s,ct_n),rng(now2_s,now2_n),later, d>0, d<(1<<50),
   sub(now_s,now_n,ct_s,ct_n)>d, Not(sub(now2_s,now2_n,ct_s,ct_n)>d)])
# (c) linear model: times as 64-bit ns
now,ct,now2=S('now','ct','now2')
R=lambda x: And(x>=0,x<(1<<62))
check("monotone-unsat-linear",[R(now),R(ct),R(now2),now2>=now,d>0,d<(1<<50), now-ct>d, Not(now2-ct>d)])
